//! C06 — malformed or hostile files yield an error, never a panic, hang or memory blow-up.
//!
//! Structured fault injection: a valid file from the other properties' generators is taken apart
//! (zip parts / compound-file streams), 1-3 faults are applied where the parsers look (XML
//! attributes and structure, BIFF8 / BIFF12 record framing and fields, compound-file header / FAT /
//! directory, compressed VBA containers), the container is re-assembled, container-level faults
//! follow (truncation, byte noise), and the whole read API is driven over the result.

use crate::alloc::{measure, MemStats};
use crate::enc::cfb::{write_cfb, CfbLayout, CfbStream};
use crate::enc::zipw::{self, ZipKnobs};
use crate::enc::{biff8 as b8, ods as od, ovba, xlsb as bb, xlsx as xx};
use crate::engine::{guard_sig, replay_as, sample_one, Ctx, Findings, PanicSig, Report};
use crate::props::Prop;
use calamine::{open_workbook_auto_from_rs, Ods, Reader, ReaderRef, Sheets, Xls, Xlsb, Xlsx};
use proptest::prelude::*;
use serde::{Deserialize, Serialize};
use std::io::Cursor;

pub static PROP: Prop = Prop {
    id: "C06",
    run,
    replay,
    rule: "valid files (xlsx with tables/merges/shared formulas/styles, xlsb, xls incl. split SSTs and defined names, ods, VBA projects, bare compound files; all <= 1 MiB) with 1-3 structural faults: XML part truncated / unbalanced / renamed tag / numeric attribute replaced by {0,1,-1,2^32-1,2^32,huge,true+-1} / cell and range references replaced by a catalogue of malformed or reversed ones / type attribute swapped / <v> text replaced / relationship target replaced / part removed or emptied; BIFF8 and BIFF12 record streams truncated, a record's declared length changed, its payload shortened, a u16/u32 field overwritten with boundary values, its id swapped, a record dropped or duplicated; compound-file header fields, FAT / mini-FAT entries (self cycles, back edges, dangling ids) and directory entries overwritten; compressed VBA containers with chunk headers and copy tokens overwritten; finally truncation or byte noise on the whole file. Every reader's full call list (new, metadata, worksheet_range/_ref, worksheet_formula, worksheets, merge cells, tables, vba_project incl. modules) runs on the format's own reader and through auto-detection. Oracle: no panic (overflow checks on), thread CPU time <= 10 s, peak live heap and largest single request <= 256 MiB; a hang or runaway allocation is caught by the watchdog / allocator cap and isolated by the supervisor. Non-trivial = the workbook still opened or failed with a format-level error (the fault reached a parser, not just the container signature check); distinct by serialized case.",
};

#[derive(Debug, Clone, Copy, Serialize, Deserialize, PartialEq)]
pub struct Fault {
    /// which part / stream (mapped onto the candidates of the fault's class)
    pub target: u16,
    /// fault kind (meaning depends on the part type)
    pub kind: u8,
    pub a: u32,
    pub b: u32,
}

#[derive(Debug, Clone, Serialize, Deserialize)]
pub struct Case {
    /// 0 xlsx (cells/merges/tables), 1 xlsx shared formulas + styles, 2 xlsb, 3 xls, 4 xls with split SST, 5 ods,
    /// 6 xlsm with VBA project, 7 xls with VBA project, 8 bare compound file
    pub base: u8,
    pub seed: u64,
    pub faults: Vec<Fault>,
    /// final bytes (hex), present in saved replay files so that they do not depend on the generators
    #[serde(default)]
    pub bytes_hex: Option<String>,
}

// ---------------------------------------------------------------------------------------------
// containers

enum Wrap {
    Zip(ZipKnobs),
    OdsZip,
    Cfb(CfbLayout),
}

struct Container {
    parts: Vec<(String, Vec<u8>)>,
    wrap: Wrap,
}

pub fn vba_desc(seed: u64) -> ovba::VbaProjectDesc {
    use crate::props::c18;
    let tok = |m: u8| ovba::Tokenisation { mode: m, seed: seed | 1, raw_mask: 0 };
    let src = |k: u8, len: u32| c18::source(&c18::SourceSpec { kind: k, len, seed: seed as u32 });
    ovba::VbaProjectDesc {
        codepage: 1252,
        compat_version: seed % 2 == 0,
        refs: vec![ovba::VbaRef { name: "stdole".into(), kind: ovba::RefKind::Registered { libid: "*\\G{00020430-0000-0000-C000-000000000046}#2.0#0#C:\\Windows\\System32\\stdole2.tlb#OLE Automation".into() } }],
        modules: vec![
            ovba::VbaModule { name: "Module1".into(), stream_name: "Module1".into(), source: src(1, 300 + (seed % 5000) as u32), text_offset: (seed % 40) as u32, class: false, read_only: false, private: false, tok: tok(1) },
            ovba::VbaModule { name: "ThisWorkbook".into(), stream_name: "ThisWorkbook".into(), source: src(2, 100), text_offset: 0, class: true, read_only: false, private: true, tok: tok(2) },
        ],
        dir_tok: tok(1),
    }
}

pub const NBASES: u8 = 14;

fn build(base: u8, seed: u64) -> Container {
    match base % NBASES {
        9 => {
            // token formulas of every kind (xls): references, areas, 3-D, names, functions, literals
            let mut c = sample_one(&crate::props::c14::strategy(), seed);
            c.wide = false;
            for (p, _) in &mut c.formulas {
                *p = (p.0 % 65_536, p.1 % 256);
            }
            for p in &mut c.consts {
                *p = (p.0 % 65_536, p.1 % 256);
            }
            let doc = crate::props::c14::xls_doc(&c);
            Container { parts: vec![("Workbook".into(), b8::workbook_stream(&doc))], wrap: Wrap::Cfb(doc.cfb.clone()) }
        }
        10 => {
            let c = sample_one(&crate::props::c14::strategy(), seed);
            let (parts, knobs) = bb::parts(&crate::props::c14::xlsb_doc(&c));
            Container { parts, wrap: Wrap::Zip(knobs) }
        }
        11 => {
            // shared-formula groups over an open-ended formula language (xlsx)
            let c = sample_one(&crate::props::c15::case_strategy(), seed);
            let (parts, knobs) = xx::parts(&crate::props::c15::build(&c).0);
            Container { parts, wrap: Wrap::Zip(knobs) }
        }
        12 => {
            let c = sample_one(&crate::props::c14::strategy(), seed);
            let (parts, knobs) = xx::parts(&crate::props::c14::xlsx_doc(&c));
            Container { parts, wrap: Wrap::Zip(knobs) }
        }
        13 => {
            // plain cell grid (xlsx) under a generated physical encoding
            let c = sample_one(&crate::props::c01::doc_strategy(), seed);
            let (parts, knobs) = xx::parts(&c);
            Container { parts, wrap: Wrap::Zip(knobs) }
        }
        0 => {
            let c = sample_one(&crate::props::c17::case_strategy(), seed);
            let (parts, knobs) = xx::parts(&c.doc);
            Container { parts, wrap: Wrap::Zip(knobs) }
        }
        1 => {
            // shared formulas + styles + defined names on a small sheet near the origin
            let mut doc = xx::XlsxDoc { sheets: vec![xx::XSheet { name: "Sheet1".into(), dimension: xx::XDim::Exact, ..Default::default() }], enc: sample_one(&crate::props::c01::enc_strategy(), seed), ..Default::default() };
            let num = |v: &str| xx::XVal::Num { lex: v.into(), typed: false };
            let r0 = (seed % 3) as u32;
            doc.sheets[0].rows = vec![
                xx::XRow {
                    r: r0,
                    explicit: true,
                    attrs: false,
                    cells: vec![
                        xx::XCell { col: 0, explicit: true, style: Some(0), value: num("1"), formula: Some(xx::XFormula::SharedMaster { si: (seed % 2) as u32, range: ((r0, 0), (r0 + 1, 2)), text: "B2+$C$3".into() }) },
                        xx::XCell { col: 1, explicit: true, style: Some(1), value: num("44197"), formula: Some(xx::XFormula::SharedChild { si: (seed % 2) as u32 }) },
                        xx::XCell { col: 2, explicit: seed % 5 != 0, style: Some(3), value: num("0.5"), formula: Some(xx::XFormula::SharedChild { si: (seed % 2) as u32 }) },
                    ],
                },
                xx::XRow {
                    r: r0 + 1,
                    explicit: seed % 7 != 0,
                    attrs: true,
                    cells: vec![
                        xx::XCell { col: 0, explicit: true, style: None, value: xx::XVal::Shared(xx::XText::plain("shared")), formula: None },
                        xx::XCell { col: 1, explicit: true, style: Some(2), value: xx::XVal::Inline(xx::XText { runs: vec!["a".into(), "b".into()], rich: true, phonetic: Some("p".into()), preserve: true, esc: 0 }), formula: None },
                        xx::XCell { col: 2, explicit: true, style: None, value: xx::XVal::Bool(true), formula: Some(xx::XFormula::SharedChild { si: (seed % 2) as u32 }) },
                        xx::XCell { col: 3, explicit: true, style: None, value: xx::XVal::Err(1), formula: None },
                        xx::XCell { col: 4, explicit: true, style: None, value: xx::XVal::Iso("2021-01-01".into()), formula: None },
                    ],
                },
            ];
            doc.sheets[0].merges = vec![((0, 0), (1, 1))];
            doc.styles = Some(xx::XStyles { num_fmts: vec![(164, "yyyy-mm-dd".into(), 1), (165, "[h]:mm".into(), 2)], cell_xfs: vec![Some(164), Some(14), Some(0), Some(165)], cell_style_xfs: 1, dxf_decoy: true });
            doc.defined_names = vec![("Total".into(), "Sheet1!$A$1".into())];
            doc.date1904 = Some(seed % 2 == 0);
            let (parts, knobs) = xx::parts(&doc);
            Container { parts, wrap: Wrap::Zip(knobs) }
        }
        2 => {
            let mut c = sample_one(&crate::props::c03::case_strategy(), seed);
            c.doc.names = vec![("Total".into(), vec![0x3A, 0, 0, 0, 0, 0, 0, 0, 0])];
            c.doc.xtis = vec![(0, 0)];
            let (parts, knobs) = bb::parts(&c.doc);
            Container { parts, wrap: Wrap::Zip(knobs) }
        }
        3 => {
            let c = sample_one(&crate::props::c02::case_strategy(), seed);
            let mut doc = crate::props::c02::build(&c, 0);
            doc.names = vec![b8::BName { name: "Total".into(), wide: false, rgce: vec![0x3A, 0, 0, 0, 0, 0, 0] }];
            doc.xtis = vec![(0, 0)];
            doc.formats = vec![(164, "yyyy-mm-dd".into(), 1, false)];
            for s in &mut doc.sheets {
                s.merges = vec![vec![((0, 0), (1, 1))]];
                // one MULRK run starting in column A below the generated cells
                let next_row = s.cells.iter().map(|c| c.row).max().map_or(0, |r| r.saturating_add(1).min(65_535));
                if s.cells.iter().all(|c| c.row != next_row) {
                    s.cells.push(b8::BCell { row: next_row, col: 0, ixfe: 0, rec: b8::BRec::MulRk(vec![(0, (7 << 2) | 2), (0, (9 << 2) | 2), (0, (150 << 2) | 3)]) });
                }
            }
            Container { parts: vec![("Workbook".into(), b8::workbook_stream(&doc))], wrap: Wrap::Cfb(doc.cfb.clone()) }
        }
        4 => {
            let strings = sample_one(&proptest::collection::vec(proptest::collection::vec(any::<u16>().prop_map(|u| if (0xD800..0xE000).contains(&u) { 0x41 } else { u }), 0..60), 1..12), seed);
            let sst: Vec<b8::SstString> = strings.into_iter().enumerate().map(|(i, units)| b8::SstString { runs: (i % 3) as u16, ext: (i % 4) as u16 * 3, cut_before: i % 4 == 1, cut_after_chars: i % 5 == 2, units, ..Default::default() }).collect();
            let cells = (0..sst.len()).map(|i| b8::BCell { row: i as u16, col: 0, ixfe: 0, rec: b8::BRec::LabelSst(i as u32) }).collect();
            let doc = b8::XlsDoc { sheets: vec![b8::BSheet { name: "S".into(), cells, dimensions: 1, ..Default::default() }], sst, xfs: vec![0], codepage: Some(1200), ..Default::default() };
            Container { parts: vec![("Workbook".into(), b8::workbook_stream(&doc))], wrap: Wrap::Cfb(CfbLayout { v4: seed % 2 == 0, perm_seed: seed, ..Default::default() }) }
        }
        5 => {
            let c = sample_one(&crate::props::c04::case_strategy(), seed);
            let mut doc = c.doc;
            doc.names = vec![("Total".into(), "$Sheet1.$A$1".into(), true)];
            Container { parts: od::parts(&doc), wrap: Wrap::OdsZip }
        }
        6 => {
            let (streams, _) = ovba::project_streams(&vba_desc(seed), &[]);
            let vba = write_cfb(&streams, &CfbLayout { perm_seed: seed, ..Default::default() }).0;
            let doc = xx::XlsxDoc { sheets: vec![xx::XSheet { name: "S".into(), ..Default::default() }], vba: Some(vba), ..Default::default() };
            let (parts, knobs) = xx::parts(&doc);
            Container { parts, wrap: Wrap::Zip(knobs) }
        }
        7 => {
            let (streams, _) = ovba::project_streams(&vba_desc(seed), &["_VBA_PROJECT_CUR".to_string()]);
            let doc = b8::XlsDoc { sheets: vec![b8::BSheet { name: "S".into(), cells: vec![b8::BCell { row: 0, col: 0, ixfe: 0, rec: b8::BRec::Number(1.0) }], ..Default::default() }], xfs: vec![0], ..Default::default() };
            let mut parts = vec![("Workbook".to_string(), b8::workbook_stream(&doc))];
            parts.extend(streams.into_iter().map(|s| (s.name, s.data)));
            // a marker stream so that the storage name exists as a directory entry
            parts.push(("_VBA_PROJECT_CUR".into(), vec![]));
            Container { parts, wrap: Wrap::Cfb(CfbLayout { v4: seed % 3 == 0, perm_seed: seed % 7, ..Default::default() }) }
        }
        _ => {
            let c = sample_one(&crate::props::c13::layout_strategy(), seed);
            let parts = vec![("Workbook".to_string(), crate::props::c13::pseudo_bytes((seed % 9000) as u32, 1)), ("x".to_string(), crate::props::c13::pseudo_bytes((seed % 300) as u32, 2)), ("EncryptedPackage2".to_string(), vec![1; 70])];
            Container { parts, wrap: Wrap::Cfb(c) }
        }
    }
}

// ---------------------------------------------------------------------------------------------
// mutators

fn pick<T>(v: &[T], k: u32) -> Option<&T> {
    if v.is_empty() {
        None
    } else {
        Some(&v[k as usize % v.len()])
    }
}

fn at(len: usize, k: u32) -> usize {
    // monotone map of a 32-bit key onto 0..=len
    ((k as u64 * (len as u64 + 1)) >> 32) as usize
}

const NUMS: &[&str] = &["0", "1", "-1", "4294967295", "4294967296", "2147483648", "99999999999999999999", "65536", "16385", "1048577", "1e9", "", "x"];
const REFS: &[&str] = &["", "A0", "0", "1A", "XFE1", "A1048577", "B5:A1", "A1:A4000000000", "A1:XFD1048576", "$A$1", "a1", "A1:B2:C3", "A", "AAAAAAAAAA1", "A99999999999", "ZZZZZ1:A1", "A1:", ":A1", "A4294967296", "A1:A1048576", "C1:A5", "B1:A3", "A5:C1", "XFD1:A2"];

/// occurrences of `name="value"` attribute values matching a predicate: (start, end) of the value
fn attr_values(s: &str, pred: &dyn Fn(&str, &str) -> bool) -> Vec<(usize, usize)> {
    let b = s.as_bytes();
    let mut out = vec![];
    let mut i = 0;
    while let Some(p) = s[i..].find("=\"") {
        let vs = i + p + 2;
        let Some(e) = s[vs..].find('"') else { break };
        let ve = vs + e;
        // attribute name: back from '='
        let mut ns = i + p;
        while ns > 0 && (b[ns - 1].is_ascii_alphanumeric() || b[ns - 1] == b':' || b[ns - 1] == b'-' || b[ns - 1] == b'_') {
            ns -= 1;
        }
        if pred(&s[ns..i + p], &s[vs..ve]) {
            out.push((vs, ve));
        }
        i = ve + 1;
    }
    out
}

fn mutate_xml(data: &mut Vec<u8>, f: &Fault) {
    let Ok(s) = std::str::from_utf8(data) else {
        mutate_bytes(data, f);
        return;
    };
    let s = s.to_string();
    let replace = |s: &str, (a, b): (usize, usize), with: &str| format!("{}{}{}", &s[..a], with, &s[b..]);
    let out = match f.kind % 12 {
        0 => s[..floor_char(&s, at(s.len(), f.a))].to_string(),
        1 | 2 => {
            let c = attr_values(&s, &|_, v| !v.is_empty() && v.bytes().all(|c| c.is_ascii_digit()));
            match pick(&c, f.a) {
                Some(r) => {
                    let cur: i128 = s[r.0..r.1].parse().unwrap_or(0);
                    let with = match f.b % 15 {
                        13 => (cur + 1).to_string(),
                        14 => (cur - 1).to_string(),
                        k => NUMS[k as usize % NUMS.len()].to_string(),
                    };
                    replace(&s, *r, &with)
                }
                None => s,
            }
        }
        3 | 4 => {
            let c = attr_values(&s, &|n, _| matches!(n, "r" | "ref" | "sqref" | "table:cell-range-address" | "activeCell"));
            match pick(&c, f.a) {
                Some(r) => replace(&s, *r, REFS[f.b as usize % REFS.len()]),
                None => s,
            }
        }
        5 => {
            let c = attr_values(&s, &|n, _| matches!(n, "t" | "office:value-type" | "state" | "Type"));
            match pick(&c, f.a) {
                Some(r) => replace(&s, *r, ["s", "b", "e", "d", "str", "n", "inlineStr", "zz", "shared", "string", "float", "veryHidden"][f.b as usize % 12]),
                None => s,
            }
        }
        6 => {
            // delete an end tag
            let ends: Vec<(usize, usize)> = s.match_indices("</").filter_map(|(i, _)| s[i..].find('>').map(|e| (i, i + e + 1))).collect();
            match pick(&ends, f.a) {
                Some(r) => replace(&s, *r, ""),
                None => s,
            }
        }
        7 => {
            // replace the text of a <v>/<t>/<f> element
            let mut c = vec![];
            for tag in ["<v>", "<t>", "<f>", "<x:v>"] {
                for (i, _) in s.match_indices(tag) {
                    if let Some(e) = s[i + tag.len()..].find('<') {
                        c.push((i + tag.len(), i + tag.len() + e));
                    }
                }
            }
            match pick(&c, f.a) {
                Some(r) => replace(&s, *r, ["", "abc", "-1", "999999999", "1e999", "#BAD!", "4294967296", "&#0;", "&bogus;", "1", "0"][f.b as usize % 11]),
                None => s,
            }
        }
        8 => {
            // rename an element (start tags only): structure the reader relies on disappears
            let names = ["sheetData", "sheets", "sst", "cellXfs", "numFmts", "row", "table:table-row", "table:table-cell", "text:p", "mergeCells", "tableColumns", "Relationships", "office:annotation", "table:table", "si", "is", "definedName", "table:named-expressions"];
            let n = names[f.a as usize % names.len()];
            s.replacen(&format!("<{n}"), &format!("<{n}X"), 1 + (f.b % 2) as usize)
        }
        9 => {
            let c = attr_values(&s, &|n, _| matches!(n, "Target" | "r:id" | "Id" | "numFmtId" | "s" | "si" | "name" | "table:name" | "formatCode" | "table:formula"));
            match pick(&c, f.a) {
                Some(r) => replace(&s, *r, ["", "../../x", "worksheets/missing.xml", "/", "xl/", "rId999", "4294967295", "&#0;", "[[[[[[[[[[[[[[[[[[[[[[[[[[[[[[[[[[[[[[[[[[[[[[[[[[[[[[[[[[[[[[[[[[[[[[[[[[[[[[[[[[[[[[[[[[[[[[[[[[[[[[[[[[[[[[[[[[[[[[[[[[[[[[[[[[[[[[[[[[[[[[[[[[[[[[[[[[[[[[[[[[[[[[[[[[[[[[[[[[[[[[[[[[[[[[[[[[[[[[[[[[[[[[[[[[[[[[[[[[[[[[[[[[[[[[[[[[[[[[[[[[[[[[[[[[[[[[[[[[[[[[[[[[[[[[[[[h]", "'"][f.b as usize % 10]),
                None => s,
            }
        }
        10 => {
            // cut the document inside an element
            let starts: Vec<usize> = s.match_indices('<').map(|(i, _)| i).collect();
            match pick(&starts, f.a) {
                Some(i) => s[..*i + (f.b as usize % 3).min(s.len() - *i)].to_string(),
                None => s,
            }
        }
        _ => {
            // duplicate a chunk of the document
            let i = floor_char(&s, at(s.len(), f.a));
            let j = floor_char(&s, (i + 1 + f.b as usize % 200).min(s.len()));
            format!("{}{}{}", &s[..j], &s[i..j], &s[j..])
        }
    };
    *data = out.into_bytes();
}

fn floor_char(s: &str, mut i: usize) -> usize {
    i = i.min(s.len());
    while !s.is_char_boundary(i) {
        i -= 1;
    }
    i
}

/// (start of record, start of payload, end) for BIFF8 streams
fn biff8_records(d: &[u8]) -> Vec<(usize, usize, usize)> {
    let mut out = vec![];
    let mut i = 0;
    while i + 4 <= d.len() {
        let len = u16::from_le_bytes([d[i + 2], d[i + 3]]) as usize;
        if i + 4 + len > d.len() {
            break;
        }
        out.push((i, i + 4, i + 4 + len));
        i += 4 + len;
    }
    out
}

fn biff12_records(d: &[u8]) -> Vec<(usize, usize, usize)> {
    let mut out = vec![];
    let mut i = 0;
    while i < d.len() {
        let start = i;
        if d[i] & 0x80 != 0 {
            i += 1;
        }
        i += 1;
        let mut len = 0usize;
        let mut k = 0;
        loop {
            let Some(b) = d.get(i) else { return out };
            i += 1;
            len |= ((b & 0x7F) as usize) << (7 * k);
            k += 1;
            if b & 0x80 == 0 || k == 4 {
                break;
            }
        }
        if i + len > d.len() {
            break;
        }
        out.push((start, i, i + len));
        i += len;
    }
    out
}

const WORDS: &[u32] = &[0, 1, 0xFF, 0xFFFF, 0xFFFF_FFFF, 0x7FFF_FFFF, 0x8000_0000, 0xFFFE, 0x100, 0x0001_0000];

fn mutate_records(data: &mut Vec<u8>, f: &Fault, biff12: bool) {
    let recs = if biff12 { biff12_records(data) } else { biff8_records(data) };
    if f.kind % 10 >= 8 {
        token_surgery(data, &recs, f, biff12);
        return;
    }
    let Some(&(rs, ps, pe)) = pick(&recs, f.a) else {
        mutate_bytes(data, f);
        return;
    };
    match f.kind % 10 {
        0 => data.truncate(at(data.len(), f.a)),
        1 => {
            // declared length changed, payload untouched
            if biff12 {
                if ps > rs {
                    data[ps - 1] = [0, 1, 0x7F, 0xFF, data[ps - 1].wrapping_add(1), data[ps - 1].wrapping_sub(1)][f.b as usize % 6];
                }
            } else {
                let len = (pe - ps) as u16;
                let v = [0, len.wrapping_sub(1), len.wrapping_add(1), 0xFFFF, 0x2020, len / 2][f.b as usize % 6];
                data[rs + 2..rs + 4].copy_from_slice(&v.to_le_bytes());
            }
        }
        2 => {
            // payload shortened to k bytes, length fixed up
            let keep = (f.b as usize) % (pe - ps + 1);
            let mut out = data[..rs].to_vec();
            if biff12 {
                let id_len = ps - rs - varint_len(pe - ps);
                out.extend_from_slice(&data[rs..rs + id_len]);
                out.extend(varint(keep));
            } else {
                out.extend_from_slice(&data[rs..rs + 2]);
                out.extend_from_slice(&(keep as u16).to_le_bytes());
            }
            out.extend_from_slice(&data[ps..ps + keep]);
            out.extend_from_slice(&data[pe..]);
            *data = out;
        }
        3 | 4 => {
            // a field overwritten with a boundary value
            if pe > ps {
                let off = ps + (f.b as usize >> 8) % (pe - ps);
                let w = WORDS[f.b as usize % WORDS.len()];
                let width = if f.kind % 10 == 3 { 2 } else { 4 };
                for (k, byte) in w.to_le_bytes().iter().take(width).enumerate() {
                    if off + k < pe {
                        data[off + k] = *byte;
                    }
                }
            }
        }
        5 => {
            // record id swapped with another record's id
            if let Some(&(os, ops, _)) = pick(&recs, f.b) {
                let id: Vec<u8> = if biff12 { data[os..os + if data[os] & 0x80 != 0 { 2 } else { 1 }].to_vec() } else { data[os..os + 2].to_vec() };
                let _ = ops;
                if biff12 {
                    let cur = if data[rs] & 0x80 != 0 { 2 } else { 1 };
                    let mut out = data[..rs].to_vec();
                    out.extend(id);
                    out.extend_from_slice(&data[rs + cur..]);
                    *data = out;
                } else {
                    data[rs..rs + 2].copy_from_slice(&id);
                }
            }
        }
        6 => {
            data.drain(rs..pe);
        }
        _ => {
            let copy = data[rs..pe].to_vec();
            let at = pe;
            data.splice(at..at, copy);
        }
    }
}

/// formula records: the token stream is cut short, its declared size changed, or a token id is
/// replaced by another one, so that every token kind meets every number of operand bytes
fn token_surgery(data: &mut Vec<u8>, recs: &[(usize, usize, usize)], f: &Fault, biff12: bool) {
    // (record start, payload start, payload end, offset of cce, width of cce, offset of rgce)
    let mut formulas = vec![];
    for &(rs, ps, pe) in recs {
        let id = if biff12 {
            if data[rs] & 0x80 != 0 { ((data[rs] & 0x7F) as u16) | ((data[rs + 1] as u16) << 7) } else { data[rs] as u16 }
        } else {
            u16::from_le_bytes([data[rs], data[rs + 1]])
        };
        let layout = match (biff12, id) {
            (false, 0x0006) => Some((20, 2, 22)),
            (true, 0x0009) => Some((18, 4, 22)),
            (true, 0x000A) | (true, 0x000B) => Some((11, 4, 15)),
            _ => None,
        };
        if let Some((cce, w, rg)) = layout {
            if pe - ps > rg {
                formulas.push((rs, ps, pe, cce, w, rg));
            }
        }
    }
    let Some(&(rs, ps, pe, cce, w, rg)) = pick(&formulas, f.a) else {
        mutate_bytes(data, f);
        return;
    };
    let token = ((f.b >> 8) % 0x7F + 1) as u8;
    let keep = 1 + ((f.b >> 16) as usize % 12);
    let mode = f.b % 4;
    if mode == 0 || mode == 2 {
        data[ps + rg] = token;
    }
    if mode == 3 {
        let off = ps + rg + (f.b >> 20) as usize % (pe - ps - rg);
        data[off] = token;
    }
    if mode == 1 || mode == 2 {
        // the expression ends after `keep` bytes: declared size and record shortened together
        let keep = keep.min(pe - ps - rg);
        data[ps + cce..ps + cce + w].copy_from_slice(&(keep as u32).to_le_bytes()[..w]);
        let new_len = rg + keep;
        let mut out = data[..rs].to_vec();
        if biff12 {
            let id_len = ps - rs - varint_len(pe - ps);
            out.extend_from_slice(&data[rs..rs + id_len]);
            out.extend(varint(new_len));
        } else {
            out.extend_from_slice(&data[rs..rs + 2]);
            out.extend_from_slice(&(new_len as u16).to_le_bytes());
        }
        out.extend_from_slice(&data[ps..ps + new_len]);
        out.extend_from_slice(&data[pe..]);
        *data = out;
    }
}

fn varint(mut n: usize) -> Vec<u8> {
    let mut v = vec![];
    loop {
        let b = (n & 0x7F) as u8;
        n >>= 7;
        if n == 0 {
            v.push(b);
            return v;
        }
        v.push(b | 0x80);
    }
}
fn varint_len(n: usize) -> usize {
    varint(n).len()
}

fn mutate_bytes(data: &mut Vec<u8>, f: &Fault) {
    if data.is_empty() {
        return;
    }
    match f.kind % 4 {
        0 => data.truncate(at(data.len(), f.a)),
        1 => {
            let i = at(data.len() - 1, f.a);
            data[i] = (f.b & 0xFF) as u8;
        }
        2 => {
            let i = at(data.len() - 1, f.a);
            for (k, b) in WORDS[f.b as usize % WORDS.len()].to_le_bytes().iter().enumerate() {
                if i + k < data.len() {
                    data[i + k] = *b;
                }
            }
        }
        _ => {
            let i = at(data.len() - 1, f.a);
            data.remove(i);
        }
    }
}

/// compressed VBA container: chunk headers and tokens
fn mutate_ovba(data: &mut Vec<u8>, f: &Fault) {
    if data.len() < 4 {
        mutate_bytes(data, f);
        return;
    }
    match f.kind % 5 {
        0 => data[0] = (f.b & 0xFF) as u8, // signature byte
        1 => {
            // first chunk header
            let h = [0x0000u16, 0x3FFF, 0xB000, 0xBFFF, 0x7000, 0x8FFF, 0x3000, 0xB001][f.b as usize % 8];
            data[1..3].copy_from_slice(&h.to_le_bytes());
        }
        2 => data.truncate(at(data.len(), f.a)),
        3 => {
            // a flag byte / token overwritten
            let i = 3 + at(data.len() - 4, f.a);
            data[i] = 0xFF;
            if i + 2 < data.len() {
                data[i + 1] = (f.b & 0xFF) as u8;
                data[i + 2] = (f.b >> 8 & 0xFF) as u8;
            }
        }
        _ => mutate_bytes(data, f),
    }
}

/// compound-file structure: header fields, FAT entries, directory entries
fn mutate_cfb(data: &mut Vec<u8>, f: &Fault) {
    if data.len() < 512 {
        mutate_bytes(data, f);
        return;
    }
    let w = WORDS[f.b as usize % WORDS.len()];
    let rd = |d: &[u8], o: usize| u32::from_le_bytes(d[o..o + 4].try_into().unwrap());
    let ss = if data[30] == 12 { 4096 } else { 512 };
    // a chain fault may come with the declared count that a reader could use to bound the chain
    // (directory sectors 40, FAT sectors 44, mini-FAT sectors 64, DIFAT sectors 72)
    let inflate = |data: &mut Vec<u8>, off: usize| {
        if f.b & 0x100 != 0 {
            let v = [0xFFFF_FFFFu32, 0x7FFF_FFFF, 0x00FF_FFFF, 0x0001_0000][(f.b >> 9) as usize % 4];
            data[off..off + 4].copy_from_slice(&v.to_le_bytes());
        }
    };
    match f.kind % 9 {
        8 => {
            // DIFAT chain through sector k: a self cycle, or a 2-cycle with sector j
            let n = (data.len() / ss).saturating_sub(1);
            if n >= 2 {
                let k = f.a as usize % n;
                let j = (f.a >> 8) as usize % n;
                let last = |s: usize| (s + 1) * ss + ss - 4;
                data[68..72].copy_from_slice(&(k as u32).to_le_bytes());
                if f.b % 2 == 0 {
                    data[last(k)..last(k) + 4].copy_from_slice(&(k as u32).to_le_bytes());
                } else {
                    data[last(k)..last(k) + 4].copy_from_slice(&(j as u32).to_le_bytes());
                    data[last(j)..last(j) + 4].copy_from_slice(&(k as u32).to_le_bytes());
                }
                let cnt = [1u32, 2, 0, 0xFFFF_FFFF][(f.b >> 4) as usize % 4];
                data[72..76].copy_from_slice(&cnt.to_le_bytes());
                inflate(data, 44);
            }
        }
        0 => {
            let offs = [26usize, 30, 32, 40, 44, 48, 56, 60, 64, 68, 72, 76, 80];
            let o = offs[f.a as usize % offs.len()];
            let v = match f.b % 12 {
                10 => rd(data, o).wrapping_add(1),
                11 => rd(data, o).wrapping_sub(1),
                _ => w,
            };
            data[o..o + 4].copy_from_slice(&v.to_le_bytes());
        }
        1 | 2 => {
            // a FAT entry: the first FAT sector is DIFAT[0]
            let fat0 = rd(data, 76) as usize;
            let base = (fat0 + 1) * ss;
            if base + ss <= data.len() {
                let j = f.a as usize % (ss / 4);
                let v = match f.b % 6 {
                    0 => j as u32,                       // self cycle
                    1 => (j as u32).saturating_sub(1),    // back edge
                    2 => 0,
                    3 => 0xFFFF_FFFF,
                    4 => 0x00FF_FFFF,                    // dangling
                    _ => (j as u32) + 1,
                };
                data[base + 4 * j..base + 4 * j + 4].copy_from_slice(&v.to_le_bytes());
                if f.b % 6 < 2 {
                    inflate(data, [40usize, 44, 44, 64][(f.b >> 12) as usize % 4]);
                }
            }
        }
        3 | 4 => {
            // a directory entry field
            let dir0 = rd(data, 48) as usize;
            let base = (dir0 + 1) * ss;
            if base + ss <= data.len() {
                let e = f.a as usize % (ss / 128);
                let field = [64usize, 66, 116, 120, 124, 0][(f.a >> 8) as usize % 6];
                let o = base + 128 * e + field;
                data[o..o + 4].copy_from_slice(&w.to_le_bytes());
            }
        }
        5 => {
            // mini FAT
            let mf = rd(data, 60) as usize;
            let base = (mf + 1) * ss;
            if mf < 0xFFFF_FFF0 && base + ss <= data.len() {
                let j = f.a as usize % (ss / 4);
                data[base + 4 * j..base + 4 * j + 4].copy_from_slice(&[j as u32, 0, 0xFFFF_FFFF, 0x00FF_FFFF][f.b as usize % 4].to_le_bytes());
            }
        }
        6 => data.truncate(at(data.len(), f.a)),
        _ => mutate_bytes(data, f),
    }
}

fn part_class(name: &str) -> u8 {
    // 0 xml, 1 biff8, 2 biff12, 3 ovba container, 4 nested compound file, 5 other
    let lower = name.to_ascii_lowercase();
    if lower.ends_with(".xml") || lower.ends_with(".rels") {
        0
    } else if name == "Workbook" {
        1
    } else if lower.ends_with("vbaproject.bin") {
        4
    } else if lower.ends_with(".bin") {
        2
    } else if name == "dir" || name == "Module1" || name == "ThisWorkbook" {
        3
    } else {
        5
    }
}

pub fn assemble(case: &Case) -> Vec<u8> {
    if let Some(h) = &case.bytes_hex {
        return (0..h.len() / 2).filter_map(|i| u8::from_str_radix(&h[2 * i..2 * i + 2], 16).ok()).collect();
    }
    let mut c = build(case.base, case.seed);
    let mut late: Vec<Fault> = vec![];
    for f in &case.faults {
        // kinds >= 200 act on the assembled container
        if f.kind >= 200 {
            late.push(*f);
            continue;
        }
        if c.parts.is_empty() {
            continue;
        }
        // part removal / emptying
        if f.kind >= 190 {
            let i = f.target as usize % c.parts.len();
            if f.kind % 2 == 0 {
                c.parts.remove(i);
            } else {
                c.parts[i].1.clear();
            }
            continue;
        }
        // prefer parts the readers parse
        let interesting: Vec<usize> = (0..c.parts.len()).filter(|i| part_class(&c.parts[*i].0) != 5 && c.parts[*i].0 != "[Content_Types].xml" && !c.parts[*i].0.starts_with("docProps")).collect();
        let idx = if interesting.is_empty() { f.target as usize % c.parts.len() } else { interesting[f.target as usize % interesting.len()] };
        let (name, data) = &mut c.parts[idx];
        match part_class(name) {
            0 => mutate_xml(data, f),
            1 => mutate_records(data, f, false),
            2 => mutate_records(data, f, true),
            3 => mutate_ovba(data, f),
            4 => mutate_cfb(data, f),
            _ => mutate_bytes(data, f),
        }
    }
    let mut bytes = match c.wrap {
        Wrap::Zip(k) => zipw::pack(c.parts, &k),
        Wrap::OdsZip => od::pack_parts(c.parts),
        Wrap::Cfb(l) => write_cfb(&c.parts.into_iter().map(|(n, d)| CfbStream::root(&n, d)).collect::<Vec<_>>(), &l).0,
    };
    let is_cfb = bytes.starts_with(&[0xD0, 0xCF, 0x11, 0xE0]);
    for f in late {
        if is_cfb && f.kind < 240 {
            mutate_cfb(&mut bytes, &f);
        } else {
            mutate_bytes(&mut bytes, &f);
        }
    }
    bytes
}

// ---------------------------------------------------------------------------------------------
// driving the read API

fn drive_reader<R: Reader<Cursor<Vec<u8>>>>(wb: &mut R) {
    let names = wb.sheet_names();
    let _ = wb.sheets_metadata().len();
    let _ = wb.defined_names().len();
    for n in names.iter().take(6) {
        let _ = wb.worksheet_range(n);
        let _ = wb.worksheet_formula(n);
    }
    let _ = wb.worksheet_range_at(0);
    let _ = wb.worksheets();
    if let Some(Ok(v)) = wb.vba_project() {
        for m in v.get_module_names() {
            let _ = v.get_module(m);
            let _ = v.get_module_raw(m);
        }
        let _ = v.get_references().len();
    }
    let _ = wb.worksheet_range("\u{1}unknown");
}

/// the whole call list on every reader; returns what opened
fn exercise(bytes: &[u8]) -> u8 {
    let mut opened = 0u8;
    if let Ok(mut wb) = Xlsx::new(Cursor::new(bytes.to_vec())) {
        opened |= 1;
        drive_reader(&mut wb);
        let names = wb.sheet_names();
        for n in names.iter().take(6) {
            let _ = wb.worksheet_range_ref(n).map(|r| r.get_size());
            let _ = wb.worksheet_merge_cells(n);
        }
        let _ = wb.worksheet_merge_cells_at(0);
        if wb.load_merged_regions().is_ok() {
            let _ = wb.merged_regions().len();
        }
        if wb.load_tables().is_ok() {
            let t: Vec<String> = wb.table_names().into_iter().cloned().collect();
            for n in t.iter().take(6) {
                let _ = wb.table_by_name(n).map(|t| t.data().get_size());
                let _ = wb.table_by_name_ref(n).map(|t| t.data().get_size());
            }
        }
    }
    if let Ok(mut wb) = Xlsb::new(Cursor::new(bytes.to_vec())) {
        opened |= 2;
        drive_reader(&mut wb);
        for n in wb.sheet_names().iter().take(6) {
            let _ = wb.worksheet_range_ref(n).map(|r| r.get_size());
        }
    }
    if let Ok(mut wb) = Xls::new(Cursor::new(bytes.to_vec())) {
        opened |= 4;
        drive_reader(&mut wb);
        for n in wb.sheet_names().iter().take(6) {
            let _ = wb.worksheet_merge_cells(n);
        }
    }
    if let Ok(mut wb) = Ods::new(Cursor::new(bytes.to_vec())) {
        opened |= 8;
        drive_reader(&mut wb);
    }
    if let Ok(mut wb) = open_workbook_auto_from_rs(Cursor::new(bytes.to_vec())) {
        opened |= 16;
        let names = wb.sheet_names();
        for n in names.iter().take(2) {
            let _ = wb.worksheet_range(n);
            if matches!(wb, Sheets::Xlsx(_) | Sheets::Xlsb(_)) {
                let _ = wb.worksheet_range_ref(n).map(|r| r.get_size());
            }
        }
    }
    // a bare VBA project file
    if bytes.starts_with(&[0xD0, 0xCF]) {
        if let Ok(v) = calamine::vba::VbaProject::new(&mut Cursor::new(bytes), bytes.len()) {
            opened |= 32;
            for m in v.get_module_names() {
                let _ = v.get_module(m);
            }
        }
    }
    opened
}

fn thread_cpu_ms() -> u64 {
    let mut ts = libc::timespec { tv_sec: 0, tv_nsec: 0 };
    unsafe {
        libc::clock_gettime(libc::CLOCK_THREAD_CPUTIME_ID, &mut ts);
    }
    ts.tv_sec as u64 * 1000 + ts.tv_nsec as u64 / 1_000_000
}

pub const MEM_LIMIT: usize = 256 << 20;
pub const CPU_LIMIT_MS: u64 = 10_000;

fn tolerated(func: &str, class: &str, findings: &Findings) -> Option<String> {
    findings
        .findings
        .iter()
        // sig_func may list several call sites of one finding ("a|b"): the same allocation shows under
        // the caller's name where the compiler inlined the generic function
        .find(|f| f.property == "C06" && f.status == "known" && f.sig_func.as_deref().map_or(false, |s| s.split('|').any(|x| x == func)) && f.sig_class.as_ref().map_or(true, |c| class.contains(c.as_str())))
        .map(|f| f.id.clone())
}

thread_local! {
    static WORKER: std::cell::RefCell<Option<crate::isolate::Worker>> = const { std::cell::RefCell::new(None) };
}

/// what a worker process does with one input: the whole read API under the allocator cap
fn child_exercise(bytes: &[u8]) -> Vec<u8> {
    crate::alloc::set_cap(MEM_LIMIT);
    let t0 = thread_cpu_ms();
    let (res, mem) = measure(|| crate::engine::guard(|| exercise(bytes)));
    let cpu = thread_cpu_ms() - t0;
    match res {
        Ok(opened) => crate::isolate::encode_stats(opened, None, mem, cpu, &crate::alloc::big_request_func()),
        Err(p) => crate::isolate::encode_stats(0, Some(&p), mem, cpu, &crate::alloc::big_request_func()),
    }
}

fn oracle_with(case: &Case, strict: bool) -> Report {
    use crate::isolate::Outcome;
    let mut rep = Report::new();
    let bytes = assemble(case);
    rep.label(
        ["base:xlsx", "base:xlsx-shared-formulas", "base:xlsb", "base:xls", "base:xls-sst", "base:ods", "base:xlsm-vba", "base:xls-vba", "base:cfb", "base:xls-formulas", "base:xlsb-formulas", "base:xlsx-shared-groups", "base:xlsx-formulas", "base:xlsx-grid"]
            [case.base as usize % NBASES as usize],
    );
    rep.label(format!("faults:{}", case.faults.len()));
    if bytes.len() > (1 << 20) {
        rep.label("skipped:>1MiB");
        return rep;
    }
    let survey = std::env::var_os("CVERIF_SURVEY").is_some();
    if let Some(p) = std::env::var_os("CVERIF_DUMP") {
        let _ = std::fs::write(p, &bytes);
    }
    let case_timeout = std::env::var("CVERIF_CASE_TIMEOUT_S").ok().and_then(|s| s.parse().ok()).unwrap_or(6u64);
    let findings = Findings::load_cached();
    // one persistent worker process per thread; a worker that died or was killed is replaced
    let run_child = || {
        WORKER.with(|w| {
            let mut w = w.borrow_mut();
            if !w.as_ref().map_or(false, |x| x.alive()) {
                *w = crate::isolate::Worker::spawn(child_exercise);
            }
            match w.as_mut() {
                Some(x) => x.run(&bytes, std::time::Duration::from_secs(case_timeout)),
                None => Outcome::Failed("cannot fork a worker".into()),
            }
        })
    };
    let mut out = run_child();
    if matches!(out, Outcome::Timeout) {
        // confirm once more in a fresh process before calling it a hang
        out = run_child();
    }
    let mut verdict: Option<(String, String, String)> = None; // (func, class, text)
    match out {
        Outcome::Completed(buf) => {
            let v: serde_json::Value = serde_json::from_slice(&buf).unwrap_or(serde_json::Value::Null);
            if v.is_null() {
                rep.fail("HARNESS-SELF-CHECK: the isolated child returned no result");
                return rep;
            }
            let peak = v["peak"].as_u64().unwrap_or(0) as usize;
            let max_request = v["max_request"].as_u64().unwrap_or(0) as usize;
            let cpu = v["cpu_ms"].as_u64().unwrap_or(0);
            if v["panic"].is_string() {
                // an ordinary panic: re-run in this process to learn the function it comes from
                match guard_sig(|| exercise(&bytes)) {
                    Err(sig) => verdict = Some((sig.func.clone(), sig.class.clone(), format!("panic on a malformed file ({} bytes): {} [in {}]", bytes.len(), sig.message, sig.func))),
                    Ok(_) => verdict = Some(("<unstable>".into(), "panic".into(), format!("panic in the isolated run only: {}", v["panic"]))),
                }
            } else if max_request > MEM_LIMIT || peak > MEM_LIMIT {
                let func = v["big_func"].as_str().unwrap_or("").to_string();
                verdict = Some((func.clone(), "memory".into(), format!("memory out of proportion: a {} byte file makes {} request {} MiB at once (peak live heap {} MiB)", bytes.len(), func, max_request >> 20, peak >> 20)));
            } else if cpu > CPU_LIMIT_MS {
                verdict = Some(("<cpu>".into(), "cpu".into(), format!("a {} byte file keeps a reader busy for {} ms of CPU time", bytes.len(), cpu)));
            } else {
                let opened = v["opened"].as_u64().unwrap_or(0);
                rep.label_if(opened & 63 != 0, "opened-by-some-reader");
                rep.label_if(opened == 0, "rejected-by-all-readers");
                rep.nontrivial = true;
            }
        }
        Outcome::Died { refused: Some((size, live, func)), .. } => {
            verdict = Some((func.clone(), "memory".into(), format!("memory out of proportion: a {} byte file makes {} request {} bytes, taking the live heap to {} MiB (limit {} MiB)", bytes.len(), func, size, live >> 20, MEM_LIMIT >> 20)));
        }
        Outcome::Died { signal, refused: None } => {
            verdict = Some(("<crash>".into(), format!("signal {signal}"), format!("a {} byte file kills the process (signal {signal}: stack overflow or abort)", bytes.len())));
        }
        Outcome::Timeout => {
            verdict = Some(("<hang>".into(), "hang".into(), format!("a {} byte file is not processed within 6 s, twice (hang)", bytes.len())));
        }
        Outcome::Failed(e) => {
            rep.fail(format!("HARNESS-SELF-CHECK: cannot isolate the case ({e})"));
            return rep;
        }
    }
    if let Some((func, class, text)) = verdict {
        if survey {
            rep.label(format!("SIG {func} | {class}"));
            if let Ok(dir) = std::env::var("CVERIF_SAVE_DIR") {
                // one regression input per distinct signature
                let name = format!("{dir}/sig-{:016x}.json", crate::engine::hash_str(&format!("{func}|{class}")));
                if !std::path::Path::new(&name).exists() {
                    let mut c = case.clone();
                    c.bytes_hex = Some(bytes.iter().map(|b| format!("{b:02x}")).collect());
                    c.faults.clear();
                    let j = serde_json::json!({"property": "C06", "sub": "faults", "message": format!("{func} | {class}: {text}"), "case": c});
                    let _ = std::fs::write(&name, serde_json::to_string(&j).unwrap());
                }
            }
            if class == "hang" || func.starts_with('<') {
                rep.label(format!("CASE {}", serde_json::to_string(case).unwrap_or_default()));
            }
        } else {
            match (strict, tolerated(&func, &class, findings)) {
                (false, Some(id)) => {
                    rep.excluded = Some(id);
                    rep.label("tolerated-known-finding");
                }
                _ => rep.fail(format!("{text} [signature: {func} | {class}]")),
            }
        }
    }
    rep
}

fn oracle(case: &Case) -> Report {
    oracle_with(case, false)
}
fn oracle_strict(case: &Case) -> Report {
    oracle_with(case, true)
}

fn case_strategy() -> impl Strategy<Value = Case> {
    let fault = prop_oneof![
        12 => (any::<u16>(), 0u8..190, any::<u32>(), any::<u32>()).prop_map(|(target, kind, a, b)| Fault { target, kind, a, b }),
        1 => (any::<u16>(), 190u8..200, any::<u32>(), any::<u32>()).prop_map(|(target, kind, a, b)| Fault { target, kind, a, b }),
        3 => (any::<u16>(), 200u8..=255, any::<u32>(), any::<u32>()).prop_map(|(target, kind, a, b)| Fault { target, kind, a, b }),
    ];
    (0u8..NBASES, any::<u64>(), proptest::collection::vec(fault, 1..4)).prop_map(|(base, seed, faults)| Case { base, seed, faults, bytes_hex: None })
}

/// well-formed files only: "every byte sequence" includes the valid ones, and a hang or a panic
/// on unusual but legal content (a non-ASCII sheet name in a shared formula, a token formula of a
/// rare kind) is a C06 violation like any other
fn valid_strategy() -> impl Strategy<Value = Case> {
    (0u8..NBASES, any::<u64>()).prop_map(|(base, seed)| Case { base, seed, faults: vec![], bytes_hex: None })
}

/// add the final bytes to freshly written replay files
fn embed_bytes(ctx: &Ctx) {
    for v in &ctx.violations {
        let Ok(text) = std::fs::read_to_string(&v.replay) else { continue };
        let Ok(mut j) = serde_json::from_str::<serde_json::Value>(&text) else { continue };
        let Ok(case) = serde_json::from_value::<Case>(j["case"].clone()) else { continue };
        if case.bytes_hex.is_some() {
            continue;
        }
        let bytes = assemble(&case);
        j["case"]["bytes_hex"] = serde_json::Value::String(bytes.iter().map(|b| format!("{b:02x}")).collect());
        let _ = std::fs::write(&v.replay, serde_json::to_string(&j).unwrap());
    }
}

/// writes the pinned witnesses of the recorded findings (run once with CVERIF_WITNESS=<dir>)
fn write_witnesses(dir: &str) {
    let hex = |b: &[u8]| b.iter().map(|x| format!("{x:02x}")).collect::<String>();
    let cell = |r: u32, c: u32| xx::XRow { r, explicit: true, attrs: false, cells: vec![xx::XCell { col: c, explicit: true, style: None, value: xx::XVal::Num { lex: "1".into(), typed: false }, formula: None }] };
    // two cells at opposite corners of the sheet: the dense Range needs 17e9 cells
    let far = xx::XlsxDoc { sheets: vec![xx::XSheet { name: "S".into(), rows: vec![cell(0, 0), cell(1_048_575, 16_383)], ..Default::default() }], ..Default::default() };
    // a table over the whole sheet: Range::range allocates the same
    let table = xx::XlsxDoc {
        sheets: vec![xx::XSheet { name: "S".into(), rows: vec![cell(0, 0)], tables: vec![xx::XTable { name: "T".into(), range: ((0, 0), (1_048_575, 16_383)), header_rows: Some(0), totals_rows: None, columns: vec!["a".into()] }], ..Default::default() }],
        ..Default::default()
    };
    for (name, doc) in [("kf-dense-range-from-sparse", far), ("kf-dense-range-new", table)] {
        let case = Case { base: 0, seed: 0, faults: vec![], bytes_hex: Some(hex(&xx::encode(&doc))) };
        let j = serde_json::json!({"property": "C06", "sub": "faults-strict", "message": name, "case": case});
        let _ = std::fs::write(format!("{dir}/{name}.json"), serde_json::to_string(&j).unwrap());
    }
}

/// the part-list format of the `zipped` fuzz target: `\n--PART <name>\n<data>` ...
fn parts_format(parts: &[(String, Vec<u8>)]) -> Vec<u8> {
    let mut out = vec![];
    for (name, data) in parts {
        out.extend_from_slice(b"\n--PART ");
        out.extend_from_slice(name.as_bytes());
        out.push(b'\n');
        out.extend_from_slice(data);
    }
    out
}

/// the same split as fuzz_targets/zipped.rs, packed by the harness's own zip writer (stored)
fn parts_to_zip(input: &[u8]) -> Option<Vec<u8>> {
    const D: &[u8] = b"\n--PART ";
    let mut cuts = vec![];
    let mut i = 0;
    while i + D.len() <= input.len() {
        if &input[i..i + D.len()] == D {
            cuts.push(i);
            i += D.len();
        } else {
            i += 1;
        }
    }
    let mut entries = vec![];
    for (k, &c) in cuts.iter().enumerate() {
        let end = cuts.get(k + 1).copied().unwrap_or(input.len());
        let chunk = &input[c + D.len()..end];
        let nl = chunk.iter().position(|&b| b == b'\n').unwrap_or(chunk.len());
        let name = &chunk[..nl];
        let data = if nl < chunk.len() { chunk[nl + 1..].to_vec() } else { vec![] };
        if !name.is_empty() && name.len() < 200 {
            entries.push(zipw::ZipEntry { name: String::from_utf8_lossy(name).into_owned(), data, method: zipw::Method::Stored, data_descriptor: false });
        }
    }
    if entries.is_empty() || entries.len() > 40 {
        return None;
    }
    Some(zipw::write_zip(&entries, b""))
}

/// small valid files of every base kind (seeds for the coverage-guided tier): final bytes for the
/// compound-file based kinds, part lists for the zip based ones
pub fn write_corpus(raw: &std::path::Path, zipped: &std::path::Path, per_base: u64) -> usize {
    let _ = std::fs::create_dir_all(raw);
    let _ = std::fs::create_dir_all(zipped);
    let mut n = 0;
    for base in 0..NBASES {
        for seed in 0..per_base {
            let seed64 = seed.wrapping_mul(0x9E37_79B9_7F4A_7C15);
            let c = build(base, seed64);
            let (dir, bytes) = match c.wrap {
                Wrap::Cfb(_) => (raw, assemble(&Case { base, seed: seed64, faults: vec![], bytes_hex: None })),
                _ => (zipped, parts_format(&c.parts)),
            };
            if bytes.len() <= 65536 && std::fs::write(dir.join(format!("valid-{base}-{seed}")), &bytes).is_ok() {
                n += 1;
            }
        }
    }
    n
}

/// Coverage-guided tier: two libFuzzer targets (/verif/fuzz) run in fork mode from a corpus of
/// valid generated files; every artifact they save is classified by the same isolated oracle as
/// the generated cases, so recorded findings are told from new ones and each new signature
/// becomes one replay file.
fn fuzz_phase(ctx: &mut Ctx) {
    use std::process::{Command, Stdio};
    let default_secs = if ctx.quick() { 0 } else { 600 };
    let secs: u64 = std::env::var("CVERIF_FUZZ_SECS").ok().and_then(|s| s.parse().ok()).unwrap_or(default_secs);
    if secs == 0 {
        return;
    }
    let root = std::path::PathBuf::from(format!("{}/harness/target/scratch/fuzz-{}", crate::engine::VERIF_ROOT, std::process::id()));
    let _ = std::fs::remove_dir_all(&root);
    let (craw, czip, araw, azip) = (root.join("corpus-raw"), root.join("corpus-zip"), root.join("art-raw"), root.join("art-zip"));
    for d in [&araw, &azip] {
        let _ = std::fs::create_dir_all(d);
    }
    let seeds = write_corpus(&craw, &czip, 8);
    let skipped = |ctx: &mut Ctx, why: &str| {
        println!("NOTE: C06 coverage-guided sub-check skipped ({why}); the generated-fault sub-check above still decides");
        ctx.record_sweep("libfuzzer", 0, 0, Default::default(), vec![], false, &format!("skipped: {why}"));
    };
    let built = Command::new("cargo")
        .args(["+nightly", "fuzz", "build", "--fuzz-dir", "/verif/fuzz", "-O", "--debug-assertions"])
        .env("CARGO_NET_OFFLINE", "true")
        .stdout(Stdio::null())
        .stderr(Stdio::null())
        .status();
    if !matches!(built, Ok(s) if s.success()) {
        skipped(ctx, "cargo +nightly fuzz build failed");
        let _ = std::fs::remove_dir_all(&root);
        return;
    }
    let jobs = (ctx.threads / 2).max(1);
    let spawn = |target: &str, corpus: &std::path::Path, art: &std::path::Path| {
        use std::os::unix::process::CommandExt;
        let mut cmd = Command::new(format!("/verif/fuzz/target/x86_64-unknown-linux-gnu/release/{target}"));
        // AddressSanitizer reserves terabytes of address space: lift the harness's own soft limit
        unsafe {
            cmd.pre_exec(|| {
                let mut lim = libc::rlimit { rlim_cur: 0, rlim_max: 0 };
                libc::getrlimit(libc::RLIMIT_AS, &mut lim);
                lim.rlim_cur = lim.rlim_max;
                libc::setrlimit(libc::RLIMIT_AS, &lim);
                Ok(())
            });
        }
        cmd.arg(corpus)
            .args([
                format!("-fork={jobs}"),
                "-ignore_crashes=1".into(),
                "-ignore_ooms=1".into(),
                "-ignore_timeouts=1".into(),
                format!("-max_total_time={secs}"),
                format!("-seed={}", (ctx.seed % 0xFFFF_FFFE) + 1),
                "-max_len=65536".into(),
                "-len_control=0".into(),
                format!("-malloc_limit_mb={}", MEM_LIMIT >> 20),
                "-rss_limit_mb=3072".into(),
                "-timeout=10".into(),
                format!("-artifact_prefix={}/", art.display()),
            ])
            .env("ASAN_OPTIONS", "detect_odr_violation=0:allocator_may_return_null=1")
            .current_dir(&root)
            .stdout(Stdio::null())
            .stderr(Stdio::piped())
            .spawn()
    };
    let children = [("readers", &craw, &araw, false), ("zipped", &czip, &azip, true)].map(|(t, c, a, z)| (t, a.clone(), z, spawn(t, c, a)));
    let mut execs = 0u64;
    let mut labels: std::collections::BTreeMap<String, u64> = Default::default();
    let mut arts: Vec<(String, Vec<u8>)> = vec![];
    for (target, art, zipped, child) in children {
        let Ok(child) = child else {
            skipped(ctx, "cannot start the fuzz target");
            continue;
        };
        let out = child.wait_with_output().map(|o| String::from_utf8_lossy(&o.stderr).into_owned()).unwrap_or_default();
        // fork mode prints "#<execs>: cov: ..." status lines
        let n = out.lines().rev().find_map(|l| l.strip_prefix('#').and_then(|r| r.split(':').next()).and_then(|n| n.trim().parse::<u64>().ok())).unwrap_or(0);
        execs += n;
        *labels.entry(format!("target:{target}:execs")).or_default() += n;
        let cov = out.lines().rev().find_map(|l| l.split("cov: ").nth(1).and_then(|r| r.split(' ').next()).and_then(|n| n.parse::<u64>().ok())).unwrap_or(0);
        *labels.entry(format!("target:{target}:edges-covered")).or_default() += cov;
        let mut files: Vec<_> = std::fs::read_dir(&art).map(|d| d.flatten().map(|e| e.path()).collect()).unwrap_or_default();
        files.sort();
        *labels.entry(format!("target:{target}:artifacts")).or_default() += files.len() as u64;
        for f in files.into_iter().take(3000) {
            let Ok(b) = std::fs::read(&f) else { continue };
            let kind = f.file_name().and_then(|n| n.to_str()).unwrap_or("").split('-').next().unwrap_or("").to_string();
            let bytes = if zipped { parts_to_zip(&b) } else { Some(b) };
            if let Some(bytes) = bytes {
                arts.push((kind, bytes));
            }
        }
    }
    // classify the artifacts (in parallel: each classification forks its own child)
    let seen = std::sync::Mutex::new(std::collections::BTreeMap::<String, (Case, String)>::new());
    let counts = std::sync::Mutex::new(std::collections::BTreeMap::<String, u64>::new());
    let next = std::sync::atomic::AtomicUsize::new(0);
    std::thread::scope(|sc| {
        for _ in 0..ctx.threads {
            sc.spawn(|| loop {
                let i = next.fetch_add(1, std::sync::atomic::Ordering::Relaxed);
                let Some((kind, bytes)) = arts.get(i) else { break };
                let case = Case { base: 0, seed: 0, faults: vec![], bytes_hex: Some(bytes.iter().map(|b| format!("{b:02x}")).collect()) };
                let rep = oracle(&case);
                let class = match (&rep.verdict, &rep.excluded) {
                    (Some(_), _) => "artifact:violation",
                    (None, Some(_)) => "artifact:known-finding",
                    _ => "artifact:not-reproduced-by-the-oracle",
                };
                *counts.lock().unwrap().entry(format!("{class} ({kind})")).or_default() += 1;
                if let Some(msg) = rep.verdict {
                    let sig = msg.rsplit("[signature: ").next().unwrap_or("").to_string();
                    seen.lock().unwrap().entry(sig).or_insert((case, msg));
                }
            });
        }
    });
    for (k, v) in counts.into_inner().unwrap() {
        *labels.entry(k).or_default() += v;
    }
    let distinct = arts.len() as u64;
    for (_, (case, msg)) in seen.into_inner().unwrap() {
        ctx.report_violation("faults", &case, &format!("found by libFuzzer: {msg}"));
    }
    ctx.record_sweep(
        "libfuzzer",
        execs,
        execs.min(distinct.max(2)),
        labels,
        vec![serde_json::json!({"targets": ["readers (raw bytes)", "zipped (part list packed into a stored zip inside the target)"], "seed_files": seeds, "seconds_per_target": secs, "jobs_per_target": jobs})],
        false,
        "coverage-guided: libFuzzer fork mode over the complete read API; artifacts re-classified by the isolated oracle; bounded by wall-clock time (a budget hit is not a verdict)",
    );
    let _ = std::fs::remove_dir_all(&root);
}


// ---------------------------------------------------------------------------------------------
// systematic boundary sweep

#[derive(Clone, Copy)]
enum SweepKind {
    /// binary part: little-endian field of `width` bytes at `off` <- value number `v`
    Field { off: usize, width: u8, v: u8 },
    /// XML part: attribute value (start, end) <- replacement number `v` of the menu `menu`
    Attr { a: usize, b: usize, menu: u8, v: u8 },
    /// XML part cut at `at`
    Cut { at: usize },
    /// XML part: the end tag at (a, b) removed
    DropEnd { a: usize, b: usize },
    /// assembled compound file: field at `off`
    Cfb { off: usize, v: u8 },
    /// assembled zip package: 2- or 4-byte field at `off` of a local header, central-directory entry or
    /// end-of-central-directory record
    Zip { off: usize, width: u8, v: u8 },
    /// binary part: record number `rec` made `delta` bytes longer (zero padding) or shorter, its
    /// declared length adjusted so that the stream stays framed
    Resize { rec: usize, delta: i8, biff12: bool },
}

#[derive(Clone, Copy)]
struct SweepItem {
    doc: usize,
    part: usize,
    kind: SweepKind,
}

const TYPES: [&str; 12] = ["s", "b", "e", "d", "str", "n", "inlineStr", "zz", "shared", "string", "float", "veryHidden"];

fn field_value(cur: u32, width: u8, v: u8) -> u32 {
    let max = if width == 2 { 0xFFFFu32 } else { 0xFFFF_FFFF };
    match v {
        0 => 0,
        1 => 1,
        2 => max,             // -1
        3 => max - 1,         // -2
        4 => max - 3,         // -4
        5 => max >> 1,        // largest positive
        6 => (max >> 1) + 1,  // smallest negative
        7 => cur.wrapping_add(1) & max,
        8 => cur.wrapping_sub(1) & max,
        _ => 0x0001_0000 & max | 0x100,
    }
}

fn wrap_container(parts: Vec<(String, Vec<u8>)>, wrap: &Wrap) -> Vec<u8> {
    match wrap {
        Wrap::Zip(k) => zipw::pack(parts, k),
        Wrap::OdsZip => od::pack_parts(parts),
        Wrap::Cfb(l) => write_cfb(&parts.into_iter().map(|(n, d)| CfbStream::root(&n, d)).collect::<Vec<_>>(), l).0,
    }
}

fn sweep_bytes(docs: &[Container], it: &SweepItem) -> Vec<u8> {
    let c = &docs[it.doc];
    let mut parts = c.parts.clone();
    match it.kind {
        SweepKind::Field { off, width, v } => {
            let d = &mut parts[it.part].1;
            let mut cur = [0u8; 4];
            cur[..width as usize].copy_from_slice(&d[off..off + width as usize]);
            let val = field_value(u32::from_le_bytes(cur), width, v);
            d[off..off + width as usize].copy_from_slice(&val.to_le_bytes()[..width as usize]);
        }
        SweepKind::Attr { a, b, menu, v } => {
            let d = &mut parts[it.part].1;
            let with: &str = match menu {
                0 => NUMS[v as usize % NUMS.len()],
                1 => REFS[v as usize % REFS.len()],
                _ => TYPES[v as usize % TYPES.len()],
            };
            let mut out = d[..a].to_vec();
            out.extend_from_slice(with.as_bytes());
            out.extend_from_slice(&d[b..]);
            *d = out;
        }
        SweepKind::Resize { rec, delta, biff12 } => {
            let d = &mut parts[it.part].1;
            let recs = if biff12 { biff12_records(d) } else { biff8_records(d) };
            if let Some(&(rs, ps, pe)) = recs.get(rec) {
                let old = pe - ps;
                let new = (old as i64 + delta as i64).max(0) as usize;
                let mut out = d[..rs].to_vec();
                if biff12 {
                    let id_len = ps - rs - varint_len(old);
                    out.extend_from_slice(&d[rs..rs + id_len]);
                    out.extend(varint(new));
                } else {
                    out.extend_from_slice(&d[rs..rs + 2]);
                    out.extend_from_slice(&(new as u16).to_le_bytes());
                }
                out.extend_from_slice(&d[ps..ps + new.min(old)]);
                out.resize(out.len() + new.saturating_sub(old), 0);
                out.extend_from_slice(&d[pe..]);
                *d = out;
            }
        }
        SweepKind::Cut { at } => parts[it.part].1.truncate(at),
        SweepKind::DropEnd { a, b } => {
            parts[it.part].1.drain(a..b);
        }
        SweepKind::Zip { off, width, v } => {
            let mut bytes = wrap_container(parts, &c.wrap);
            if off + width as usize <= bytes.len() {
                let mut cur = [0u8; 4];
                cur[..width as usize].copy_from_slice(&bytes[off..off + width as usize]);
                let val = match v {
                    10 => 0x1000_0000, // 256 MiB: a declared size far beyond the file
                    11 => 0x0FFF_FFFF,
                    v => field_value(u32::from_le_bytes(cur), width, v),
                };
                bytes[off..off + width as usize].copy_from_slice(&val.to_le_bytes()[..width as usize]);
            }
            return bytes;
        }
        SweepKind::Cfb { off, v } => {
            let mut bytes = wrap_container(parts, &c.wrap);
            if off + 4 <= bytes.len() {
                let cur = u32::from_le_bytes(bytes[off..off + 4].try_into().unwrap());
                let val = match v {
                    10 => ((off / 4) % 128) as u32, // a FAT entry pointing at (roughly) itself
                    11 => 0xFFFF_FFFE,
                    12 => 0x00FF_FFFF,
                    v => field_value(cur, 4, v),
                };
                bytes[off..off + 4].copy_from_slice(&val.to_le_bytes());
            }
            return bytes;
        }
    }
    wrap_container(parts, &c.wrap)
}

/// Every field-sized position near the start of every record of the binary parts x 10 boundary
/// values, every numeric / reference / type attribute of the XML parts x its menu, every tag
/// boundary as a cut point, every end tag removed, and the header / first FAT / first directory
/// sector of compound files x 13 values: a deterministic enumeration over one generated document
/// per base kind (two in the thorough tier). The quick tier takes every 4th item, the phase
/// chosen by the seed; the thorough tier takes all.
fn boundary_sweep(ctx: &mut Ctx) {
    const STRIDE: usize = 4;
    let seeds: &[u64] = if ctx.quick() { &[0] } else { &[0, 0x51ED_270B_A5C3_9E17] };
    let mut docs: Vec<Container> = vec![];
    for base in 0..NBASES {
        for s in seeds {
            docs.push(build(base, *s));
        }
    }
    let mut items: Vec<SweepItem> = vec![];
    for (di, c) in docs.iter().enumerate() {
        for (pi, (name, data)) in c.parts.iter().enumerate() {
            if name == "[Content_Types].xml" || name.starts_with("docProps") {
                continue;
            }
            match part_class(name) {
                cls @ (1 | 2) => {
                    let recs = if cls == 2 { biff12_records(data) } else { biff8_records(data) };
                    for rec in 0..recs.len() {
                        for delta in [-3i8, -2, -1, 1, 2, 3, 5] {
                            items.push(SweepItem { doc: di, part: pi, kind: SweepKind::Resize { rec, delta, biff12: cls == 2 } });
                        }
                    }
                    for (_, ps, pe) in recs {
                        // fields sit near the start of a record; long tails are character data
                        for off in ps..pe.min(ps + 48) {
                            for width in [2u8, 4] {
                                if off + width as usize <= pe {
                                    for v in 0..10u8 {
                                        items.push(SweepItem { doc: di, part: pi, kind: SweepKind::Field { off, width, v } });
                                    }
                                }
                            }
                        }
                    }
                }
                0 => {
                    let Ok(text) = std::str::from_utf8(data) else { continue };
                    for (a, b) in attr_values(text, &|_, v| !v.is_empty() && v.bytes().all(|c| c.is_ascii_digit())) {
                        for v in 0..NUMS.len() as u8 {
                            items.push(SweepItem { doc: di, part: pi, kind: SweepKind::Attr { a, b, menu: 0, v } });
                        }
                    }
                    for (a, b) in attr_values(text, &|n, _| matches!(n, "r" | "ref" | "sqref" | "table:cell-range-address" | "activeCell")) {
                        for v in 0..REFS.len() as u8 {
                            items.push(SweepItem { doc: di, part: pi, kind: SweepKind::Attr { a, b, menu: 1, v } });
                        }
                    }
                    for (a, b) in attr_values(text, &|n, _| matches!(n, "t" | "office:value-type" | "state" | "Type")) {
                        for v in 0..TYPES.len() as u8 {
                            items.push(SweepItem { doc: di, part: pi, kind: SweepKind::Attr { a, b, menu: 2, v } });
                        }
                    }
                    let tags: Vec<usize> = text.match_indices('<').map(|(i, _)| i).chain(text.match_indices('>').map(|(i, _)| i + 1)).collect();
                    let step = (tags.len() / 400).max(1);
                    for at in tags.iter().step_by(step) {
                        items.push(SweepItem { doc: di, part: pi, kind: SweepKind::Cut { at: *at } });
                    }
                    let ends: Vec<(usize, usize)> = text.match_indices("</").filter_map(|(i, _)| text[i..].find('>').map(|e| (i, i + e + 1))).collect();
                    let step = (ends.len() / 200).max(1);
                    for (a, b) in ends.iter().step_by(step) {
                        items.push(SweepItem { doc: di, part: pi, kind: SweepKind::DropEnd { a: *a, b: *b } });
                    }
                }
                _ => {}
            }
        }
        if !matches!(c.wrap, Wrap::Cfb(_)) {
            // zip structures: (offset within the structure, width) of the fields a reader consumes
            let plain = wrap_container(c.parts.clone(), &c.wrap);
            let mut i = 0;
            while i + 4 <= plain.len() {
                let fields: &[(usize, u8)] = match &plain[i..i + 4] {
                    b"PK\x03\x04" => &[(6, 2), (8, 2), (14, 4), (18, 4), (22, 4), (26, 2), (28, 2)],
                    b"PK\x01\x02" => &[(8, 2), (10, 2), (16, 4), (20, 4), (24, 4), (28, 2), (30, 2), (32, 2), (42, 4)],
                    b"PK\x05\x06" => &[(8, 2), (10, 2), (12, 4), (16, 4), (20, 2)],
                    _ => &[],
                };
                for (o, w) in fields {
                    for v in 0..12u8 {
                        items.push(SweepItem { doc: di, part: 0, kind: SweepKind::Zip { off: i + o, width: *w, v } });
                    }
                }
                i += if fields.is_empty() { 1 } else { 4 };
            }
        }
        if let Wrap::Cfb(l) = &c.wrap {
            let ss = if l.v4 { 4096 } else { 512 };
            let plain = wrap_container(c.parts.clone(), &c.wrap);
            let rd = |o: usize| u32::from_le_bytes(plain[o..o + 4].try_into().unwrap());
            let mut offs: Vec<usize> = (24..124).step_by(2).collect();
            for sector in [rd(76) as usize, rd(48) as usize, rd(60) as usize] {
                let base = (sector + 1) * ss;
                if sector < 0xFFFF_FFF0 && base + ss <= plain.len() {
                    offs.extend((base..base + 512.min(ss)).step_by(4));
                }
            }
            for off in offs {
                for v in 0..13u8 {
                    items.push(SweepItem { doc: di, part: 0, kind: SweepKind::Cfb { off, v } });
                }
            }
        }
    }
    let total = items.len();
    let phase = (ctx.seed as usize) % STRIDE;
    // quick tier: every structural item (resized records, XML attributes / cuts / end tags, compound-file
    // words) and every 4th field item
    let chosen: Vec<SweepItem> = if ctx.quick() {
        let (fields, rest): (Vec<SweepItem>, Vec<SweepItem>) = items.into_iter().partition(|i| matches!(i.kind, SweepKind::Field { .. }));
        rest.into_iter().chain(fields.into_iter().skip(phase).step_by(STRIDE)).collect()
    } else {
        items
    };
    let failures = std::sync::Mutex::new(std::collections::BTreeMap::<String, (Case, String)>::new());
    let tolerated = std::sync::atomic::AtomicU64::new(0);
    let completed = std::sync::atomic::AtomicU64::new(0);
    let next = std::sync::atomic::AtomicUsize::new(0);
    std::thread::scope(|sc| {
        for _ in 0..ctx.threads {
            sc.spawn(|| loop {
                let i = next.fetch_add(1, std::sync::atomic::Ordering::Relaxed);
                let Some(it) = chosen.get(i) else { break };
                let bytes = match crate::engine::guard(|| sweep_bytes(&docs, it)) {
                    Ok(b) => b,
                    Err(p) => {
                        eprintln!("HARNESS-SELF-CHECK: the sweep could not build its input: {p}");
                        std::process::exit(2);
                    }
                };
                if bytes.len() > (1 << 20) {
                    continue;
                }
                let case = Case { base: 0, seed: 0, faults: vec![], bytes_hex: Some(bytes.iter().map(|b| format!("{b:02x}")).collect()) };
                let rep = oracle(&case);
                if rep.excluded.is_some() {
                    tolerated.fetch_add(1, std::sync::atomic::Ordering::Relaxed);
                }
                if rep.nontrivial {
                    completed.fetch_add(1, std::sync::atomic::Ordering::Relaxed);
                }
                if let Some(msg) = rep.verdict {
                    let sig = msg.rsplit("[signature: ").next().unwrap_or("").to_string();
                    failures.lock().unwrap().entry(sig).or_insert((case, msg));
                }
            });
        }
    });
    for (_, (case, msg)) in failures.into_inner().unwrap() {
        if msg.contains("HARNESS-SELF-CHECK") {
            eprintln!("{msg}");
            std::process::exit(2);
        }
        ctx.report_violation("faults", &case, &format!("boundary sweep: {msg}"));
    }
    let n = chosen.len() as u64;
    let mut labels = std::collections::BTreeMap::new();
    labels.insert("items enumerated".to_string(), total as u64);
    labels.insert("items run".to_string(), n);
    labels.insert("tolerated (recorded known finding)".to_string(), tolerated.into_inner());
    ctx.record_sweep(
        "boundary-sweep",
        n,
        completed.into_inner().max(2),
        labels,
        vec![serde_json::json!({"documents": docs.len(), "stride": if ctx.quick() { STRIDE } else { 1 }, "phase": phase})],
        !ctx.quick(),
        "deterministic enumeration: (field position near the start of each record) x (10 boundary values) for BIFF8/BIFF12 parts, attribute x menu / cut points / dropped end tags for XML parts, header + first FAT / directory / mini-FAT sector x 13 values for compound files; quick = all structural items and every 4th field item (phase = seed mod 4), thorough = all",
    );
}

/// Exhaustive sweep: every formula token id 0x01..=0x7F followed by 0..=11 operand bytes (three
/// fill patterns), as the whole expression of an xls FORMULA record and of an xlsb BrtFmlaNum
/// record. A slip in an operand-size table shows up as a panic on a particular (token, length).
fn ptg_sweep(ctx: &mut Ctx) {
    let mut cases: Vec<(String, Case)> = vec![];
    for fmt in 0..2u8 {
        for ptg in 1..=0x7Fu8 {
            for keep in 1..=12usize {
                for fill in if ctx.quick() { vec![0xFFu8, 0x01] } else { vec![0x00u8, 0xFF, 0x01, 0x7F] } {
                    let mut rgce = vec![ptg];
                    rgce.extend((1..keep).map(|i| if fill == 0x01 { i as u8 } else { fill }));
                    let bytes = if fmt == 0 {
                        let other = |n: &str| b8::BSheet { name: n.into(), cells: vec![b8::BCell { row: 0, col: 0, ixfe: 0, rec: b8::BRec::Number(1.0) }], ..Default::default() };
                        let doc = b8::XlsDoc {
                            sheets: vec![b8::BSheet { name: "Main".into(), cells: vec![b8::BCell { row: 1, col: 1, ixfe: 0, rec: b8::BRec::Formula { value: b8::FVal::Num(0.0), rgce } }], dimensions: 1, ..Default::default() }, other("Data")],
                            xfs: vec![0],
                            names: vec![b8::BName { name: "Total".into(), wide: false, rgce: vec![0x3A, 0, 0, 0, 0, 0, 0] }],
                            xtis: vec![(1, 1), (0, 0)],
                            ..Default::default()
                        };
                        b8::encode(&doc)
                    } else {
                        let other = |n: &str| bb::BbSheet { name: n.into(), rows: vec![bb::BbRow { r: 0, before: vec![], cells: vec![bb::BbCell { col: 0, style: 0, rec: bb::BbRec::Real(1.0) }] }], ..Default::default() };
                        let doc = bb::XlsbDoc {
                            sheets: vec![bb::BbSheet { name: "Main".into(), rows: vec![bb::BbRow { r: 1, before: vec![], cells: vec![bb::BbCell { col: 1, style: 0, rec: bb::BbRec::FmlaNum(0.0, rgce) }] }], ..Default::default() }, other("Data")],
                            names: vec![("Total".into(), vec![0x3A, 0, 0, 0, 0, 0, 0, 0, 0])],
                            xtis: vec![(1, 1), (0, 0)],
                            ..Default::default()
                        };
                        bb::encode(&doc)
                    };
                    let what = format!("{} formula = token 0x{ptg:02X} + {} operand byte(s) of 0x{fill:02X}", if fmt == 0 { "xls" } else { "xlsb" }, keep - 1);
                    cases.push((what, Case { base: 0, seed: 0, faults: vec![], bytes_hex: Some(bytes.iter().map(|b| format!("{b:02x}")).collect()) }));
                }
            }
        }
    }
    let failures = std::sync::Mutex::new(std::collections::BTreeMap::<String, (Case, String)>::new());
    let tolerated = std::sync::atomic::AtomicU64::new(0);
    let next = std::sync::atomic::AtomicUsize::new(0);
    std::thread::scope(|sc| {
        for _ in 0..ctx.threads {
            sc.spawn(|| loop {
                let i = next.fetch_add(1, std::sync::atomic::Ordering::Relaxed);
                let Some((what, case)) = cases.get(i) else { break };
                let rep = oracle(case);
                if rep.excluded.is_some() {
                    tolerated.fetch_add(1, std::sync::atomic::Ordering::Relaxed);
                }
                if let Some(msg) = rep.verdict {
                    let sig = msg.rsplit("[signature: ").next().unwrap_or("").to_string();
                    failures.lock().unwrap().entry(sig).or_insert((case.clone(), format!("{what}: {msg}")));
                }
            });
        }
    });
    for (_, (case, msg)) in failures.into_inner().unwrap() {
        if msg.contains("HARNESS-SELF-CHECK") {
            eprintln!("{msg}");
            std::process::exit(2);
        }
        ctx.report_violation("faults", &case, &msg);
    }
    let n = cases.len() as u64;
    let mut labels = std::collections::BTreeMap::new();
    labels.insert("token-x-length combinations".to_string(), n);
    ctx.record_sweep(
        "ptg-operands",
        n,
        n,
        labels,
        vec![serde_json::json!({"format": "xls", "token": "0x2B", "operand_bytes": 5, "fill": "0xFF"}), serde_json::json!({"format": "xlsb", "token": "0x3B", "operand_bytes": 11, "fill": "0x00"})],
        true,
        "every token id 0x01..0x7F x 0..11 operand bytes x 2 (quick) / 4 (thorough) fill patterns x {xls FORMULA, xlsb BrtFmlaNum}, each read by all readers under the isolated oracle",
    );
}

fn run(ctx: &mut Ctx) {
    if let Ok(dir) = std::env::var("CVERIF_WITNESS") {
        write_witnesses(&dir);
    }

    let n = ctx.n(6000, 100_000);
    ctx.max_shrink_iters = 150;
    ctx.run("faults", n, case_strategy, oracle);
    let n = ctx.n(1500, 25_000);
    ctx.run("valid", n, valid_strategy, oracle);
    ctx.max_shrink_iters = 4000;
    embed_bytes(ctx);
    ptg_sweep(ctx);
    boundary_sweep(ctx);
    fuzz_phase(ctx);
    ctx.assumptions.push("inputs are <= 1 MiB; 'memory out of proportion' = more than 256 MiB requested at once or live at the peak (valid files of this size stay below 40 MiB); 'hang' = more than 10 s of thread CPU time, or no progress for 120 s (watchdog), confirmed in isolation by the supervisor".into());
    ctx.assumptions.push("panics recorded in known_findings.json are tolerated by (innermost calamine function, message class); every other panic is a violation".into());
}

fn replay(sub: &str, case: &serde_json::Value) -> Option<Report> {
    match sub {
        "faults" | "valid" => replay_as::<Case>(case, oracle),
        "faults-strict" => replay_as::<Case>(case, oracle_strict),
        _ => None,
    }
}
