//! C03 — XLSB: every cell record reads back at its position with its value.

use crate::enc::biff8::rk_encodings;
use crate::enc::xlsb::*;
use crate::enc::zipw::ZipKnobs;
use crate::engine::{guard, replay_as, Ctx, Report};
use crate::model::value::{check_range, check_range_ref};
use crate::props::Prop;
use calamine::{Reader, ReaderRef, Xlsb};
use proptest::prelude::*;
use serde::{Deserialize, Serialize};
use std::collections::BTreeMap;
use std::io::Cursor;

pub static PROP: Prop = Prop {
    id: "C03",
    run,
    replay,
    rule: "XLSB workbooks written by the harness (workbook.bin, rels, sharedStrings.bin, styles.bin, sheet parts): rows 0..1048575 x cols 0..16383 (boundary-heavy), cells BrtCellRk (4 variants, negative integers) / Real / Bool / Error (8 codes) / St / Isst and BrtFmlaNum / String / Bool / Error with a small rgce, BrtCellBlank, and ignorable records with 1-byte and 2-byte ids and payload lengths steered onto 0,1,127,128,129,16383,16384,16385 between cells, between rows, before BrtWsDim and in the optional blocks before the sheet data; string lengths steered so that every record-length width (1-3 bytes) occurs. Oracle: worksheet_range and worksheet_range_ref equal the model; a formula record yields exactly what a constant record of the same type yields. Non-trivial = >= 1 ignorable record between two cells of one row and >= 1 record with a two-byte length; distinct by serialized case.",
};

#[derive(Debug, Clone, Serialize, Deserialize)]
pub struct Case {
    pub doc: XlsbDoc,
}

pub fn open_xlsb(bytes: Vec<u8>) -> Result<Xlsb<Cursor<Vec<u8>>>, String> {
    match guard(|| Xlsb::new(Cursor::new(bytes))) {
        Ok(Ok(x)) => Ok(x),
        Ok(Err(e)) => Err(format!("Xlsb::new failed on a well-formed workbook: {e:?}")),
        Err(p) => Err(format!("Xlsb::new: {p}")),
    }
}

pub const BERR_CODES: [u8; 8] = [0x00, 0x07, 0x0F, 0x17, 0x1D, 0x24, 0x2A, 0x2B];
const IGNORABLE_IDS: &[u16] = &[0x0C, 0x31, 0x32, 0x7F, 0x80, 0x81 + 0x20, 0x0415, 0x1000, 0x3FFF, 0x0234];

fn payload_len() -> impl Strategy<Value = u32> {
    prop_oneof![40 => 0u32..12, 30 => proptest::sample::select(vec![0u32, 1, 127, 128, 129, 16383, 16384, 16385]), 10 => 0u32..20000, 1 => proptest::sample::select(vec![2_097_151u32, 2_097_152, 2_097_153])]
}

fn text() -> impl Strategy<Value = String> {
    prop_oneof![
        6 => "[a-zA-Z0-9 é中]{0,10}",
        1 => Just("x".repeat(57)),
        1 => Just("y".repeat(58)),
        1 => Just("é".repeat(8186)),
        1 => Just("z".repeat(8187)),
        1 => Just("😀 astral".to_string()),
        1 => prop_oneof![Just("\u{FEFF}abc".to_string()), Just("\u{FFFE}x".to_string()), Just("\u{BBEF}\u{BF}z".to_string())],
    ]
}

fn number() -> impl Strategy<Value = f64> {
    prop_oneof![
        3 => (-1000i32..1000).prop_map(|i| i as f64),
        2 => prop_oneof![Just(-536_870_912i32), Just(536_870_911), Just(-1), Just(-100)].prop_map(|i| i as f64),
        3 => (-100_000i32..100_000).prop_map(|i| i as f64 / 100.0),
        2 => (-1e6f64..1e6).prop_map(|f| f64::from_bits(f.to_bits() & !0x3_FFFF_FFFF)),
        2 => (-1e9f64..1e9),
        1 => any::<f64>().prop_filter("finite", |f| f.is_finite()),
    ]
}

fn rec_strategy(n_sst: u32) -> impl Strategy<Value = BbRec> {
    let rgce = vec![0x1Eu8, 1, 0];
    let (r1, r2, r3, r4) = (rgce.clone(), rgce.clone(), rgce.clone(), rgce);
    let isst = if n_sst > 0 { (0..n_sst).prop_map(BbRec::Isst).boxed() } else { Just(BbRec::Blank).boxed() };
    prop_oneof![
        6 => (number(), any::<u8>()).prop_map(|(v, k)| {
            let encs = rk_encodings(v);
            let k = k as usize % (encs.len() + 1);
            if k == 0 { BbRec::Real(v) } else { BbRec::Rk(encs[k - 1].1) }
        }),
        1 => (0usize..8).prop_map(|k| BbRec::Error(BERR_CODES[k])),
        1 => any::<bool>().prop_map(BbRec::Bool),
        2 => text().prop_map(BbRec::St),
        2 => isst,
        1 => text().prop_map(move |s| BbRec::FmlaString(s, r1.clone())),
        1 => number().prop_map(move |v| BbRec::FmlaNum(v, r2.clone())),
        1 => any::<bool>().prop_map(move |b| BbRec::FmlaBool(b, r3.clone())),
        1 => (0usize..8).prop_map(move |k| BbRec::FmlaError(BERR_CODES[k], r4.clone())),
        1 => Just(BbRec::Blank),
        3 => (proptest::sample::select(IGNORABLE_IDS.to_vec()), payload_len()).prop_map(|(id, len)| BbRec::Ignorable(id, len)),
    ]
}

fn sheet(name: String, n_sst: u32, n_styles: u32) -> impl Strategy<Value = BbSheet> {
    let origin = (proptest::sample::select(vec![0u32, 0, 1, 65_535, 65_536, 1_048_556]), proptest::sample::select(vec![0u32, 0, 1, 25, 26, 255, 256, 702, 16_371]));
    let cell = (rec_strategy(n_sst), 0..n_styles.max(1));
    (origin, proptest::collection::btree_map(0u32..20, (proptest::collection::btree_map(0u32..13, cell, 1..8), proptest::collection::vec((proptest::sample::select(IGNORABLE_IDS.to_vec()), payload_len()), 0..2)), 0..8), any::<u8>(), 0u8..3).prop_map(
        move |((r0, c0), rows, blocks, dim)| BbSheet {
            name: name.clone(),
            state: 0,
            kind: 0,
            rows: rows
                .into_iter()
                .map(|(r, (cells, before))| BbRow { r: r0 + r, before, cells: cells.into_iter().map(|(c, (rec, style))| BbCell { col: c0 + c, style, rec }).collect() })
                .collect(),
            blocks,
            dim,
        },
    )
}

pub fn case_strategy() -> impl Strategy<Value = Case> {
    (proptest::collection::vec((text(), 0u8..3, proptest::option::weighted(0.2, "[a-z]{1,4}")), 0..5), 1usize..3).prop_flat_map(|(sst, n)| {
        let n_sst = sst.len() as u32;
        let names = ["Sheet1", "Données 2"];
        let sheets: Vec<_> = (0..n).map(|i| sheet(names[i].to_string(), n_sst, 3).boxed()).collect();
        let zip = (proptest::collection::vec(0u8..5, 0..4), proptest::collection::vec(any::<u8>(), 0..4)).prop_map(|(methods, order)| ZipKnobs { methods, order, name_case: 0, comment: false });
        (Just(sst), sheets, any::<bool>(), any::<u8>(), zip, any::<bool>()).prop_map(|(sst, sheets, date1904, book_blocks, zip, with_styles)| Case {
            doc: XlsbDoc {
                sheets,
                sst: sst.into_iter().map(|(text, runs, phonetic)| BbSstItem { text, runs, phonetic }).collect(),
                styles: with_styles.then(|| BbStyles { fmts: vec![(164, "0.00".into(), 0)], fonts: vec!["Calibri".into()], style_xfs: vec![0], xfs: vec![0, 2, 164] }),
                date1904,
                book_blocks,
                zip,
                ..Default::default()
            },
        })
    })
}

pub fn read_and_check(doc: &XlsbDoc, what: &str, rep: &mut Report) {
    let mut wb = match open_xlsb(encode(doc)) {
        Ok(w) => w,
        Err(e) => {
            rep.fail(format!("{what}: {e}"));
            return;
        }
    };
    for (i, s) in doc.sheets.iter().enumerate() {
        if s.kind != 0 {
            continue;
        }
        let expected = expected_values(doc, i);
        match guard(|| wb.worksheet_range(&s.name)) {
            Ok(Ok(r)) => {
                if let Err(e) = check_range(&r, &expected, &format!("{what}: worksheet_range({:?})", s.name)) {
                    rep.fail(e);
                    return;
                }
            }
            other => {
                rep.fail(format!("{what}: worksheet_range({:?}): {:?}", s.name, other.map(|r| r.map(|_| ()).map_err(|e| e.to_string()))));
                return;
            }
        }
        let r = guard(|| match wb.worksheet_range_ref(&s.name) {
            Ok(r) => check_range_ref(&r, &expected, &format!("{what}: worksheet_range_ref({:?})", s.name)),
            Err(e) => Err(format!("{what}: worksheet_range_ref({:?}) failed: {e:?}", s.name)),
        });
        match r {
            Ok(Ok(())) => {}
            Ok(Err(e)) => {
                rep.fail(e);
                return;
            }
            Err(p) => {
                rep.fail(format!("{what}: worksheet_range_ref({:?}): {p}", s.name));
                return;
            }
        }
    }
}

fn oracle(case: &Case) -> Report {
    let mut rep = Report::new();
    read_and_check(&case.doc, "xlsb", &mut rep);
    let mut between = false;
    let mut two_byte_len = false;
    for s in &case.doc.sheets {
        for r in &s.rows {
            let real: Vec<usize> = r.cells.iter().enumerate().filter(|(_, c)| !matches!(c.rec, BbRec::Ignorable(..) | BbRec::Blank)).map(|(i, _)| i).collect();
            for (i, c) in r.cells.iter().enumerate() {
                let len = cell_record(c).len();
                two_byte_len |= len > 130;
                rep.label_if(len > 16_390, "record-length:3-bytes");
                rep.label_if(len > 2_097_152, "record-length:4-bytes");
                match &c.rec {
                    BbRec::Ignorable(id, l) => {
                        if real.first().map_or(false, |f| i > *f) && real.last().map_or(false, |l| i < *l) {
                            between = true;
                        }
                        rep.label(if *id < 0x80 { "ignorable:1-byte-id" } else { "ignorable:2-byte-id" });
                        rep.label_if(*l >= 128, "ignorable:long-payload");
                    }
                    BbRec::Rk(w) => {
                        rep.label(["BrtCellRk:float", "BrtCellRk:float/100", "BrtCellRk:int", "BrtCellRk:int/100"][(*w & 3) as usize]);
                        rep.label_if(w & 2 != 0 && (*w as i32) < 0, "BrtCellRk:negative-int");
                    }
                    BbRec::Error(_) => rep.label("BrtCellError"),
                    BbRec::Bool(_) => rep.label("BrtCellBool"),
                    BbRec::Real(_) => rep.label("BrtCellReal"),
                    BbRec::St(_) => rep.label("BrtCellSt"),
                    BbRec::Isst(_) => rep.label("BrtCellIsst"),
                    BbRec::FmlaString(..) => rep.label("BrtFmlaString"),
                    BbRec::FmlaNum(..) => rep.label("BrtFmlaNum"),
                    BbRec::FmlaBool(..) => rep.label("BrtFmlaBool"),
                    BbRec::FmlaError(..) => rep.label("BrtFmlaError"),
                    BbRec::Blank => rep.label("BrtCellBlank"),
                }
            }
            rep.label_if(!r.before.is_empty(), "ignorable:between-rows");
        }
        rep.label_if(s.blocks & 48 != 0, "ignorable:before-sheet-data");
    }
    rep.label_if(between, "ignorable:between-cells");
    rep.nontrivial = between && two_byte_len;
    rep
}

fn run(ctx: &mut Ctx) {
    let n = ctx.n(2500, 40_000);
    ctx.run("workbook", n, case_strategy, oracle);
    // shared-string indices beyond 16 bits: BrtCellIsst carries a 32-bit index
    let n = ctx.n(1, 20);
    ctx.run("bigtable", n, || crate::props::c19::big_table().prop_map(|mut b| { b.fmt = 1; b }), crate::props::c19::oracle_big);
    let _ = BTreeMap::<u8, u8>::new();
    ctx.assumptions.push("parts use the names every producer writes (xl/workbook.bin, xl/_rels/workbook.bin.rels, xl/sharedStrings.bin, xl/styles.bin, worksheets/sheetN.bin); BrtWsDim is present; rows ascend".into());
}

fn replay(sub: &str, case: &serde_json::Value) -> Option<Report> {
    match sub {
        "workbook" => replay_as::<Case>(case, oracle),
        "bigtable" => replay_as::<crate::props::c19::BigTable>(case, crate::props::c19::oracle_big),
        _ => None,
    }
}
