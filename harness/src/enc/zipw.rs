//! Minimal ZIP writer (independent of the `zip` crate calamine reads with).
//! Supports stored / deflate per entry, optional data descriptors, arbitrary entry order and
//! names, an archive comment.

use serde::{Deserialize, Serialize};

#[derive(Debug, Clone, Copy, Serialize, Deserialize, PartialEq, Eq)]
pub enum Method {
    Stored,
    /// raw deflate at the given miniz level (0..=10)
    Deflate(u8),
}

#[derive(Debug, Clone)]
pub struct ZipEntry {
    pub name: String,
    pub data: Vec<u8>,
    pub method: Method,
    /// sizes and crc in a trailing data descriptor (general purpose bit 3) instead of the local header
    pub data_descriptor: bool,
}

impl ZipEntry {
    pub fn new(name: &str, data: Vec<u8>) -> ZipEntry {
        ZipEntry { name: name.to_string(), data, method: Method::Deflate(6), data_descriptor: false }
    }
}

fn u16le(v: &mut Vec<u8>, x: u16) {
    v.extend_from_slice(&x.to_le_bytes());
}
fn u32le(v: &mut Vec<u8>, x: u32) {
    v.extend_from_slice(&x.to_le_bytes());
}

pub fn write_zip(entries: &[ZipEntry], comment: &[u8]) -> Vec<u8> {
    let mut out = Vec::new();
    let mut central = Vec::new();
    for e in entries {
        let crc = crc32fast::hash(&e.data);
        let (method_id, payload) = match e.method {
            Method::Stored => (0u16, e.data.clone()),
            Method::Deflate(level) => (8u16, miniz_oxide::deflate::compress_to_vec(&e.data, level.min(10))),
        };
        // a data descriptor on a stored entry is not readable in streaming mode; keep it legal
        let dd = e.data_descriptor && method_id == 8;
        let flags: u16 = if dd { 0x0008 } else { 0 } | 0x0800; // UTF-8 names
        let offset = out.len() as u32;
        let name = e.name.as_bytes();
        // local file header
        u32le(&mut out, 0x0403_4b50);
        u16le(&mut out, 20);
        u16le(&mut out, flags);
        u16le(&mut out, method_id);
        u16le(&mut out, 0); // time
        u16le(&mut out, 0x21); // date 1980-01-01
        if dd {
            u32le(&mut out, 0);
            u32le(&mut out, 0);
            u32le(&mut out, 0);
        } else {
            u32le(&mut out, crc);
            u32le(&mut out, payload.len() as u32);
            u32le(&mut out, e.data.len() as u32);
        }
        u16le(&mut out, name.len() as u16);
        u16le(&mut out, 0);
        out.extend_from_slice(name);
        out.extend_from_slice(&payload);
        if dd {
            u32le(&mut out, 0x0807_4b50);
            u32le(&mut out, crc);
            u32le(&mut out, payload.len() as u32);
            u32le(&mut out, e.data.len() as u32);
        }
        // central directory header
        u32le(&mut central, 0x0201_4b50);
        u16le(&mut central, 20); // version made by
        u16le(&mut central, 20); // version needed
        u16le(&mut central, flags);
        u16le(&mut central, method_id);
        u16le(&mut central, 0);
        u16le(&mut central, 0x21);
        u32le(&mut central, crc);
        u32le(&mut central, payload.len() as u32);
        u32le(&mut central, e.data.len() as u32);
        u16le(&mut central, name.len() as u16);
        u16le(&mut central, 0); // extra
        u16le(&mut central, 0); // comment
        u16le(&mut central, 0); // disk
        u16le(&mut central, 0); // internal attrs
        u32le(&mut central, 0); // external attrs
        u32le(&mut central, offset);
        central.extend_from_slice(name);
    }
    let cd_offset = out.len() as u32;
    out.extend_from_slice(&central);
    u32le(&mut out, 0x0605_4b50);
    u16le(&mut out, 0);
    u16le(&mut out, 0);
    u16le(&mut out, entries.len() as u16);
    u16le(&mut out, entries.len() as u16);
    u32le(&mut out, central.len() as u32);
    u32le(&mut out, cd_offset);
    u16le(&mut out, comment.len() as u16);
    out.extend_from_slice(comment);
    out
}

/// Physical choices of the archive, generated independently of the logical content.
#[derive(Debug, Clone, Serialize, Deserialize, Default, PartialEq)]
#[serde(default)]
pub struct ZipKnobs {
    /// per entry (cycled): 0 = deflate 6, 1 = stored, 2 = deflate 1, 3 = deflate 9 + data descriptor, 4 = deflate 0
    pub methods: Vec<u8>,
    /// permutation keys for the entry order (cycled; empty = as given)
    pub order: Vec<u8>,
    /// 0 = names as given, 1 = upper case, 2 = lower case, 3 = alternating case
    pub name_case: u8,
    pub comment: bool,
}

pub fn recase(name: &str, mode: u8) -> String {
    match mode % 4 {
        0 => name.to_string(),
        1 => name.to_uppercase(),
        2 => name.to_lowercase(),
        _ => name.chars().enumerate().map(|(i, c)| if i % 2 == 0 { c.to_ascii_uppercase() } else { c.to_ascii_lowercase() }).collect(),
    }
}

pub fn pack(parts: Vec<(String, Vec<u8>)>, knobs: &ZipKnobs) -> Vec<u8> {
    let mut entries: Vec<ZipEntry> = parts
        .into_iter()
        .enumerate()
        .map(|(i, (name, data))| {
            let m = if knobs.methods.is_empty() { 0 } else { knobs.methods[i % knobs.methods.len()] };
            let (method, dd) = match m % 5 {
                0 => (Method::Deflate(6), false),
                1 => (Method::Stored, false),
                2 => (Method::Deflate(1), false),
                3 => (Method::Deflate(9), true),
                _ => (Method::Deflate(0), false),
            };
            ZipEntry { name: recase(&name, knobs.name_case), data, method, data_descriptor: dd }
        })
        .collect();
    if !knobs.order.is_empty() {
        let n = entries.len();
        for (i, k) in knobs.order.iter().enumerate() {
            if n > 0 {
                entries.swap(i % n, *k as usize % n);
            }
        }
    }
    write_zip(&entries, if knobs.comment { b"generated by cverif" } else { b"" })
}
