//! Independent XLSX writer driven by a document description that separates logical content
//! (cells, strings, styles, metadata) from physical encoding choices (implicit references,
//! dimension element, shared vs inline strings, namespace prefixes, relationship spelling,
//! part-name case, zip method/order).

use crate::enc::zipw::{self, ZipKnobs};
use crate::model::value::{Exp, Pos, ERR_LITERALS};
use serde::{Deserialize, Serialize};
use std::collections::BTreeMap;

pub const NS_MAIN: &str = "http://schemas.openxmlformats.org/spreadsheetml/2006/main";
pub const NS_REL: &str = "http://schemas.openxmlformats.org/officeDocument/2006/relationships";
pub const NS_PKG_REL: &str = "http://schemas.openxmlformats.org/package/2006/relationships";

// ---------------------------------------------------------------------------------------------
// document description

#[derive(Debug, Clone, Serialize, Deserialize, Default, PartialEq)]
pub struct XText {
    /// the text is the concatenation of the runs; one run and `rich == false` = plain `<t>`
    pub runs: Vec<String>,
    pub rich: bool,
    /// phonetic annotation (`<rPh>` + `<phoneticPr>`), contributes nothing to the text
    pub phonetic: Option<String>,
    /// write xml:space="preserve" on every `<t>`
    pub preserve: bool,
    /// 0 entities only, 1 hex character references for non-ASCII and quotes, 2 decimal references,
    /// 3 CDATA sections (separately labelled class)
    pub esc: u8,
}

impl XText {
    pub fn plain(s: &str) -> XText {
        XText { runs: vec![s.to_string()], rich: false, phonetic: None, preserve: true, esc: 0 }
    }
    pub fn text(&self) -> String {
        self.runs.concat()
    }
}

#[derive(Debug, Clone, Serialize, Deserialize, PartialEq)]
pub enum XVal {
    /// no `<v>`: a cell that only carries a style (or nothing)
    None,
    /// lexical form as written; `typed` = explicit t="n"
    Num { lex: String, typed: bool },
    Shared(XText),
    Inline(XText),
    /// t="str" (formula string result)
    Str(String),
    Bool(bool),
    /// index into ERR_LITERALS
    Err(u8),
    /// t="d"
    Iso(String),
}

#[derive(Debug, Clone, Serialize, Deserialize, PartialEq)]
pub enum XFormula {
    Plain(String),
    /// master of a shared group: `<f t="shared" ref=.. si=..>text</f>`
    SharedMaster { si: u32, range: (Pos, Pos), text: String },
    /// member: `<f t="shared" si=../>`
    SharedChild { si: u32 },
}

#[derive(Debug, Clone, Serialize, Deserialize, PartialEq)]
pub struct XCell {
    pub col: u32,
    /// write the r attribute (when false the encoder omits it if the implied cursor allows)
    pub explicit: bool,
    pub style: Option<u32>,
    pub value: XVal,
    pub formula: Option<XFormula>,
}

#[derive(Debug, Clone, Serialize, Deserialize, PartialEq)]
pub struct XRow {
    pub r: u32,
    pub explicit: bool,
    /// extra attributes spans/ht
    pub attrs: bool,
    pub cells: Vec<XCell>,
}

#[derive(Debug, Clone, Serialize, Deserialize, PartialEq, Default)]
pub enum XDim {
    #[default]
    Absent,
    Exact,
    /// any well-formed reference (start <= end), accurate or not
    Custom(String),
}

#[derive(Debug, Clone, Serialize, Deserialize, PartialEq)]
pub struct XTable {
    pub name: String,
    pub range: (Pos, Pos),
    /// None = attribute absent (default 1)
    pub header_rows: Option<u32>,
    pub totals_rows: Option<u32>,
    pub columns: Vec<String>,
}

#[derive(Debug, Clone, Serialize, Deserialize, PartialEq, Default)]
#[serde(default)]
pub struct XSheet {
    pub name: String,
    /// 0 no attribute, 1 "visible", 2 "hidden", 3 "veryHidden"
    pub state: u8,
    /// 0 worksheet, 1 chartsheet, 2 dialogsheet, 3 macrosheet
    pub kind: u8,
    pub rows: Vec<XRow>,
    pub dimension: XDim,
    pub merges: Vec<(Pos, Pos)>,
    pub tables: Vec<XTable>,
    /// bit 0 sheetPr, 1 sheetViews, 2 sheetFormatPr, 3 cols, 4 pageMargins after, 5 conditionalFormatting after
    pub extras: u8,
}

#[derive(Debug, Clone, Serialize, Deserialize, PartialEq, Default)]
#[serde(default)]
pub struct XStyles {
    /// (numFmtId, formatCode, class 0 other / 1 date-time / 2 elapsed) — class recorded by the generator
    pub num_fmts: Vec<(u32, String, u8)>,
    /// cellXfs: numFmtId of each xf (None = attribute absent)
    pub cell_xfs: Vec<Option<u32>>,
    /// number of xf elements in cellStyleXfs (not cell formats; must not be counted)
    pub cell_style_xfs: u8,
    /// a numFmt element inside dxfs (outside numFmts; must be ignored)
    pub dxf_decoy: bool,
}

#[derive(Debug, Clone, Serialize, Deserialize, PartialEq)]
pub enum SstExtra {
    /// an unused item with text
    Text(XText),
    /// `<si/>`
    EmptySi,
    /// `<si><t/></si>`
    EmptyT,
    /// `<si><t></t></si>`
    EmptyTOpen,
    /// `<si><phoneticPr fontId="1"/></si>`
    OnlyPhonetic,
}

#[derive(Debug, Clone, Serialize, Deserialize, PartialEq, Default)]
#[serde(default)]
pub struct SstKnobs {
    /// unused items placed before the used ones
    pub prepend: Vec<SstExtra>,
    /// unused item inserted after every used item with index % 3 == 1
    pub interleave: Option<SstExtra>,
    /// identical XText share one item
    pub dedupe: bool,
    /// write count / uniqueCount
    pub counts: bool,
}

#[derive(Debug, Clone, Serialize, Deserialize, PartialEq, Default)]
#[serde(default)]
pub struct XEnc {
    pub prefix_workbook: bool,
    pub prefix_sheet: bool,
    pub prefix_sst: bool,
    pub prefix_styles: bool,
    /// 0 none, 1 XML declaration, 2 BOM + declaration
    pub decl: u8,
    /// 0 "worksheets/sheet1.xml", 1 "xl/worksheets/sheet1.xml", 2 "/xl/worksheets/sheet1.xml"
    pub rel_target: u8,
    /// newlines/indentation between structural elements
    pub pretty: bool,
    /// write [Content_Types].xml, _rels/.rels, docProps
    pub package_parts: bool,
    /// booleans as "true"/"false" instead of "1"/"0" in workbookPr
    pub bool_words: bool,
    pub zip: ZipKnobs,
    /// sheetId numbering (ids are labels, not positions): 0 = 1..n in document order, 1 = descending,
    /// 2 = ascending with gaps from 7, 3 = rotated by one (value mod 4); (value / 4) mod 4 = attribute
    /// order of the <sheet> elements; tableColumn ids follow the same numbering scheme
    pub sheet_ids: u8,
}

#[derive(Debug, Clone, Serialize, Deserialize, PartialEq, Default)]
#[serde(default)]
pub struct XlsxDoc {
    pub sheets: Vec<XSheet>,
    pub styles: Option<XStyles>,
    /// None = no date1904 attribute
    pub date1904: Option<bool>,
    pub defined_names: Vec<(String, String)>,
    pub sst: SstKnobs,
    pub enc: XEnc,
    /// content of xl/vbaProject.bin
    pub vba: Option<Vec<u8>>,
    /// additional zip entries (decoys)
    pub extra_parts: Vec<(String, Vec<u8>)>,
}

// ---------------------------------------------------------------------------------------------
// helpers

pub fn col_name(mut col: u32) -> String {
    // independent column lettering: bijective base 26
    let mut s = Vec::new();
    col += 1;
    while col > 0 {
        let rem = (col - 1) % 26;
        s.push(b'A' + rem as u8);
        col = (col - 1) / 26;
    }
    s.reverse();
    String::from_utf8(s).unwrap()
}

pub fn cell_name(p: Pos) -> String {
    format!("{}{}", col_name(p.1), p.0 + 1)
}

pub fn range_name(r: (Pos, Pos)) -> String {
    if r.0 == r.1 {
        cell_name(r.0)
    } else {
        format!("{}:{}", cell_name(r.0), cell_name(r.1))
    }
}

fn is_xml_char(c: char) -> bool {
    matches!(c, '\u{9}' | '\u{A}' | '\u{D}' | '\u{20}'..='\u{D7FF}' | '\u{E000}'..='\u{FFFD}' | '\u{10000}'..='\u{10FFFF}')
}

/// drop characters that XML 1.0 cannot carry (generators use this to stay well-formed)
pub fn xml_clean(s: &str) -> String {
    s.chars().filter(|c| is_xml_char(*c)).collect()
}

pub fn esc_text(s: &str, style: u8) -> String {
    if style == 3 {
        // half of the strings mix the two notations: escaped text first, a CDATA section after it
        // (character data may be written as any sequence of text and CDATA pieces)
        let n = s.chars().count();
        if n >= 2 && n % 2 == 0 {
            let cut = s.char_indices().nth(n / 2).map_or(s.len(), |(i, _)| i);
            let tail = &s[cut..];
            if !tail.contains('\r') {
                return format!("{}<![CDATA[{}]]>", esc_text(&s[..cut], 0), tail.replace("]]>", "]]]]><![CDATA[>"));
            }
        }
        // CDATA: split "]]>" so the section stays well-formed; CR must still be a reference
        let mut out = String::new();
        let mut first = true;
        for part in s.split('\r') {
            if !first {
                out.push_str("&#13;");
            }
            first = false;
            if !part.is_empty() {
                out.push_str("<![CDATA[");
                out.push_str(&part.replace("]]>", "]]]]><![CDATA[>"));
                out.push_str("]]>");
            }
        }
        return out;
    }
    let mut out = String::with_capacity(s.len() + 8);
    for c in s.chars() {
        match c {
            '&' => out.push_str(match style {
                1 => "&#x26;",
                2 => "&#38;",
                _ => "&amp;",
            }),
            '<' => out.push_str(match style {
                1 => "&#x3C;",
                2 => "&#60;",
                _ => "&lt;",
            }),
            '>' => out.push_str(match style {
                1 => "&#x3e;",
                2 => "&#62;",
                _ => "&gt;",
            }),
            '\r' => out.push_str("&#13;"),
            '"' if style == 1 => out.push_str("&quot;"),
            '\'' if style == 1 => out.push_str("&apos;"),
            c if style == 1 && !c.is_ascii() => out.push_str(&format!("&#x{:X};", c as u32)),
            c if style == 2 && !c.is_ascii() => out.push_str(&format!("&#{};", c as u32)),
            c => out.push(c),
        }
    }
    out
}

pub fn esc_attr(s: &str) -> String {
    let mut out = String::with_capacity(s.len() + 8);
    for c in s.chars() {
        match c {
            '&' => out.push_str("&amp;"),
            '<' => out.push_str("&lt;"),
            '>' => out.push_str("&gt;"),
            '"' => out.push_str("&quot;"),
            '\t' => out.push_str("&#9;"),
            '\n' => out.push_str("&#10;"),
            '\r' => out.push_str("&#13;"),
            c => out.push(c),
        }
    }
    out
}

struct W {
    out: String,
    prefix: bool,
    pretty: bool,
}

impl W {
    fn new(prefix: bool, pretty: bool, decl: u8) -> W {
        let mut out = String::new();
        if decl == 2 {
            out.push('\u{FEFF}');
        }
        if decl >= 1 {
            out.push_str("<?xml version=\"1.0\" encoding=\"UTF-8\" standalone=\"yes\"?>");
            if decl == 1 {
                out.push('\n');
            }
        }
        W { out, prefix, pretty }
    }
    fn n(&self, name: &str) -> String {
        if self.prefix {
            format!("x:{name}")
        } else {
            name.to_string()
        }
    }
    fn root_ns(&self) -> String {
        if self.prefix {
            format!(" xmlns:x=\"{NS_MAIN}\" xmlns:r=\"{NS_REL}\"")
        } else {
            format!(" xmlns=\"{NS_MAIN}\" xmlns:r=\"{NS_REL}\"")
        }
    }
    fn nl(&mut self) {
        if self.pretty {
            self.out.push_str("\n  ");
        }
    }
    fn open(&mut self, name: &str, attrs: &str) {
        let n = self.n(name);
        self.out.push_str(&format!("<{n}{attrs}>"));
    }
    fn close(&mut self, name: &str) {
        let n = self.n(name);
        self.out.push_str(&format!("</{n}>"));
    }
    fn empty(&mut self, name: &str, attrs: &str) {
        let n = self.n(name);
        self.out.push_str(&format!("<{n}{attrs}/>"));
    }
    fn raw(&mut self, s: &str) {
        self.out.push_str(s);
    }
}

fn write_t(w: &mut W, text: &str, preserve: bool, esc: u8) {
    let attrs = if preserve { " xml:space=\"preserve\"" } else { "" };
    w.open("t", attrs);
    w.raw(&esc_text(text, esc));
    w.close("t");
}

/// content of an `<si>` or `<is>` element
fn write_string_item(w: &mut W, t: &XText) {
    if t.rich || t.runs.len() != 1 {
        for (i, run) in t.runs.iter().enumerate() {
            w.open("r", "");
            if i % 2 == 1 {
                w.open("rPr", "");
                w.empty("b", "");
                w.empty("sz", " val=\"11\"");
                w.empty("rFont", " val=\"Calibri\"");
                w.close("rPr");
            }
            write_t(w, run, t.preserve, t.esc);
            w.close("r");
            if w.pretty {
                w.raw("\n");
            }
        }
    } else {
        write_t(w, &t.runs[0], t.preserve, t.esc);
    }
    if let Some(ph) = &t.phonetic {
        w.open("rPh", " sb=\"0\" eb=\"1\"");
        write_t(w, ph, false, 0);
        w.close("rPh");
        w.empty("phoneticPr", " fontId=\"1\" type=\"noConversion\"");
    }
}

fn write_extra(w: &mut W, e: &SstExtra) {
    match e {
        SstExtra::Text(t) => {
            w.open("si", "");
            write_string_item(w, t);
            w.close("si");
        }
        SstExtra::EmptySi => w.empty("si", ""),
        SstExtra::EmptyT => {
            w.open("si", "");
            w.empty("t", "");
            w.close("si");
        }
        SstExtra::EmptyTOpen => {
            w.open("si", "");
            w.open("t", "");
            w.close("t");
            w.close("si");
        }
        SstExtra::OnlyPhonetic => {
            w.open("si", "");
            w.empty("phoneticPr", " fontId=\"1\"");
            w.close("si");
        }
    }
}

pub fn sheet_dir(kind: u8) -> &'static str {
    match kind {
        0 => "worksheets",
        1 => "chartsheets",
        2 => "dialogsheets",
        _ => "macrosheets",
    }
}

pub fn sheet_path(i: usize, kind: u8) -> String {
    format!("xl/{}/sheet{}.xml", sheet_dir(kind), i + 1)
}

// ---------------------------------------------------------------------------------------------
// encoder

struct SstBuilder {
    items: Vec<String>, // serialized <si> elements
    index: BTreeMap<String, usize>,
    used: usize,
}

pub fn encode(doc: &XlsxDoc) -> Vec<u8> {
    let (parts, knobs) = parts(doc);
    zipw::pack(parts, &knobs)
}

/// the package parts before zipping (used by the fault injector) and the zip knobs to use
pub fn parts(doc: &XlsxDoc) -> (Vec<(String, Vec<u8>)>, ZipKnobs) {
    let enc = &doc.enc;
    let mut parts: Vec<(String, Vec<u8>)> = Vec::new();

    // ---- shared strings: assign indices in order of first use
    let mut sst = SstBuilder { items: Vec::new(), index: BTreeMap::new(), used: 0 };
    let ser_item = |t: &XText| {
        let mut w = W::new(enc.prefix_sst, false, 0);
        w.open("si", "");
        write_string_item(&mut w, t);
        w.close("si");
        w.out
    };
    let ser_extra = |e: &SstExtra| {
        let mut w = W::new(enc.prefix_sst, false, 0);
        write_extra(&mut w, e);
        w.out
    };
    for e in &doc.sst.prepend {
        sst.items.push(ser_extra(e));
    }
    let mut any_shared = !doc.sst.prepend.is_empty();
    // map (sheet, row idx, cell idx) -> sst index
    let mut sst_index: BTreeMap<(usize, usize, usize), usize> = BTreeMap::new();
    for (si, sheet) in doc.sheets.iter().enumerate() {
        for (ri, row) in sheet.rows.iter().enumerate() {
            for (ci, cell) in row.cells.iter().enumerate() {
                if let XVal::Shared(t) = &cell.value {
                    any_shared = true;
                    let ser = ser_item(t);
                    let idx = if doc.sst.dedupe && sst.index.contains_key(&ser) {
                        sst.index[&ser]
                    } else {
                        let idx = sst.items.len();
                        sst.items.push(ser.clone());
                        sst.index.insert(ser, idx);
                        sst.used += 1;
                        if let (Some(x), true) = (&doc.sst.interleave, sst.used % 3 == 1) {
                            sst.items.push(ser_extra(x));
                        }
                        idx
                    };
                    sst_index.insert((si, ri, ci), idx);
                }
            }
        }
    }
    if any_shared {
        let mut w = W::new(enc.prefix_sst, enc.pretty, enc.decl);
        let counts = if doc.sst.counts { format!(" count=\"{}\" uniqueCount=\"{}\"", sst_index.len(), sst.items.len()) } else { String::new() };
        let ns = w.root_ns();
        w.open("sst", &format!("{ns}{counts}"));
        for it in &sst.items {
            w.nl();
            w.raw(it);
        }
        w.close("sst");
        parts.push(("xl/sharedStrings.xml".into(), w.out.into_bytes()));
    }

    // ---- styles
    if let Some(st) = &doc.styles {
        let mut w = W::new(enc.prefix_styles, enc.pretty, enc.decl);
        let ns = w.root_ns();
        w.open("styleSheet", &ns);
        if !st.num_fmts.is_empty() {
            w.nl();
            w.open("numFmts", &format!(" count=\"{}\"", st.num_fmts.len()));
            for (id, code, _) in &st.num_fmts {
                // attribute order is free
                if (enc.sheet_ids / 4) % 2 == 1 {
                    w.empty("numFmt", &format!(" formatCode=\"{}\" numFmtId=\"{id}\"", esc_attr(code)));
                } else {
                    w.empty("numFmt", &format!(" numFmtId=\"{id}\" formatCode=\"{}\"", esc_attr(code)));
                }
            }
            w.close("numFmts");
        }
        w.nl();
        w.raw(&{
            let mut f = W::new(enc.prefix_styles, false, 0);
            f.open("fonts", " count=\"1\"");
            f.open("font", "");
            f.empty("sz", " val=\"11\"");
            f.empty("name", " val=\"Calibri\"");
            f.close("font");
            f.close("fonts");
            f.open("fills", " count=\"1\"");
            f.open("fill", "");
            f.empty("patternFill", " patternType=\"none\"");
            f.close("fill");
            f.close("fills");
            f.open("borders", " count=\"1\"");
            f.open("border", "");
            f.empty("left", "");
            f.empty("right", "");
            f.close("border");
            f.close("borders");
            f.out
        });
        if st.cell_style_xfs > 0 {
            w.nl();
            w.open("cellStyleXfs", &format!(" count=\"{}\"", st.cell_style_xfs));
            for i in 0..st.cell_style_xfs {
                // deliberately date-like ids: these are not cell formats
                w.empty("xf", &format!(" numFmtId=\"{}\" fontId=\"0\" fillId=\"0\" borderId=\"0\"", if i % 2 == 0 { 14 } else { 0 }));
            }
            w.close("cellStyleXfs");
        }
        w.nl();
        w.open("cellXfs", &format!(" count=\"{}\"", st.cell_xfs.len()));
        for (i, xf) in st.cell_xfs.iter().enumerate() {
            let nf = match xf {
                Some(id) => format!(" numFmtId=\"{id}\""),
                None => String::new(),
            };
            if i % 3 == 2 {
                w.open("xf", &format!("{nf} fontId=\"0\" fillId=\"0\" borderId=\"0\" xfId=\"0\" applyNumberFormat=\"1\" applyAlignment=\"1\""));
                w.empty("alignment", " horizontal=\"center\"");
                w.close("xf");
            } else {
                w.empty("xf", &format!(" fontId=\"0\"{nf} fillId=\"0\" borderId=\"0\" xfId=\"0\""));
            }
        }
        w.close("cellXfs");
        if st.dxf_decoy {
            w.nl();
            w.open("dxfs", " count=\"1\"");
            w.open("dxf", "");
            w.empty("numFmt", " numFmtId=\"164\" formatCode=\"yyyy-mm-dd\"");
            w.close("dxf");
            w.close("dxfs");
        }
        w.nl();
        w.close("styleSheet");
        parts.push(("xl/styles.xml".into(), w.out.into_bytes()));
    }

    // ---- workbook + relationships
    {
        let mut w = W::new(enc.prefix_workbook, enc.pretty, enc.decl);
        let ns = w.root_ns();
        w.open("workbook", &ns);
        w.nl();
        match doc.date1904 {
            Some(b) => {
                let v = match (b, enc.bool_words) {
                    (true, false) => "1",
                    (false, false) => "0",
                    (true, true) => "true",
                    (false, true) => "false",
                };
                w.empty("workbookPr", &format!(" date1904=\"{v}\" defaultThemeVersion=\"124226\""));
            }
            None => w.empty("workbookPr", " defaultThemeVersion=\"124226\""),
        }
        w.nl();
        w.open("sheets", "");
        for (i, s) in doc.sheets.iter().enumerate() {
            let state = match s.state {
                1 => " state=\"visible\"",
                2 => " state=\"hidden\"",
                3 => " state=\"veryHidden\"",
                _ => "",
            };
            w.nl();
            let n = doc.sheets.len();
            let sheet_id = match doc.enc.sheet_ids % 4 {
                0 => i + 1,
                1 => n - i,
                2 => 7 + 3 * i,
                _ => (i + 1) % n + 1,
            };
            // attribute order is free in XML: four of the 24 orders
            let (a_name, a_id, a_rid) = (format!(" name=\"{}\"", esc_attr(&s.name)), format!(" sheetId=\"{sheet_id}\""), format!(" r:id=\"rId{}\"", i + 1));
            let attrs = match (doc.enc.sheet_ids / 4) % 4 {
                0 => format!("{a_name}{a_id}{state}{a_rid}"),
                1 => format!("{a_name}{a_id}{a_rid}{state}"),
                2 => format!("{a_rid}{state}{a_id}{a_name}"),
                _ => format!("{state}{a_name}{a_rid}{a_id}"),
            };
            w.empty("sheet", &attrs);
        }
        w.close("sheets");
        if !doc.defined_names.is_empty() {
            w.nl();
            w.open("definedNames", "");
            for (n, v) in &doc.defined_names {
                // "name\u{1}k" = a sheet-scoped name (localSheetId = k): the same name may exist in several scopes
                if let Some((name, scope)) = n.split_once('\u{1}') {
                    w.open("definedName", &format!(" name=\"{}\" localSheetId=\"{scope}\"", esc_attr(name)));
                    w.raw(&esc_text(v, 0));
                    w.close("definedName");
                    continue;
                }
                w.open("definedName", &format!(" name=\"{}\"", esc_attr(n)));
                w.raw(&esc_text(v, 0));
                w.close("definedName");
            }
            w.close("definedNames");
        }
        w.nl();
        w.empty("calcPr", " calcId=\"145621\"");
        w.close("workbook");
        parts.push(("xl/workbook.xml".into(), w.out.into_bytes()));

        let mut r = String::new();
        if enc.decl >= 1 {
            r.push_str("<?xml version=\"1.0\" encoding=\"UTF-8\" standalone=\"yes\"?>\n");
        }
        r.push_str(&format!("<Relationships xmlns=\"{NS_PKG_REL}\">"));
        for (i, s) in doc.sheets.iter().enumerate() {
            let p = sheet_path(i, s.kind);
            let target = match enc.rel_target {
                0 => p["xl/".len()..].to_string(),
                1 => p.clone(),
                _ => format!("/{p}"),
            };
            let ty = match s.kind {
                0 => "worksheet",
                1 => "chartsheet",
                2 => "dialogsheet",
                _ => "xlMacrosheet",
            };
            r.push_str(&format!("<Relationship Id=\"rId{}\" Type=\"{NS_REL}/{ty}\" Target=\"{target}\"/>", i + 1));
        }
        let n = doc.sheets.len();
        r.push_str(&format!("<Relationship Id=\"rId{}\" Type=\"{NS_REL}/styles\" Target=\"styles.xml\"/>", n + 1));
        r.push_str(&format!("<Relationship Id=\"rId{}\" Type=\"{NS_REL}/sharedStrings\" Target=\"sharedStrings.xml\"/>", n + 2));
        r.push_str("</Relationships>");
        parts.push(("xl/_rels/workbook.xml.rels".into(), r.into_bytes()));
    }

    // ---- sheets
    let mut table_no = 0usize;
    for (si, sheet) in doc.sheets.iter().enumerate() {
        let path = sheet_path(si, sheet.kind);
        let mut w = W::new(enc.prefix_sheet, enc.pretty, enc.decl);
        let ns = w.root_ns();
        if sheet.kind == 1 {
            w.open("chartsheet", &ns);
            w.empty("sheetPr", "");
            w.open("sheetViews", "");
            w.empty("sheetView", " workbookViewId=\"0\"");
            w.close("sheetViews");
            w.close("chartsheet");
            parts.push((path, w.out.into_bytes()));
            continue;
        }
        let root = if sheet.kind == 2 { "dialogsheet" } else if sheet.kind == 3 { "macrosheet" } else { "worksheet" };
        w.open(root, &ns);
        if sheet.extras & 1 != 0 {
            w.nl();
            w.open("sheetPr", "");
            w.empty("pageSetUpPr", " fitToPage=\"1\"");
            w.close("sheetPr");
        }
        match &sheet.dimension {
            XDim::Absent => {}
            XDim::Exact => {
                let all: Vec<Pos> = sheet.rows.iter().flat_map(|r| r.cells.iter().map(move |c| (r.r, c.col))).collect();
                let bb = crate::model::value::bbox(all.iter());
                w.nl();
                w.empty("dimension", &format!(" ref=\"{}\"", bb.map_or("A1".to_string(), range_name)));
            }
            XDim::Custom(s) => {
                w.nl();
                w.empty("dimension", &format!(" ref=\"{s}\""));
            }
        }
        if sheet.extras & 2 != 0 {
            w.nl();
            w.open("sheetViews", "");
            w.open("sheetView", " tabSelected=\"1\" workbookViewId=\"0\"");
            w.empty("selection", " activeCell=\"A4\" sqref=\"A4\"");
            w.close("sheetView");
            w.close("sheetViews");
        }
        if sheet.extras & 4 != 0 {
            w.nl();
            w.empty("sheetFormatPr", " defaultRowHeight=\"15\"");
        }
        if sheet.extras & 8 != 0 {
            w.nl();
            w.open("cols", "");
            w.empty("col", " min=\"1\" max=\"3\" width=\"12.5\" customWidth=\"1\"");
            w.close("cols");
        }
        w.nl();
        w.open("sheetData", "");
        let mut implied_row: u32 = 0;
        for (ri, row) in sheet.rows.iter().enumerate() {
            // row reference
            let mut write_r = row.explicit;
            if !write_r {
                if row.r < implied_row || row.r - implied_row > 3 {
                    write_r = true;
                } else {
                    for _ in implied_row..row.r {
                        w.nl();
                        w.empty("row", "");
                    }
                }
            }
            let mut attrs = String::new();
            if write_r {
                attrs.push_str(&format!(" r=\"{}\"", row.r + 1));
            }
            if row.attrs {
                attrs.push_str(" spans=\"1:3\" ht=\"15\" customHeight=\"1\"");
            }
            w.nl();
            w.open("row", &attrs);
            implied_row = row.r + 1;
            let mut implied_col: u32 = 0;
            for (ci, cell) in row.cells.iter().enumerate() {
                let mut write_c = cell.explicit;
                if !write_c {
                    if cell.col < implied_col || cell.col - implied_col > 3 {
                        write_c = true;
                    } else {
                        for _ in implied_col..cell.col {
                            w.empty("c", "");
                        }
                    }
                }
                implied_col = cell.col + 1;
                let mut a = String::new();
                if write_c {
                    a.push_str(&format!(" r=\"{}\"", cell_name((row.r, cell.col))));
                }
                if let Some(s) = cell.style {
                    a.push_str(&format!(" s=\"{s}\""));
                }
                let t = match &cell.value {
                    XVal::None => None,
                    XVal::Num { typed, .. } => typed.then_some("n"),
                    XVal::Shared(_) => Some("s"),
                    XVal::Inline(_) => Some("inlineStr"),
                    XVal::Str(_) => Some("str"),
                    XVal::Bool(_) => Some("b"),
                    XVal::Err(_) => Some("e"),
                    XVal::Iso(_) => Some("d"),
                };
                if let Some(t) = t {
                    a.push_str(&format!(" t=\"{t}\""));
                }
                if cell.value == XVal::None && cell.formula.is_none() {
                    w.empty("c", &a);
                    continue;
                }
                w.open("c", &a);
                match &cell.formula {
                    None => {}
                    Some(XFormula::Plain(f)) => {
                        w.open("f", "");
                        w.raw(&esc_text(f, 0));
                        w.close("f");
                    }
                    Some(XFormula::SharedMaster { si, range, text }) => {
                        w.open("f", &format!(" t=\"shared\" ref=\"{}\" si=\"{si}\"", range_name(*range)));
                        w.raw(&esc_text(text, 0));
                        w.close("f");
                    }
                    Some(XFormula::SharedChild { si }) => {
                        w.empty("f", &format!(" t=\"shared\" si=\"{si}\""));
                    }
                }
                match &cell.value {
                    XVal::None => {}
                    XVal::Num { lex, .. } => {
                        w.open("v", "");
                        w.raw(lex);
                        w.close("v");
                    }
                    XVal::Shared(_) => {
                        w.open("v", "");
                        w.raw(&sst_index[&(si, ri, ci)].to_string());
                        w.close("v");
                    }
                    XVal::Inline(t) => {
                        w.open("is", "");
                        write_string_item(&mut w, t);
                        w.close("is");
                    }
                    XVal::Str(s) => {
                        w.open("v", "");
                        w.raw(&esc_text(s, 0));
                        w.close("v");
                    }
                    XVal::Bool(b) => {
                        w.open("v", "");
                        w.raw(if *b { "1" } else { "0" });
                        w.close("v");
                    }
                    XVal::Err(k) => {
                        w.open("v", "");
                        w.raw(&esc_text(ERR_LITERALS[*k as usize % 7], 0));
                        w.close("v");
                    }
                    XVal::Iso(s) => {
                        w.open("v", "");
                        w.raw(s);
                        w.close("v");
                    }
                }
                w.close("c");
            }
            w.close("row");
        }
        w.nl();
        w.close("sheetData");
        if sheet.extras & 32 != 0 {
            w.nl();
            w.open("conditionalFormatting", " sqref=\"A1:A3\"");
            w.open("cfRule", " type=\"cellIs\" priority=\"1\" operator=\"greaterThan\"");
            w.open("formula", "");
            w.raw("5");
            w.close("formula");
            w.close("cfRule");
            w.close("conditionalFormatting");
        }
        if !sheet.merges.is_empty() {
            w.nl();
            // count is optional
            if enc.sheet_ids % 3 == 2 {
                w.open("mergeCells", "");
            } else {
                w.open("mergeCells", &format!(" count=\"{}\"", sheet.merges.len()));
            }
            for m in &sheet.merges {
                w.empty("mergeCell", &format!(" ref=\"{}\"", range_name(*m)));
            }
            w.close("mergeCells");
        }
        if sheet.extras & 16 != 0 {
            w.nl();
            w.empty("pageMargins", " left=\"0.7\" right=\"0.7\" top=\"0.75\" bottom=\"0.75\" header=\"0.3\" footer=\"0.3\"");
        }
        if !sheet.tables.is_empty() {
            w.nl();
            w.open("tableParts", &format!(" count=\"{}\"", sheet.tables.len()));
            for i in 0..sheet.tables.len() {
                w.empty("tablePart", &format!(" r:id=\"rId{}\"", i + 1));
            }
            w.close("tableParts");
            // relationships of the sheet + table parts
            let mut r = format!("<Relationships xmlns=\"{NS_PKG_REL}\">");
            for (i, t) in sheet.tables.iter().enumerate() {
                table_no += 1;
                r.push_str(&format!("<Relationship Id=\"rId{}\" Type=\"{NS_REL}/table\" Target=\"../tables/table{table_no}.xml\"/>", i + 1));
                let mut tw = W::new(false, enc.pretty, enc.decl);
                let hdr = t.header_rows.map_or(String::new(), |h| format!(" headerRowCount=\"{h}\""));
                let tot = t.totals_rows.map_or(String::new(), |h| format!(" totalsRowCount=\"{h}\""));
                tw.open(
                    "table",
                    &format!(
                        " xmlns=\"{NS_MAIN}\" id=\"{table_no}\" name=\"{}\" displayName=\"{}\" ref=\"{}\"{hdr}{tot}",
                        esc_attr(&t.name),
                        esc_attr(&t.name),
                        range_name(t.range)
                    ),
                );
                if t.header_rows != Some(0) {
                    tw.empty("autoFilter", &format!(" ref=\"{}\"", range_name(t.range)));
                }
                tw.open("tableColumns", &format!(" count=\"{}\"", t.columns.len()));
                for (k, c) in t.columns.iter().enumerate() {
                    // column ids are labels (a column inserted later gets the next free id): position
                    // in the list is what orders the columns
                    let n = t.columns.len();
                    let id = match doc.enc.sheet_ids % 4 {
                        0 => k + 1,
                        1 => n - k,
                        2 => 7 + 3 * k,
                        _ => (k + 1) % n + 1,
                    };
                    tw.empty("tableColumn", &format!(" id=\"{}\" name=\"{}\"", id, esc_attr(c)));
                }
                tw.close("tableColumns");
                tw.empty("tableStyleInfo", " name=\"TableStyleMedium2\" showRowStripes=\"1\"");
                tw.close("table");
                parts.push((format!("xl/tables/table{table_no}.xml"), tw.out.into_bytes()));
            }
            r.push_str("</Relationships>");
            let file = path.rsplit('/').next().unwrap().to_string();
            let dir = &path[..path.len() - file.len() - 1];
            parts.push((format!("{dir}/_rels/{file}.rels"), r.into_bytes()));
        }
        w.nl();
        w.close(root);
        parts.push((path, w.out.into_bytes()));
    }

    if let Some(v) = &doc.vba {
        parts.push(("xl/vbaProject.bin".into(), v.clone()));
    }
    if enc.package_parts {
        let mut ct = String::from("<?xml version=\"1.0\" encoding=\"UTF-8\" standalone=\"yes\"?>\n<Types xmlns=\"http://schemas.openxmlformats.org/package/2006/content-types\"><Default Extension=\"rels\" ContentType=\"application/vnd.openxmlformats-package.relationships+xml\"/><Default Extension=\"xml\" ContentType=\"application/xml\"/><Override PartName=\"/xl/workbook.xml\" ContentType=\"application/vnd.openxmlformats-officedocument.spreadsheetml.sheet.main+xml\"/>");
        for (i, s) in doc.sheets.iter().enumerate() {
            ct.push_str(&format!("<Override PartName=\"/{}\" ContentType=\"application/vnd.openxmlformats-officedocument.spreadsheetml.worksheet+xml\"/>", sheet_path(i, s.kind)));
        }
        ct.push_str("</Types>");
        parts.insert(0, ("[Content_Types].xml".into(), ct.into_bytes()));
        parts.insert(
            1,
            (
                "_rels/.rels".into(),
                format!("<?xml version=\"1.0\" encoding=\"UTF-8\" standalone=\"yes\"?>\n<Relationships xmlns=\"{NS_PKG_REL}\"><Relationship Id=\"rId1\" Type=\"{NS_REL}/officeDocument\" Target=\"xl/workbook.xml\"/></Relationships>").into_bytes(),
            ),
        );
        parts.push(("docProps/app.xml".into(), b"<?xml version=\"1.0\" encoding=\"UTF-8\" standalone=\"yes\"?>\n<Properties xmlns=\"http://schemas.openxmlformats.org/officeDocument/2006/extended-properties\"><Application>cverif</Application></Properties>".to_vec()));
    }
    for (n, d) in &doc.extra_parts {
        parts.push((n.clone(), d.clone()));
    }
    // vbaProject.bin is looked up by exact name: keep the archive case for that part only
    let mut knobs = enc.zip.clone();
    if doc.vba.is_some() {
        knobs.name_case = 0;
    }
    (parts, knobs)
}

// ---------------------------------------------------------------------------------------------
// expected values (the documented mapping)

pub fn builtin_class(id: u32) -> u8 {
    match id {
        14..=22 | 45 | 47 => 1,
        46 => 2,
        _ => 0,
    }
}

/// class of the number format a cell style index refers to: 0 other, 1 date-time, 2 elapsed
pub fn style_class(doc: &XlsxDoc, style: Option<u32>) -> u8 {
    let (Some(st), Some(s)) = (&doc.styles, style) else { return 0 };
    match st.cell_xfs.get(s as usize) {
        Some(Some(id)) => match st.num_fmts.iter().find(|(i, _, _)| i == id) {
            Some((_, _, class)) => *class,
            None => builtin_class(*id),
        },
        _ => 0,
    }
}

pub fn expected_cell(doc: &XlsxDoc, cell: &XCell) -> Option<Exp> {
    match &cell.value {
        XVal::None => None,
        XVal::Num { lex, .. } => {
            let v: f64 = lex.parse().expect("generator writes parseable numbers");
            Some(match style_class(doc, cell.style) {
                0 => Exp::Float(v),
                c => Exp::DateTime { v, duration: c == 2, is_1904: doc.date1904 == Some(true) },
            })
        }
        XVal::Shared(t) | XVal::Inline(t) => Some(Exp::Str(t.text())),
        XVal::Str(s) => Some(Exp::Str(s.clone())),
        XVal::Bool(b) => Some(Exp::Bool(*b)),
        XVal::Err(k) => Some(Exp::Err(*k % 7)),
        XVal::Iso(s) => Some(Exp::DateTimeIso(s.clone())),
    }
}

pub fn expected_values(doc: &XlsxDoc, sheet: usize) -> BTreeMap<Pos, Exp> {
    let mut m = BTreeMap::new();
    for row in &doc.sheets[sheet].rows {
        for cell in &row.cells {
            if let Some(e) = expected_cell(doc, cell) {
                m.insert((row.r, cell.col), e);
            }
        }
    }
    m
}

#[cfg(test)]
mod tests {
    use super::*;
    #[test]
    fn names() {
        assert_eq!(col_name(0), "A");
        assert_eq!(col_name(25), "Z");
        assert_eq!(col_name(26), "AA");
        assert_eq!(col_name(701), "ZZ");
        assert_eq!(col_name(702), "AAA");
        assert_eq!(col_name(16383), "XFD");
        assert_eq!(cell_name((0, 0)), "A1");
    }
}
