#!/bin/bash
# tools/mut.sh "<python-replace: file|||old|||new>" ID [ID...] — apply a textual mutation to /repo, run quick checks, restore.
spec="$1"; shift
python3 - "$spec" <<'PY' || exit 3
import sys
f,old,new=sys.argv[1].split('|||')
p='/repo/'+f
s=open(p).read()
if s.count(old)<1:
    print("MUTATION TARGET NOT FOUND", old); sys.exit(1)
s=s.replace(old,new,1)
open(p,'w').write(s)
PY
for id in "$@"; do
  out=$(cd /verif && VERIF_SEED=${VERIF_SEED:-0} ./check $id 2>/dev/null | grep -v conda)
  if echo "$out" | grep -q "^VIOLATION"; then echo "  CAUGHT by $id: $(echo "$out" | grep -A2 '^VIOLATION' | sed -n 3p | cut -c1-200)"; else echo "  MISSED by $id: $(echo "$out" | tail -1 | cut -c1-160)"; fi
done
git -C /repo checkout -- . 
# remove replay files produced by the mutant
cd /verif && git status --porcelain replays | grep '^??' | awk '{print $2}' | xargs -r rm -rf
