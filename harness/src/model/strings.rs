//! String generators shared by the text properties (C12, C16, C19).

use proptest::prelude::*;

/// characters that exercise escaping, white-space handling and UTF-16 surrogates
fn interesting_char() -> impl Strategy<Value = char> {
    prop_oneof![
        6 => proptest::char::range('a', 'z'),
        2 => proptest::char::range('A', 'Z'),
        2 => proptest::char::range('0', '9'),
        4 => Just(' '),
        2 => prop_oneof![Just('&'), Just('<'), Just('>'), Just('"'), Just('\'')],
        1 => prop_oneof![Just('\t'), Just('\n')],
        1 => Just('\r'),
        2 => prop_oneof![Just('é'), Just('ß'), Just('Ж'), Just('中'), Just('\u{00A0}'), Just('\u{2028}'), Just('\u{FFFD}'), Just('\u{D7FF}'), Just('\u{E000}')],
        1 => prop_oneof![Just('\u{0301}'), Just('\u{200D}'), Just('\u{FE0F}')],
        2 => prop_oneof![Just('😀'), Just('𝄞'), Just('\u{10000}'), Just('\u{10FFFF}'), Just('\u{1F469}')],
        1 => prop_oneof![Just(';'), Just('#'), Just(']'), Just('['), Just('_'), Just('x'), Just('\\')],
        // Latin-1 upper half incl. the C1 controls U+0080..U+009F (what an 8-bit compressed BIFF string
        // must widen, not map through windows-1252)
        1 => proptest::char::range('\u{80}', '\u{ff}'),
    ]
}

/// only characters below U+0100: such a string can be stored one byte per character
fn latin1_char() -> impl Strategy<Value = char> {
    prop_oneof![3 => proptest::char::range('a', 'z'), 1 => Just(' '), 2 => proptest::char::range('\u{80}', '\u{9f}'), 2 => proptest::char::range('\u{a0}', '\u{ff}')]
}

/// Unicode strings valid in XML 1.0 (no C0 controls except TAB/LF/CR, no U+FFFE/U+FFFF)
pub fn xml_string(max_len: usize) -> impl Strategy<Value = String> {
    prop_oneof![
        8 => proptest::collection::vec(interesting_char(), 0..max_len.min(24)).prop_map(|v| v.into_iter().collect::<String>()),
        1 => proptest::collection::vec(latin1_char(), 1..max_len.clamp(2, 16)).prop_map(|v| v.into_iter().collect::<String>()),
        1 => Just("  leading and trailing  ".to_string()),
        1 => Just("\u{FEFF}bom first".to_string()),
        1 => Just("a  b   c".to_string()),
        1 => Just("]]>".to_string()),
        1 => Just("&amp;".to_string()),
        1 => Just("line1\nline2\r\nline3".to_string()),
        1 => proptest::collection::vec(interesting_char(), max_len.min(200)..=max_len).prop_map(|v| v.into_iter().collect::<String>()),
    ]
}

/// well-formed UTF-16 text for the binary formats (any scalar value incl. C0 controls except NUL)
pub fn utf16_string(max_len: usize) -> impl Strategy<Value = String> {
    prop_oneof![
        8 => xml_string(max_len),
        1 => prop_oneof![Just("\u{FFFE}x".to_string()), Just("\u{FEFF}".to_string()), Just("\u{BBEF}\u{BF}z".to_string()), Just("a\u{FEFF}b".to_string())],
        1 => proptest::collection::vec(prop_oneof![proptest::char::range('\u{1}', '\u{1f}'), Just('\u{7f}'), Just('\u{FFFE}'), Just('\u{FFFF}')], 1..4).prop_map(|v| v.into_iter().collect::<String>()),
    ]
}

pub fn has_edge_space(s: &str) -> bool {
    s.starts_with(char::is_whitespace) || s.ends_with(char::is_whitespace)
}

pub fn has_special(s: &str) -> bool {
    s.chars().any(|c| matches!(c, '&' | '<' | '>' | '"' | '\'') || (c as u32) > 0xFFFF)
}

/// split `s` at generated cut points (on char boundaries) into 1..=n pieces
pub fn split_at_cuts(s: &str, cuts: &[u16]) -> Vec<String> {
    let chars: Vec<char> = s.chars().collect();
    let mut idx: Vec<usize> = cuts.iter().map(|c| (*c as usize * (chars.len() + 1)) >> 16).collect();
    idx.sort();
    idx.dedup();
    let mut out = Vec::new();
    let mut prev = 0;
    for i in idx {
        out.push(chars[prev..i].iter().collect::<String>());
        prev = i;
    }
    out.push(chars[prev..].iter().collect::<String>());
    out
}
