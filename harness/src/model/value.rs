//! Expected cell values (harness-side mirror of calamine::Data) and comparison helpers.

use calamine::{CellErrorType, Data, DataRef, DataType, Range};
use serde::{Deserialize, Serialize};
use std::collections::BTreeMap;

pub type Pos = (u32, u32);

#[derive(Debug, Clone, PartialEq, Serialize, Deserialize)]
pub enum Exp {
    Int(i64),
    Float(f64),
    /// numeric, Int or Float accepted as long as the value is numerically equal
    Num(f64),
    Str(String),
    Bool(bool),
    /// index 0..7: Div0, NA, Name, Null, Num, Ref, Value, GettingData
    Err(u8),
    DateTime { v: f64, duration: bool, is_1904: bool },
    DateTimeIso(String),
    DurationIso(String),
}

pub const ERR_LITERALS: [&str; 7] = ["#DIV/0!", "#N/A", "#NAME?", "#NULL!", "#NUM!", "#REF!", "#VALUE!"];

pub fn err_kind(i: u8) -> CellErrorType {
    match i % 8 {
        0 => CellErrorType::Div0,
        1 => CellErrorType::NA,
        2 => CellErrorType::Name,
        3 => CellErrorType::Null,
        4 => CellErrorType::Num,
        5 => CellErrorType::Ref,
        6 => CellErrorType::Value,
        _ => CellErrorType::GettingData,
    }
}

fn feq(a: f64, b: f64) -> bool {
    a == b || a.to_bits() == b.to_bits() || (a.is_nan() && b.is_nan())
}

impl Exp {
    pub fn matches(&self, d: &Data) -> bool {
        match (self, d) {
            (Exp::Int(a), Data::Int(b)) => a == b,
            (Exp::Float(a), Data::Float(b)) => feq(*a, *b),
            (Exp::Num(a), Data::Float(b)) => feq(*a, *b),
            (Exp::Num(a), Data::Int(b)) => *a == *b as f64,
            (Exp::Str(a), Data::String(b)) => a == b,
            (Exp::Bool(a), Data::Bool(b)) => a == b,
            (Exp::Err(a), Data::Error(b)) => err_kind(*a) == *b,
            (Exp::DateTime { v, duration, is_1904 }, Data::DateTime(x)) => {
                // ExcelDateTime derives PartialEq over (value, kind, is_1904)
                let kind = if *duration { calamine::ExcelDateTimeType::TimeDelta } else { calamine::ExcelDateTimeType::DateTime };
                feq(*v, x.as_f64()) && *x == calamine::ExcelDateTime::new(x.as_f64(), kind, *is_1904)
            }
            (Exp::DateTimeIso(a), Data::DateTimeIso(b)) => a == b,
            (Exp::DurationIso(a), Data::DurationIso(b)) => a == b,
            _ => false,
        }
    }
    pub fn matches_ref(&self, d: &DataRef<'_>) -> bool {
        self.matches(&Data::from(d.clone()))
    }
}

/// tight bounding box of a set of positions
pub fn bbox<'a>(it: impl Iterator<Item = &'a Pos>) -> Option<(Pos, Pos)> {
    let mut b: Option<(Pos, Pos)> = None;
    for p in it {
        b = Some(match b {
            None => (*p, *p),
            Some((s, e)) => ((s.0.min(p.0), s.1.min(p.1)), (e.0.max(p.0), e.1.max(p.1))),
        });
    }
    b
}

/// Compare a returned value range with the expected sparse map: bounds = tight bounding box,
/// every position in the box = expected or Empty, used_cells = expected set.
pub fn check_range(got: &Range<Data>, expected: &BTreeMap<Pos, Exp>, what: &str) -> Result<(), String> {
    let bb = bbox(expected.keys());
    match bb {
        None => {
            if !got.is_empty() {
                return Err(format!("{what}: no non-empty cell expected, got a range {:?}..{:?}", got.start(), got.end()));
            }
            Ok(())
        }
        Some((s, e)) => {
            if got.start() != Some(s) || got.end() != Some(e) {
                return Err(format!(
                    "{what}: range bounds {:?}..{:?}, expected the bounding box of the non-empty cells {:?}..{:?}",
                    got.start(),
                    got.end(),
                    s,
                    e
                ));
            }
            let area = (e.0 - s.0 + 1) as u64 * (e.1 - s.1 + 1) as u64;
            if area <= 200_000 {
                for r in s.0..=e.0 {
                    for c in s.1..=e.1 {
                        let g = got.get_value((r, c));
                        match (expected.get(&(r, c)), g) {
                            (Some(x), Some(d)) if x.matches(d) => {}
                            (None, Some(Data::Empty)) => {}
                            (x, d) => return Err(format!("{what}: cell ({r},{c}): expected {:?}, got {:?}", x, d)),
                        }
                    }
                }
            }
            let used: Vec<(Pos, &Data)> = got.used_cells().map(|(r, c, d)| ((s.0 + r as u32, s.1 + c as u32), d)).collect();
            if used.len() != expected.len() {
                return Err(format!("{what}: {} non-empty cells returned, {} expected", used.len(), expected.len()));
            }
            for (p, d) in used {
                match expected.get(&p) {
                    Some(x) if x.matches(d) => {}
                    x => return Err(format!("{what}: cell {:?}: expected {:?}, got {:?}", p, x, d)),
                }
            }
            Ok(())
        }
    }
}

/// same for a borrowed range (worksheet_range_ref)
pub fn check_range_ref(got: &Range<DataRef<'_>>, expected: &BTreeMap<Pos, Exp>, what: &str) -> Result<(), String> {
    let bb = bbox(expected.keys());
    match bb {
        None => {
            if !got.is_empty() {
                return Err(format!("{what}: no non-empty cell expected, got a range {:?}..{:?}", got.start(), got.end()));
            }
            Ok(())
        }
        Some((s, e)) => {
            if got.start() != Some(s) || got.end() != Some(e) {
                return Err(format!("{what}: range bounds {:?}..{:?}, expected {:?}..{:?}", got.start(), got.end(), s, e));
            }
            let used: Vec<(Pos, &DataRef)> = got.used_cells().map(|(r, c, d)| ((s.0 + r as u32, s.1 + c as u32), d)).collect();
            if used.len() != expected.len() {
                return Err(format!("{what}: {} non-empty cells returned, {} expected", used.len(), expected.len()));
            }
            for (p, d) in used {
                match expected.get(&p) {
                    Some(x) if x.matches_ref(d) => {}
                    x => return Err(format!("{what}: cell {:?}: expected {:?}, got {:?}", p, x, d)),
                }
            }
            Ok(())
        }
    }
}

/// formula ranges: expected map of non-empty formula texts
pub fn check_formula_range(got: &Range<String>, expected: &BTreeMap<Pos, String>, what: &str) -> Result<(), String> {
    let bb = bbox(expected.keys());
    match bb {
        None => {
            if !got.is_empty() {
                return Err(format!("{what}: no formula expected, got a range {:?}..{:?}", got.start(), got.end()));
            }
            Ok(())
        }
        Some((s, e)) => {
            if got.start() != Some(s) || got.end() != Some(e) {
                return Err(format!("{what}: formula range bounds {:?}..{:?}, expected {:?}..{:?}", got.start(), got.end(), s, e));
            }
            let used: BTreeMap<Pos, &String> = got.used_cells().map(|(r, c, d)| ((s.0 + r as u32, s.1 + c as u32), d)).collect();
            for (p, x) in expected {
                match used.get(p) {
                    Some(g) if *g == x => {}
                    g => return Err(format!("{what}: formula at {:?}: expected {:?}, got {:?}", p, x, g)),
                }
            }
            if used.len() != expected.len() {
                let extra: Vec<_> = used.iter().filter(|(p, _)| !expected.contains_key(p)).take(3).collect();
                return Err(format!("{what}: {} formula cells returned, {} expected; unexpected: {:?}", used.len(), expected.len(), extra));
            }
            Ok(())
        }
    }
}

pub fn data_is_numeric(d: &Data) -> Option<f64> {
    match d {
        Data::Int(_) | Data::Float(_) => d.as_f64(),
        Data::DateTime(x) => Some(x.as_f64()),
        _ => None,
    }
}
