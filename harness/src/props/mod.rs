use crate::engine::{Ctx, Report};
use serde_json::Value;

pub struct Prop {
    pub id: &'static str,
    pub run: fn(&mut Ctx),
    pub replay: fn(&str, &Value) -> Option<Report>,
    /// how cases are generated and what makes one non-trivial (goes into the evidence file)
    pub rule: &'static str,
}

pub mod c01;
pub mod c02;
pub mod c03;
pub mod c04;
pub mod c05;
pub mod c06;
pub mod c07;
pub mod c08;
pub mod c09;
pub mod c10;
pub mod c11;
pub mod c12;
pub mod c13;
pub mod c14;
pub mod c15;
pub mod c16;
pub mod c17;
pub mod c18;
pub mod c19;
pub mod c20;

pub static PROPS: &[&Prop] = &[&c01::PROP, &c02::PROP, &c03::PROP, &c04::PROP, &c05::PROP, &c06::PROP, &c07::PROP, &c08::PROP, &c09::PROP, &c10::PROP, &c11::PROP, &c12::PROP, &c13::PROP, &c14::PROP, &c15::PROP, &c16::PROP, &c17::PROP, &c18::PROP, &c19::PROP, &c20::PROP];

pub fn lookup(id: &str) -> Option<&'static Prop> {
    PROPS.iter().copied().find(|p| p.id == id)
}
