//! C02 — XLS (BIFF8): every cell record reads back at its position with its value.

use crate::enc::biff8::*;
use crate::enc::cfb::CfbLayout;
use crate::engine::{guard, replay_as, Ctx, Report};
use crate::model::value::check_range;
use crate::props::Prop;
use calamine::{Reader, Xls};
use proptest::prelude::*;
use serde::{Deserialize, Serialize};
use std::collections::BTreeMap;
use std::io::Cursor;

pub static PROP: Prop = Prop {
    id: "C02",
    run,
    replay,
    rule: "BIFF8 workbooks written by the harness (globals + 1-2 sheet substreams inside a compound file): cells at rows 0..65535 x cols 0..255 (boundary-heavy origins, window <= 20x12) of kinds NUMBER, RK (int, int/100, float, float/100), MULRK (random grouping of adjacent RK cells), LABELSST, LABEL, BOOLERR (bool and all 8 error codes), FORMULA with cached double/bool/error/string(+STRING)/blank-string, BLANK, MULBLANK, with ROW/DBCELL/INDEX/WINDOW2/unknown records interleaved and an XF table; numbers are drawn so that every RK form is valid for a known share, and each numeric cell picks one of its valid encodings. Each workbook is read under its generated encodings AND under a second choice of encodings of the same numbers; both must equal the model (tight bounds, values). Thorough: all 2^32 RK words through the hook against a reference decoder. Non-trivial = >= 1 RK or MULRK cell and >= 3 record kinds; distinct by serialized case.",
};

#[derive(Debug, Clone, Serialize, Deserialize)]
pub enum LCell {
    /// value + index of the encoding to use among [NUMBER] + rk_encodings(value)
    Num(f64, u8),
    Sst(u32),
    Label(String, bool),
    Bool(bool),
    /// index into BERR
    Err(u8),
    Formula(FVal),
    Blank,
}

#[derive(Debug, Clone, Serialize, Deserialize)]
pub struct LSheet {
    pub name: String,
    /// (row, col, ixfe, cell) sorted by (row, col)
    pub cells: Vec<(u16, u16, u16, LCell)>,
    /// group adjacent RK cells into MULRK when the bit for the run is set
    pub mulrk: u32,
    pub dimensions: u8,
    pub junk: u8,
}

#[derive(Debug, Clone, Serialize, Deserialize)]
pub struct Case {
    pub sheets: Vec<LSheet>,
    pub strings: Vec<String>,
    pub xfs: Vec<u16>,
    pub junk: u8,
    pub codepage: bool,
    pub cfb: CfbLayout,
    /// rotation applied to every encoding index for the second reading
    pub alt: u8,
}

pub fn open_xls(bytes: Vec<u8>) -> Result<Xls<Cursor<Vec<u8>>>, String> {
    match guard(|| Xls::new(Cursor::new(bytes))) {
        Ok(Ok(x)) => Ok(x),
        Ok(Err(e)) => Err(format!("Xls::new failed on a well-formed workbook: {e:?}")),
        Err(p) => Err(format!("Xls::new: {p}")),
    }
}

// ---------------------------------------------------------------------------------------------

fn number() -> impl Strategy<Value = f64> {
    prop_oneof![
        3 => (-1000i32..1000).prop_map(|i| i as f64),
        2 => prop_oneof![Just(-536_870_912i32), Just(536_870_911), Just(-536_870_911), Just(-1), Just(-2), Just(-100), Just(-12_345_600), Just(5_368_709), Just(-5_368_709)].prop_map(|i| i as f64),
        1 => (-(1i32 << 29)..(1i32 << 29)).prop_map(|i| i as f64),
        3 => (-100_000i32..100_000).prop_map(|i| i as f64 / 100.0),
        1 => prop_oneof![Just(-536_870_912i32), Just(536_870_911), Just(-1), Just(-99), Just(-101)].prop_map(|i| i as f64 / 100.0),
        3 => any::<f64>().prop_filter("finite", |f| f.is_finite()).prop_map(|f| f64::from_bits(f.to_bits() & !0x3_FFFF_FFFF)),
        2 => (-1e6f64..1e6).prop_map(|f| f64::from_bits(f.to_bits() & !0x3_FFFF_FFFF)),
        1 => (-1e6f64..1e6).prop_map(|f| f64::from_bits(f.to_bits() & !0x3_FFFF_FFFF) / 100.0),
        2 => (-1e9f64..1e9),
        1 => any::<f64>().prop_filter("finite, not a formula marker", |f| f.is_finite() && (f.to_bits() >> 48) != 0xFFFF),
        1 => prop_oneof![Just(0.0f64), Just(0.5), Just(1e300), Just(-1e-300), Just(0.1), Just(1.0 / 3.0)],
    ]
}

/// inline text of LABEL / STRING records: the character count is a 16-bit field (lengths around
/// 255/256 and well beyond), one record holds up to 8224 bytes
fn inline_text() -> impl Strategy<Value = String> {
    prop_oneof![
        12 => "[a-zA-Zé ]{1,12}",
        1 => (proptest::sample::select(vec![255usize, 256, 257, 300, 1000, 4000]), "[a-zé]").prop_map(|(n, c)| c.repeat(n)),
    ]
}

fn lcell(n_strings: u32) -> impl Strategy<Value = LCell> {
    let fval = prop_oneof![
        3 => number().prop_filter("not a marker", |f| (f.to_bits() >> 48) != 0xFFFF).prop_map(FVal::Num),
        2 => (inline_text(), any::<bool>()).prop_map(|(s, w)| FVal::Str(s, w)),
        1 => any::<bool>().prop_map(FVal::Bool),
        1 => (0usize..8).prop_map(|k| FVal::Err(BERR[k].0)),
        1 => Just(FVal::EmptyStr),
    ];
    let sst = if n_strings > 0 { (0..n_strings).prop_map(LCell::Sst).boxed() } else { Just(LCell::Blank).boxed() };
    prop_oneof![
        8 => (number(), any::<u8>()).prop_map(|(v, e)| LCell::Num(v, e)),
        3 => sst,
        1 => (inline_text(), any::<bool>()).prop_map(|(s, w)| LCell::Label(s, w)),
        1 => any::<bool>().prop_map(LCell::Bool),
        1 => (0u8..8).prop_map(LCell::Err),
        2 => fval.prop_map(LCell::Formula),
        1 => Just(LCell::Blank),
    ]
}

fn sheet(name: String, n_strings: u32, n_xf: u16) -> impl Strategy<Value = LSheet> {
    let origin = (proptest::sample::select(vec![0u16, 0, 1, 100, 32767, 65516]), proptest::sample::select(vec![0u16, 0, 1, 25, 26, 200, 244]));
    // a few horizontal runs of numbers so that MULRK groupings occur often
    let runs = proptest::collection::vec((0u16..20, 0u16..7, proptest::collection::vec((number(), any::<u8>(), 0..n_xf), 2..6)), 0..3);
    (origin, proptest::collection::btree_map((0u16..20, 0u16..12), (lcell(n_strings), 0..n_xf), 0..40), runs, any::<u32>(), 0u8..3, any::<u8>()).prop_map(move |((r0, c0), mut cells, runs, mulrk, dimensions, junk)| {
        for (r, c, vals) in runs {
            for (k, (v, e, ixfe)) in vals.into_iter().enumerate() {
                cells.insert((r, c + k as u16), (LCell::Num(v, e), ixfe));
            }
        }
        LSheet { name: name.clone(), cells: cells.into_iter().map(|((r, c), (cell, ixfe))| (r0 + r, c0 + c, ixfe, cell)).collect(), mulrk, dimensions, junk }
    })
}

pub fn case_strategy() -> impl Strategy<Value = Case> {
    (proptest::collection::vec("[a-zA-Z0-9 éß]{1,12}", 0..6), 1usize..3).prop_flat_map(|(strings, n)| {
        let ns = strings.len() as u32;
        let names = ["Sheet1", "Données"];
        let sheets: Vec<_> = (0..n).map(|i| sheet(names[i].to_string(), ns, 5).boxed()).collect();
        (Just(strings), sheets, any::<u8>(), any::<bool>(), crate::props::c13::layout_strategy(), 1u8..5).prop_map(|(strings, sheets, junk, codepage, cfb, alt)| Case { sheets, strings, xfs: vec![0, 0, 2, 49, 14], junk, codepage, cfb, alt })
    })
}

/// physical document for a choice of encodings (`rot` rotates every encoding index)
pub fn build(case: &Case, rot: u8) -> XlsDoc {
    let mut sheets = vec![];
    for ls in &case.sheets {
        // first pass: one record per cell
        let mut cells: Vec<BCell> = vec![];
        for (row, col, ixfe, c) in &ls.cells {
            let rec = match c {
                LCell::Num(v, e) => {
                    let encs = rk_encodings(*v);
                    let k = (*e as usize + rot as usize) % (encs.len() + 1);
                    if k == 0 {
                        BRec::Number(*v)
                    } else {
                        BRec::Rk(encs[k - 1].1)
                    }
                }
                LCell::Sst(i) => BRec::LabelSst(*i),
                LCell::Label(t, w) => BRec::Label(t.clone(), *w),
                LCell::Bool(b) => BRec::Bool(*b),
                LCell::Err(k) => BRec::Err(BERR[*k as usize % 8].0),
                LCell::Formula(v) => BRec::Formula { value: v.clone(), rgce: vec![0x1E, 1, 0] },
                LCell::Blank => BRec::Blank,
            };
            cells.push(BCell { row: *row, col: *col, ixfe: *ixfe, rec });
        }
        // second pass: group runs of adjacent RK cells into MULRK
        let mut grouped: Vec<BCell> = vec![];
        let mut i = 0;
        let mut run_no = 0;
        while i < cells.len() {
            let mut j = i;
            while j + 1 < cells.len() && matches!(cells[j].rec, BRec::Rk(_)) && matches!(cells[j + 1].rec, BRec::Rk(_)) && cells[j + 1].row == cells[j].row && cells[j + 1].col == cells[j].col + 1 {
                j += 1;
            }
            if j > i {
                // a run of RK cells i..=j: cut it into groups
                let mut k = i;
                while k <= j {
                    let bit = (ls.mulrk.rotate_right(rot as u32) >> (run_no % 32)) & 1;
                    run_no += 1;
                    let len = if bit == 1 { (j - k + 1).min(2 + (run_no % 3)) } else { 1 };
                    if len >= 2 {
                        let v = cells[k..k + len].iter().map(|c| (c.ixfe, if let BRec::Rk(rk) = c.rec { rk } else { unreachable!() })).collect();
                        grouped.push(BCell { row: cells[k].row, col: cells[k].col, ixfe: 0, rec: BRec::MulRk(v) });
                    } else {
                        grouped.push(cells[k].clone());
                    }
                    k += len;
                }
                i = j + 1;
            } else {
                grouped.push(cells[i].clone());
                i += 1;
            }
        }
        // every cell record carries its own position: the rows of the cell table may come in any
        // order (Excel writes them ascending; other producers append). Half of the encodings keep
        // the ascending order, the others write the rows descending or rotated.
        let order_mode = ((ls.mulrk >> 28) as u8 ^ rot) % 4;
        if order_mode >= 2 {
            let mut rows: Vec<Vec<BCell>> = vec![];
            for c in grouped.drain(..) {
                match rows.last_mut() {
                    Some(r) if r[0].row == c.row => r.push(c),
                    _ => rows.push(vec![c]),
                }
            }
            if order_mode == 2 {
                rows.reverse();
            } else {
                let mid = rows.len() / 2;
                rows.rotate_left(mid);
            }
            grouped = rows.into_iter().flatten().collect();
        }
        sheets.push(BSheet { name: ls.name.clone(), name_wide: rot % 2 == 1, cells: grouped, dimensions: ls.dimensions, junk: ls.junk.rotate_left(rot as u32), ..Default::default() });
    }
    XlsDoc {
        sheets,
        // the second reading also cuts every other string in two CONTINUE segments of different packing
        sst: case
            .strings
            .iter()
            .enumerate()
            .map(|(i, s)| {
                let mut x = SstString { wide: rot % 2 == 1, ..SstString::plain(s) };
                let n = x.units.len();
                if rot != 0 && i % 2 == 1 && n >= 2 && !x.units.iter().any(|u| (0xD800..0xE000).contains(u)) {
                    x.segments = vec![((n / 2) as u16, i % 4 == 1), ((n - n / 2) as u16, i % 4 != 1)];
                }
                x
            })
            .collect(),
        xfs: case.xfs.clone(),
        junk: case.junk,
        codepage: case.codepage.then_some(1200),
        cfb: case.cfb.clone(),
        ..Default::default()
    }
}

pub fn read_and_check(doc: &XlsDoc, what: &str, rep: &mut Report) {
    let mut wb = match open_xls(encode(doc)) {
        Ok(w) => w,
        Err(e) => {
            rep.fail(format!("{what}: {e}"));
            return;
        }
    };
    for (i, s) in doc.sheets.iter().enumerate() {
        let expected = expected_values(doc, i);
        match guard(|| wb.worksheet_range(&s.name)) {
            Ok(Ok(r)) => {
                if let Err(e) = check_range(&r, &expected, &format!("{what}: worksheet_range({:?})", s.name)) {
                    rep.fail(e);
                    return;
                }
            }
            other => {
                rep.fail(format!("{what}: worksheet_range({:?}): {:?}", s.name, other.map(|r| r.map(|_| ()).map_err(|e| e.to_string()))));
                return;
            }
        }
    }
}

fn oracle(case: &Case) -> Report {
    let mut rep = Report::new();
    let doc = build(case, 0);
    read_and_check(&doc, "generated encodings", &mut rep);
    if rep.failed() {
        return rep;
    }
    let doc2 = build(case, case.alt);
    read_and_check(&doc2, "second choice of encodings for the same numbers", &mut rep);
    let mut kinds = std::collections::BTreeSet::new();
    let mut rk = false;
    for s in &doc.sheets {
        for c in &s.cells {
            let k = match &c.rec {
                BRec::Number(_) => "NUMBER",
                BRec::Rk(w) => {
                    rk = true;
                    ["RK:float", "RK:float/100", "RK:int", "RK:int/100"][(*w & 3) as usize]
                }
                BRec::MulRk(_) => {
                    rk = true;
                    "MULRK"
                }
                BRec::LabelSst(_) => "LABELSST",
                BRec::Label(..) => "LABEL",
                BRec::Bool(_) => "BOOLERR:bool",
                BRec::Err(_) => "BOOLERR:error",
                BRec::Formula { value, .. } => match value {
                    FVal::Num(_) => "FORMULA:number",
                    FVal::Str(..) => "FORMULA+STRING",
                    FVal::Bool(_) => "FORMULA:bool",
                    FVal::Err(_) => "FORMULA:error",
                    FVal::EmptyStr => "FORMULA:blank-string",
                },
                BRec::Blank => "BLANK",
                BRec::MulBlank(_) => "MULBLANK",
            };
            kinds.insert(k);
            rep.label(k);
            if let BRec::Rk(w) = c.rec {
                rep.label_if(w & 2 != 0 && (w as i32) < 0, "RK:negative-int");
            }
        }
    }
    rep.label(if case.cfb.v4 { "cfb:v4" } else { "cfb:v3" });
    for d in [&doc, &doc2] {
        let unordered = d.sheets.iter().any(|s| s.cells.windows(2).any(|w| w[1].row < w[0].row));
        rep.label_if(unordered, "rows:not-ascending");
    }
    rep.nontrivial = rk && kinds.len() >= 3;
    rep
}

// ---------------------------------------------------------------------------------------------
// exhaustive RK words through the hook

#[derive(Debug, Clone, Serialize, Deserialize)]
pub struct RkWord {
    pub rk: u32,
}

fn check_rk(rk: u32) -> Result<(), String> {
    let mut b = [0u8; 6];
    b[2..].copy_from_slice(&rk.to_le_bytes());
    let got = calamine::verif_hooks::rk_num(b);
    let (v, _) = rk_decode(rk);
    let ok = match (&got, rk & 3) {
        (calamine::Data::Int(i), 2) => *i as f64 == v,
        (calamine::Data::Int(i), 3) => *i as f64 == v,
        (calamine::Data::Float(f), 3) | (calamine::Data::Float(f), 0) | (calamine::Data::Float(f), 1) => *f == v || (f.is_nan() && v.is_nan()),
        _ => false,
    };
    if ok {
        Ok(())
    } else {
        Err(format!("RK word {rk:#010x} decodes to {got:?}, MS-XLS says {v:?} ({})", ["float", "float/100", "30-bit integer (Int)", "integer/100"][(rk & 3) as usize]))
    }
}

fn oracle_rk(w: &RkWord) -> Report {
    let mut rep = Report::new();
    match guard(|| check_rk(w.rk)) {
        Ok(Ok(())) => {}
        Ok(Err(e)) => rep.fail(e),
        Err(p) => rep.fail(format!("rk {:#x}: {p}", w.rk)),
    }
    rep.nontrivial = true;
    rep
}

fn rk_sweep(ctx: &mut Ctx, step: u64) {
    let threads = ctx.threads as u64;
    let fails: Vec<Option<(u32, String)>> = std::thread::scope(|sc| {
        let hs: Vec<_> = (0..threads)
            .map(|t| {
                sc.spawn(move || {
                    let mut rk = t * step;
                    let mut fail = None;
                    while rk <= u32::MAX as u64 {
                        if let Err(e) = check_rk(rk as u32) {
                            fail = Some((rk as u32, e));
                            break;
                        }
                        rk += threads * step;
                    }
                    fail
                })
            })
            .collect();
        hs.into_iter().map(|h| h.join().unwrap_or(None)).collect()
    });
    let n = (1u64 << 32).div_ceil(step);
    ctx.record_sweep(
        if step == 1 { "rk-exhaustive" } else { "rk-strided" },
        n,
        n,
        BTreeMap::new(),
        vec![serde_json::json!({"rk": "0xFFFFFFFE", "meaning": "int -1"}), serde_json::json!({"rk": "0x40590001", "meaning": "100.0/100"})],
        step == 1,
        &format!("RK words 0, {step}, {} ... through the decoding hook against the MS-XLS reference decoder (all four flag combinations, sign extension of the 30-bit payload)", 2 * step),
    );
    if let Some((rk, m)) = fails.into_iter().flatten().next() {
        ctx.report_violation("rk", &RkWord { rk }, &m);
    }
}

fn run(ctx: &mut Ctx) {
    let n = ctx.n(2500, 40_000);
    ctx.run("workbook", n, case_strategy, oracle);
    // shared-string indices beyond 16 bits: LABELSST carries a 32-bit index
    let n = ctx.n(1, 20);
    ctx.run("bigtable", n, || crate::props::c19::big_table().prop_map(|mut b| { b.fmt = 2; b }), crate::props::c19::oracle_big);
    // quick: every 1021st word (4.2 M words, all flag combinations); thorough: all 2^32
    rk_sweep(ctx, if ctx.quick() { 1021 } else { 1 });
    ctx.assumptions.push("cell records are written in row order (BIFF requirement); formula strings fit one STRING record; doubles whose top 16 bits are 0xFFFF (NaN payloads that collide with the FORMULA value markers) are not generated".into());
}

fn replay(sub: &str, case: &serde_json::Value) -> Option<Report> {
    match sub {
        "workbook" => replay_as::<Case>(case, oracle),
        "bigtable" => replay_as::<crate::props::c19::BigTable>(case, crate::props::c19::oracle_big),
        "rk" => replay_as::<RkWord>(case, oracle_rk),
        _ => None,
    }
}
