import struct
FREE=0xFFFFFFFF; EOC=0xFFFFFFFE; FATSECT=0xFFFFFFFD
def cfb(streams, version=3, root_name="Root Entry", storages=()):
    ss = 512 if version==3 else 4096
    # split mini / big
    mini = [(n,d) for n,d in streams if len(d)<4096]
    big  = [(n,d) for n,d in streams if len(d)>=4096]
    # ministream
    ministream=b''; minifat=[]; ministart={}
    for n,d in mini:
        if len(d)==0: ministart[n]=EOC; continue
        k=(len(d)+63)//64
        first=len(ministream)//64
        ministart[n]=first
        for i in range(k): minifat.append(first+i+1 if i<k-1 else EOC)
        ministream+=d+b'\0'*(k*64-len(d))
    sectors=[]  # list of bytes of size ss ; fat entries parallel
    fat=[]
    def add_chain(data):
        if len(data)==0: return EOC
        k=(len(data)+ss-1)//ss
        first=len(sectors)
        for i in range(k):
            sectors.append(data[i*ss:(i+1)*ss].ljust(ss,b'\0'))
            fat.append(first+i+1 if i<k-1 else EOC)
        return first
    bigstart={n:add_chain(d) for n,d in big}
    ministream_start=add_chain(ministream)
    mf=b''.join(struct.pack('<I',x) for x in minifat)
    if mf: mf=mf.ljust(((len(mf)+ss-1)//ss)*ss, b'\xff')
    minifat_start=add_chain(mf) if mf else EOC
    n_minifat=len(mf)//ss
    # directory
    ents=[]
    def ent(name,typ,start,size,child=FREE,left=FREE,right=FREE):
        nm=name.encode('utf-16le')+b'\0\0'
        e=nm.ljust(64,b'\0')+struct.pack('<H',len(nm))+bytes([typ,1])+struct.pack('<III',left,right,child)+b'\0'*16+b'\0'*4+b'\0'*16+struct.pack('<I',start)+struct.pack('<Q',size)
        assert len(e)==128
        return e
    names=[n for n,_ in streams]
    # simple right-leaning chain of siblings
    ents.append(ent(root_name,5,ministream_start,len(ministream),child=1 if names else FREE))
    for i,(n,d) in enumerate(streams):
        st = ministart[n] if len(d)<4096 else bigstart[n]
        ents.append(ent(n,2,st,len(d),right=(i+2 if i+1<len(streams) else FREE)))
    for s in storages:
        ents.append(ent(s,1,0,0))
    per=ss//128
    while len(ents)%per: ents.append(b'\0'*64+struct.pack('<H',0)+bytes([0,0])+struct.pack('<III',FREE,FREE,FREE)+b'\0'*(128-80))
    dirdata=b''.join(ents)
    dir_start=add_chain(dirdata)
    n_dir=len(dirdata)//ss
    # FAT sectors: need to cover len(sectors)+nfat
    per_fat=ss//4
    nfat=1
    while (len(sectors)+nfat)>nfat*per_fat: nfat+=1
    fat_start=len(sectors)
    for i in range(nfat): fat.append(FATSECT); sectors.append(None)
    fat_full=fat+[FREE]*(nfat*per_fat-len(fat))
    fb=b''.join(struct.pack('<I',x) for x in fat_full)
    for i in range(nfat): sectors[fat_start+i]=fb[i*ss:(i+1)*ss]
    assert nfat<=109
    hdr=bytes.fromhex('D0CF11E0A1B11AE1')+b'\0'*16+struct.pack('<HHHHH',0x3E,version,0xFFFE,9 if version==3 else 12,6)+b'\0'*6
    hdr+=struct.pack('<I', 0 if version==3 else n_dir)+struct.pack('<I',nfat)+struct.pack('<I',dir_start)+struct.pack('<I',0)+struct.pack('<I',4096)
    hdr+=struct.pack('<I',minifat_start)+struct.pack('<I',n_minifat)+struct.pack('<I',EOC)+struct.pack('<I',0)
    difat=[fat_start+i for i in range(nfat)]+[FREE]*(109-nfat)
    hdr+=b''.join(struct.pack('<I',x) for x in difat)
    assert len(hdr)==512
    hdr=hdr.ljust(ss,b'\0')
    return hdr+b''.join(sectors)
