//! C18 — VBA modules are extracted byte-exact from the compressed project.

use crate::enc::cfb::CfbLayout;
use crate::enc::ovba::*;
use crate::enc::{biff8 as b8, xlsb as bb, xlsx as xx};
use crate::engine::{guard, replay_as, Ctx, Report};
use crate::props::c13::layout_strategy;
use crate::props::Prop;
use calamine::vba::VbaProject;
use calamine::Reader;
use proptest::prelude::*;
use serde::{Deserialize, Serialize};

pub static PROP: Prop = Prop {
    id: "C18",
    run,
    replay,
    rule: "(container) sources of 0-5 chunks (lengths on 0,1,2,4095,4096,4097,8192 and uniform up to 20 KiB; incompressible bytes, VBA-like text, long runs with periods 1-7, mixtures) compressed by the harness under a generated tokenisation {literals only, greedy longest match, random legal choice of literal vs copy with random legal (offset,length) incl. overlapping copies and maximum lengths at every bit split, longest match with largest offset} with raw chunks for chosen full chunks; oracle: the decompression hook returns the source (the harness's own MS-OVBA decompressor must agree first). (project) dir stream with all mandatory records, 0-4 references of each kind, 1-6 modules (procedural/class, read-only/private flags), code pages 1252/932/1251, a performance-cache prefix before text_offset, wrapped by the C13 compound-file writer under a generated layout and delivered as vbaProject.bin directly, inside xlsx, inside xlsb and as _VBA_PROJECT_CUR in xls; oracle: module name set, raw bytes, decoded text, reference names. Non-trivial = >= 2 chunks and >= 1 copy token with length > offset; distinct by serialized case.",
};

#[derive(Debug, Clone, Serialize, Deserialize, PartialEq)]
pub struct SourceSpec {
    /// 0 incompressible, 1 VBA-like text, 2 long runs, 3 mixture, 4 blocks whose greedy compression fills a chunk to exactly 4096 data bytes
    pub kind: u8,
    pub len: u32,
    pub seed: u32,
}

pub fn source(s: &SourceSpec) -> Vec<u8> {
    let mut x = (s.seed as u64) << 13 | 0x51;
    let mut next = move || {
        x ^= x >> 12;
        x ^= x << 25;
        x ^= x >> 27;
        x.wrapping_mul(0x2545_F491_4F6C_DD1D)
    };
    if s.kind == 4 {
        // chunks whose greedy compression is exactly 4096 bytes of data (the largest size field,
        // 0xFFF): one literal, one copy of 457 bytes, 3638 literals = 3640 tokens, 455 flag bytes
        let mut out = vec![];
        for block in 0..(1 + s.len % 3) {
            let x = b'A' + (block as u8 % 20);
            out.extend(std::iter::repeat(x).take(458));
            let mut seen = std::collections::BTreeSet::new();
            let (mut p2, mut p1) = (x, x);
            for _ in 0..3638 {
                let mut c = (next() >> 32) as u8 & 0x7F;
                for _ in 0..50 {
                    if c != x && c != p1 && !seen.contains(&(p2, p1, c)) {
                        break;
                    }
                    c = (next() >> 32) as u8 & 0x7F;
                }
                seen.insert((p2, p1, c));
                out.push(c);
                p2 = p1;
                p1 = c;
            }
        }
        out.extend_from_slice(&b"End Sub\r\n".repeat((s.len % 40) as usize));
        return out;
    }
    let words: [&[u8]; 10] = [b"Sub ", b"End Sub\r\n", b"Dim x As Integer\r\n", b"MsgBox \"hi\"\r\n", b"    ", b"abcabcabc", b"Attribute VB_Name = \"Module1\"\r\n", b"x = x + 1\r\n", b"'", b"\r\n"];
    let mut out = Vec::with_capacity(s.len as usize + 64);
    while out.len() < s.len as usize {
        let kind = if s.kind == 3 { (next() % 3) as u8 } else { s.kind };
        match kind {
            0 => {
                for _ in 0..(1 + next() % 64) {
                    out.push((next() >> 32) as u8 & 0x7F);
                }
            }
            1 => out.extend_from_slice(words[(next() % 10) as usize]),
            _ => {
                let period = 1 + (next() % 7) as usize;
                let pat: Vec<u8> = (0..period).map(|_| b'a' + (next() % 26) as u8).collect();
                let n = 1 + (next() % 6000) as usize;
                for k in 0..n {
                    out.push(pat[k % period]);
                }
            }
        }
    }
    out.truncate(s.len as usize);
    out
}

fn source_strategy() -> impl Strategy<Value = SourceSpec> {
    let len = prop_oneof![3 => proptest::sample::select(vec![0u32, 1, 2, 3, 4095, 4096, 4097, 8191, 8192, 8193, 12288]), 3 => 0u32..600, 3 => 0u32..9000, 1 => 0u32..20480];
    (prop_oneof![12 => 0u8..4, 1 => Just(4u8)], len, any::<u32>()).prop_map(|(kind, len, seed)| SourceSpec { kind, len, seed })
}

pub fn tok_strategy() -> impl Strategy<Value = Tokenisation> {
    (prop_oneof![1 => Just(0u8), 3 => Just(1u8), 4 => Just(2u8), 2 => Just(3u8)], any::<u64>(), prop_oneof![3 => Just(0u8), 1 => any::<u8>()]).prop_map(|(mode, seed, raw_mask)| Tokenisation { mode, seed, raw_mask })
}

#[derive(Debug, Clone, Serialize, Deserialize)]
pub struct Container {
    pub src: SourceSpec,
    pub tok: Tokenisation,
}

fn oracle_container(c: &Container) -> Report {
    let mut rep = Report::new();
    let src = source(&c.src);
    let (packed, info) = compress(&src, &c.tok);
    if info.unrepresentable {
        rep.label("skipped:no-exact-encoding");
        return rep;
    }
    match decompress_ref(&packed) {
        Some(b) if b == src => {}
        _ => {
            rep.fail("HARNESS-SELF-CHECK: the harness decompressor does not invert the harness compressor");
            return rep;
        }
    }
    if src.is_empty() {
        // a container without chunks: nothing to decompress
        rep.label("empty-source");
    }
    match guard(|| calamine::verif_hooks::decompress_stream(&packed)) {
        Ok(Ok(b)) if b == src => {}
        Ok(Ok(b)) => {
            let first = b.iter().zip(&src).position(|(x, y)| x != y).unwrap_or(b.len().min(src.len()));
            rep.fail(format!("decompression returns {} bytes, the source has {}; first difference at offset {first} ({} chunks, {} raw, {} copy tokens)", b.len(), src.len(), info.chunks, info.raw_chunks, info.copy_tokens));
        }
        Ok(Err(e)) => rep.fail(format!("a valid compressed container ({} bytes of source, {} chunks) is rejected: {e}", src.len(), info.chunks)),
        Err(p) => rep.fail(format!("decompression of a valid container ({} bytes of source, {} chunks): {p}", src.len(), info.chunks)),
    }
    rep.label(["tokens:literals-only", "tokens:greedy", "tokens:random", "tokens:longest-far"][c.tok.mode as usize % 4]);
    // chunk headers: a compressed chunk with the largest size field (4096 data bytes)
    let mut i = 1;
    while i + 2 <= packed.len() {
        let h = u16::from_le_bytes([packed[i], packed[i + 1]]);
        rep.label_if(h & 0x8000 != 0 && h & 0x0FFF == 0x0FFF, "compressed-chunk-of-4096-data-bytes");
        i += 2 + (h & 0x0FFF) as usize + 1;
    }
    rep.label_if(info.raw_chunks > 0, "raw-chunk");
    rep.label_if(info.overlapping_copies > 0, "overlapping-copy");
    rep.label_if(info.max_length_copies > 0, "maximum-length-copy");
    rep.label_if(info.chunk_ends_on_full_group > 0, "chunk-ends-on-full-flag-group");
    rep.label_if(info.chunks >= 2, "multi-chunk");
    rep.nontrivial = info.chunks >= 2 && info.overlapping_copies > 0;
    rep
}

// ---------------------------------------------------------------------------------------------
// project

#[derive(Debug, Clone, Serialize, Deserialize)]
pub struct ModSpec {
    pub name: String,
    pub src: SourceSpec,
    pub text_offset: u32,
    pub flags: u8,
    pub tok: Tokenisation,
}

#[derive(Debug, Clone, Serialize, Deserialize)]
pub struct Project {
    pub codepage: u16,
    pub compat: bool,
    pub refs: Vec<VbaRef>,
    pub modules: Vec<ModSpec>,
    pub dir_tok: Tokenisation,
    pub layout: CfbLayout,
    /// 0 vbaProject.bin alone, 1 inside xlsx, 2 inside xlsb, 3 _VBA_PROJECT_CUR of an xls
    pub delivery: u8,
}

fn names_for(cp: u16) -> Vec<&'static str> {
    match cp {
        1251 => vec!["Module1", "ThisWorkbook", "Лист1", "Модуль2", "Sheet1", "Class1"],
        932 => vec!["Module1", "ThisWorkbook", "ｼｰﾄ1", "ﾓｼﾞｭｰﾙ2", "Sheet1", "Class1"],
        _ => vec!["Module1", "ThisWorkbook", "Tabelle1", "Übung2", "Sheet1", "Class1"],
    }
}

fn ref_strategy() -> impl Strategy<Value = VbaRef> {
    let libid = "*\\G{00020430-0000-0000-C000-000000000046}#2.0#0#C:\\Windows\\System32\\stdole2.tlb#OLE Automation";
    prop_oneof![
        (proptest::sample::select(vec!["stdole", "Office", "VBIDE"])).prop_map(move |n| VbaRef { name: n.to_string(), kind: RefKind::Registered { libid: libid.to_string() } }),
        (proptest::sample::select(vec!["OtherProject", "Lib2"])).prop_map(|n| VbaRef { name: n.to_string(), kind: RefKind::Project { absolute: "*\\CC:\\work\\other.xlsm".into(), relative: "*\\Cother.xlsm".into() } }),
        (proptest::sample::select(vec!["MSForms", "Ctl"]), any::<bool>(), any::<bool>()).prop_map(move |(n, orig, ext)| VbaRef {
            name: n.to_string(),
            kind: RefKind::Control {
                original: orig.then(|| "*\\G{0D452EE1-E08F-101A-852E-02608C4D0BB4}#2.0#0#C:\\Windows\\System32\\FM20.DLL#Microsoft Forms 2.0 Object Library".to_string()),
                twiddled: "*\\G{8A1E3B5F-0000-0000-0000-000000000000}#2.0#0#C:\\tmp\\MSForms.exd#Microsoft Forms 2.0 Object Library".to_string(),
                extended_name: ext.then(|| "MSFormsExt".to_string()),
                extended: libid.to_string(),
            },
        }),
    ]
}

fn project_strategy() -> impl Strategy<Value = Project> {
    (proptest::sample::select(vec![1252u16, 932, 1251]), any::<bool>(), proptest::collection::vec(ref_strategy(), 0..5), 1usize..7, tok_strategy(), layout_strategy(), 0u8..4).prop_flat_map(|(codepage, compat, refs, n, dir_tok, layout, delivery)| {
        let names = names_for(codepage);
        let mods: Vec<_> = (0..n).map(|i| (Just(names[i].to_string()), source_strategy(), prop_oneof![20 => Just(0u32), 20 => 1u32..300, 1 => proptest::sample::select(vec![65_535u32, 65_536, 70_001])], any::<u8>(), tok_strategy()).prop_map(|(name, src, text_offset, flags, tok)| ModSpec { name, src, text_offset, flags, tok }).boxed()).collect();
        (Just((codepage, compat, refs, dir_tok, layout, delivery)), mods).prop_map(|((codepage, compat, mut refs, dir_tok, layout, delivery), modules)| {
            // reference names are unique in a project
            let mut seen = std::collections::BTreeSet::new();
            refs.retain(|r| seen.insert(r.name.clone()));
            Project { codepage, compat, refs, modules, dir_tok, layout, delivery }
        })
    })
}

fn desc(p: &Project) -> VbaProjectDesc {
    VbaProjectDesc {
        codepage: p.codepage,
        compat_version: p.compat,
        refs: p.refs.clone(),
        modules: p
            .modules
            .iter()
            .map(|m| {
                // module text is ASCII plus the code page's upper half mapped back through mbcs()
                let mut source = source(&m.src);
                if m.flags & 8 != 0 && !source.is_empty() {
                    let hi = match p.codepage {
                        1251 => 0xC0,
                        932 => 0xB1,
                        _ => 0xE9,
                    };
                    source[0] = hi;
                    // code page 1252 also has printable characters in 0x80..0x9F (euro sign, dashes,
                    // curly quotes): not Latin-1
                    if p.codepage == 1252 && source.len() >= 2 {
                        source[1] = 0x80 + (m.flags >> 3) % 32;
                    }
                }
                if m.flags & 64 != 0 && p.codepage != 932 && source.len() >= 3 {
                    // module text that begins with the bytes of a byte-order mark (a file saved as
                    // UTF-8 with BOM and imported: "ï»¿" in 1252; FF FE is "ÿþ" / "яю"): code-page
                    // text all the same
                    if m.flags & 128 != 0 && p.codepage == 1252 {
                        source[..3].copy_from_slice(&[0xEF, 0xBB, 0xBF]);
                    } else {
                        source[..2].copy_from_slice(&[0xFF, 0xFE]);
                    }
                }
                if m.flags & 32 != 0 && p.codepage != 1251 {
                    // content that happens to be valid UTF-8 although it is code-page text: the bytes
                    // C2 A9 are "Â©" in code page 1252, C3 BD two half-width katakana in 932
                    let pair: [u8; 2] = if p.codepage == 932 { [0xC3, 0xBD] } else { [0xC2, 0xA9] };
                    source = b"Sub Copyright()\r\n    MsgBox \"".to_vec();
                    source.extend_from_slice(&pair);
                    source.extend_from_slice(b" 2020\"\r\nEnd Sub\r\n");
                }
                VbaModule { name: m.name.clone(), stream_name: if m.flags & 16 != 0 { format!("{}_s", m.name) } else { m.name.clone() }, source, text_offset: m.text_offset, class: m.flags & 1 != 0, read_only: m.flags & 2 != 0, private: m.flags & 4 != 0, tok: m.tok }
            })
            .collect(),
        dir_tok: p.dir_tok,
    }
}

fn check_project(v: &VbaProject, d: &VbaProjectDesc, what: &str, rep: &mut Report) {
    let mut expected: Vec<&str> = d.modules.iter().map(|m| m.name.as_str()).collect();
    expected.sort();
    let mut got = v.get_module_names();
    got.sort();
    if got != expected {
        rep.fail(format!("{what}: module names {got:?}, expected {expected:?}"));
        return;
    }
    for m in &d.modules {
        match v.get_module_raw(&m.name) {
            Ok(b) if b == m.source.as_slice() => {}
            Ok(b) => {
                let first = b.iter().zip(&m.source).position(|(x, y)| x != y).unwrap_or(b.len().min(m.source.len()));
                rep.fail(format!("{what}: module {:?}: {} raw bytes, the source has {}; first difference at offset {first}", m.name, b.len(), m.source.len()));
                return;
            }
            Err(e) => {
                rep.fail(format!("{what}: get_module_raw({:?}): {e}", m.name));
                return;
            }
        }
        match v.get_module(&m.name) {
            Ok(t) if t == mbcs_decode(&m.source, d.codepage) => {}
            other => {
                rep.fail(format!("{what}: get_module({:?}) is not the source decoded with code page {}: {:?}", m.name, d.codepage, other.map(|s| s.chars().take(40).collect::<String>())));
                return;
            }
        }
    }
    if v.get_module_raw("\u{1}no such module").is_ok() {
        rep.fail(format!("{what}: an unknown module name returns a module"));
        return;
    }
    let got: Vec<&str> = v.get_references().iter().map(|r| r.name.as_str()).collect();
    let expected: Vec<&str> = d.refs.iter().map(|r| r.name.as_str()).collect();
    if got != expected {
        rep.fail(format!("{what}: reference names {got:?}, expected {expected:?}"));
    }
}

fn oracle_project(p: &Project) -> Report {
    let mut rep = Report::new();
    let d = desc(p);
    // encoder self-check: every container round-trips through the harness decompressor
    for m in &d.modules {
        let (c, ci) = compress(&m.source, &m.tok);
        if ci.unrepresentable {
            rep.label("skipped:no-exact-encoding");
            return rep;
        }
        if decompress_ref(&c).as_deref() != Some(m.source.as_slice()) {
            rep.fail("HARNESS-SELF-CHECK: module container does not round-trip through the harness decompressor");
            return rep;
        }
    }
    let (file, info) = project_file(&d, &p.layout);
    let what;
    let r: Result<Option<Result<VbaProject, String>>, String> = match p.delivery % 4 {
        0 => {
            what = "vbaProject.bin";
            guard(|| Some(VbaProject::new(&mut std::io::Cursor::new(&file), file.len()).map_err(|e| e.to_string())))
        }
        1 => {
            what = "xlsm";
            let doc = xx::XlsxDoc { sheets: vec![xx::XSheet { name: "S".into(), ..Default::default() }], vba: Some(file.clone()), ..Default::default() };
            guard(|| crate::props::c01::open_xlsx(xx::encode(&doc)).ok().and_then(|mut wb| wb.vba_project().map(|r| r.map(|c| c.into_owned()).map_err(|e| e.to_string()))))
        }
        2 => {
            what = "xlsb";
            let doc = bb::XlsbDoc { sheets: vec![bb::BbSheet { name: "S".into(), ..Default::default() }], vba: Some(file.clone()), ..Default::default() };
            guard(|| crate::props::c03::open_xlsb(bb::encode(&doc)).ok().and_then(|mut wb| wb.vba_project().map(|r| r.map(|c| c.into_owned()).map_err(|e| e.to_string()))))
        }
        _ => {
            what = "xls (_VBA_PROJECT_CUR)";
            let (streams, _) = project_streams(&d, &["_VBA_PROJECT_CUR".to_string()]);
            let doc = b8::XlsDoc { sheets: vec![b8::BSheet { name: "S".into(), cells: vec![b8::BCell { row: 0, col: 0, ixfe: 0, rec: b8::BRec::Number(1.0) }], ..Default::default() }], xfs: vec![0], extra_streams: streams, cfb: p.layout.clone(), ..Default::default() };
            guard(|| match crate::props::c02::open_xls(b8::encode(&doc)) {
                Ok(mut wb) => wb.vba_project().map(|r| r.map(|c| c.into_owned()).map_err(|e| e.to_string())),
                Err(e) => Some(Err(e)),
            })
        }
    };
    match r {
        Ok(Some(Ok(v))) => check_project(&v, &d, what, &mut rep),
        Ok(Some(Err(e))) => rep.fail(format!("{what}: the VBA project cannot be read: {e}")),
        Ok(None) => rep.fail(format!("{what}: vba_project() returns None although the workbook embeds a project")),
        Err(p) => rep.fail(format!("{what}: {p}")),
    }
    rep.label(format!("delivery:{what}"));
    rep.label(format!("codepage:{}", p.codepage));
    rep.label_if(info.compress.chunk_ends_on_full_group > 0, "chunk-ends-on-full-flag-group");
    rep.label_if(info.compress.raw_chunks > 0, "raw-chunk");
    rep.label_if(p.modules.iter().any(|m| m.text_offset > 0), "performance-cache-prefix");
    rep.label_if(!p.refs.is_empty(), "references");
    rep.label_if(p.refs.iter().any(|r| matches!(r.kind, RefKind::Control { .. })), "reference:control");
    rep.nontrivial = info.compress.chunks > p.modules.len() && info.compress.overlapping_copies > 0;
    rep
}

fn run(ctx: &mut Ctx) {
    let n = ctx.n(4000, 400_000);
    ctx.run_fast("container", n, || (source_strategy(), tok_strategy()).prop_map(|(src, mut tok)| {
        if src.kind == 4 {
            tok.mode = 1;
            tok.raw_mask = 0;
        }
        Container { src, tok }
    }), oracle_container);
    let n = ctx.n(600, 15_000);
    ctx.run("project", n, project_strategy, oracle_project);
    ctx.assumptions.push("module and stream names and module text use ASCII plus characters whose code-page byte is the same in every table version (Latin-1 upper half / Cyrillic / half-width katakana); stream names equal module names or carry a suffix".into());
}

fn replay(sub: &str, case: &serde_json::Value) -> Option<Report> {
    match sub {
        "container" => replay_as::<Container>(case, oracle_container),
        "project" => replay_as::<Project>(case, oracle_project),
        _ => None,
    }
}
