//! libFuzzer target for C06 (raw bytes: compound files, xls, and whatever survives the zip layer).
//! The oracle inside the target is "every call returns": a panic (overflow checks and debug
//! assertions are on) aborts, an allocation above -malloc_limit_mb or a run above -timeout is
//! reported by libFuzzer. Saved artifacts are classified afterwards by the harness (`check C06`),
//! which knows the recorded findings.
#![no_main]
mod common;
use libfuzzer_sys::fuzz_target;

fuzz_target!(|bytes: &[u8]| {
    common::exercise(bytes);
});
