// independent encoders
