//! C15 — XLSX shared formulas expand to the translated formula of each member cell.

use crate::enc::xlsx::*;
use crate::engine::{guard, replay_as, Ctx, Report};
use crate::model::formula::{features, render, shift, CellRef, Expr, Features, MAX_COL, MAX_ROW};
use crate::model::value::{check_formula_range, Pos};
use crate::props::c01::{enc_strategy, open_xlsx};
use crate::props::Prop;
use calamine::Reader;
use proptest::prelude::*;
use serde::{Deserialize, Serialize};
use std::collections::BTreeMap;

pub static PROP: Prop = Prop {
    id: "C15",
    run,
    replay,
    rule: "1-4 shared-formula groups per sheet (column / row / block shape, master at the top-left corner of ref, si ascending with gaps) among ordinary formulas and constants; master = generated AST over relative/absolute/mixed cell and area references (all columns, boundary-heavy), sheet-qualified references incl. quoted, cell-like ('Q1') and non-ASCII sheet names, function names with digits (LOG10, ATAN2, DEC2BIN), defined names with digits, numbers incl. 1E5, strings containing cell-like text, doubled quotes and non-ASCII. Expected member text = render(shift(AST, member - master)): only relative components move. Oracle: worksheet_formula has exactly these texts at these positions. Non-trivial = (a mixed reference or a cell-like non-reference token) and a non-column group shape; distinct by serialized case.",
};

#[derive(Debug, Clone, Serialize, Deserialize)]
pub struct Group {
    pub si: u32,
    pub at: Pos,
    pub h: u32,
    pub w: u32,
    pub ast: Expr,
}

#[derive(Debug, Clone, Serialize, Deserialize)]
pub struct Case {
    pub groups: Vec<Group>,
    pub plain: Vec<(Pos, Expr)>,
    pub consts: Vec<Pos>,
    pub enc: XEnc,
}

// ---------------------------------------------------------------------------------------------
// AST generator

fn cell_ref() -> impl Strategy<Value = CellRef> {
    // relative components keep a margin of 30 to the sheet edge so that every member's translation
    // stays inside the sheet; absolute components never move and may sit on the last row / column
    let row = |abs: bool| {
        if abs {
            prop_oneof![3 => 0u32..200, 1 => Just(0u32), 1 => Just(65_535u32), 2 => Just(MAX_ROW), 1 => Just(MAX_ROW - 1), 1 => 0u32..=MAX_ROW].boxed()
        } else {
            prop_oneof![3 => 0u32..200, 1 => Just(0u32), 1 => Just(65_535u32), 1 => Just(MAX_ROW - 30), 1 => 0u32..(MAX_ROW - 30)].boxed()
        }
    };
    let col = |abs: bool| {
        if abs {
            prop_oneof![3 => 0u32..30, 1 => Just(25u32), 1 => Just(26u32), 1 => Just(701u32), 1 => Just(702u32), 2 => Just(MAX_COL), 1 => 0u32..=MAX_COL].boxed()
        } else {
            prop_oneof![3 => 0u32..30, 1 => Just(25u32), 1 => Just(26u32), 1 => Just(701u32), 1 => Just(702u32), 1 => Just(MAX_COL - 30), 1 => 0u32..(MAX_COL - 30)].boxed()
        }
    };
    (any::<bool>(), any::<bool>()).prop_flat_map(move |(abs_row, abs_col)| (row(abs_row), col(abs_col)).prop_map(move |(row, col)| CellRef { row, col, abs_row, abs_col }))
}

fn sheet_name() -> impl Strategy<Value = Option<String>> {
    prop_oneof![
        6 => Just(None),
        1 => Just(Some("Data".to_string())),
        1 => Just(Some("Sheet2".to_string())),
        1 => Just(Some("My Sheet".to_string())),
        1 => Just(Some("Q1".to_string())),
        1 => Just(Some("AB12".to_string())),
        1 => Just(Some("Übersicht".to_string())),
        1 => Just(Some("Données".to_string())),
        1 => prop_oneof![Just(Some("~Q1".to_string())), Just(Some("~FY21".to_string()))],
        1 => Just(Some("日本 語".to_string())),
        1 => Just(Some("It's".to_string())),
    ]
}

fn leaf() -> impl Strategy<Value = Expr> {
    prop_oneof![
        6 => (sheet_name(), cell_ref()).prop_map(|(s, c)| Expr::Ref(s, c)),
        3 => (sheet_name(), cell_ref(), 0u32..5, 0u32..5).prop_map(|(s, a, dr, dc)| {
            let b = CellRef { row: (a.row + dr).min(if a.abs_row { MAX_ROW } else { MAX_ROW - 30 }), col: (a.col + dc).min(if a.abs_col { MAX_COL } else { MAX_COL - 30 }), abs_row: a.abs_row, abs_col: a.abs_col };
            Expr::Area(s, a, b)
        }),
        1 => proptest::sample::select(vec!["Rate_2023", "Tax.Rate1", "XYZZY9", "_x1", "Total", "ABCD1", "Größe", "Données_2", "合計", "Année2020", "Coût1", "Señal3"]).prop_map(|s| Expr::Name(s.to_string())),
        2 => proptest::sample::select(vec!["1", "2.5", "100", "1E5", "1.5E-3", "0.25", "3E+10"]).prop_map(|s| Expr::Num(s.to_string())),
        2 => proptest::sample::select(vec!["", "a", "A1", "see B2:C3", "x\"y", "é", "R1C1 $A$1", "it's 'B7'", "日本 C3"]).prop_map(|s| Expr::Str(s.to_string())),
        1 => any::<bool>().prop_map(Expr::Bool),
        1 => (0u8..7).prop_map(Expr::Err),
    ]
}

pub fn expr() -> impl Strategy<Value = Expr> {
    leaf().prop_recursive(3, 12, 3, |inner| {
        prop_oneof![
            4 => (proptest::sample::select(vec!["+", "-", "*", "/", "^", "&", "=", "<>", "<=", ">=", "<", ">"]), inner.clone(), inner.clone()).prop_map(|(op, l, r)| Expr::Bin(op.to_string(), Box::new(l), Box::new(r))),
            1 => inner.clone().prop_map(|x| Expr::Neg(Box::new(x))),
            1 => inner.clone().prop_map(|x| Expr::Percent(Box::new(Expr::Paren(Box::new(x))))),
            1 => inner.clone().prop_map(|x| Expr::Paren(Box::new(x))),
            4 => (proptest::sample::select(vec!["SUM", "IF", "MAX", "LOG10", "ATAN2", "DEC2BIN", "IFERROR", "VLOOKUP", "SUMIF", "T", "BIN2HEX", "DAYS360"]), proptest::collection::vec(inner, 1..4)).prop_map(|(n, args)| Expr::Func(n.to_string(), args)),
        ]
    })
}

pub fn case_strategy() -> impl Strategy<Value = Case> {
    let origin = (proptest::sample::select(vec![0u32, 0, 5, 100, 5000]), proptest::sample::select(vec![0u32, 0, 1, 24, 700]));
    let group = (0u32..5, 0u32..6, prop_oneof![2 => (2u32..7, Just(1u32)), 2 => (Just(1u32), 2u32..7), 3 => (2u32..6, 2u32..6)], expr(), 0u32..3);
    (origin, proptest::collection::vec(group, 1..5), proptest::collection::vec((0u32..5, 0u32..8, expr()), 0..4), proptest::collection::vec((0u32..4, 0u32..8), 0..4), enc_strategy(), any::<bool>()).prop_map(|((r0, c0), gs, ps, cs, enc, side_by_side)| {
        let mut si = 0;
        let mut groups = vec![];
        for (k, (jr, jc, (h, w), ast, gap)) in gs.into_iter().enumerate() {
            si += gap;
            // either one group per 40-row band, or all groups next to each other in the first band
            // (12 columns apart) so that groups of different extents share rows
            let at = if side_by_side { (r0 + jr, c0 + k as u32 * 12 + jc) } else { (r0 + k as u32 * 40 + jr, c0 + jc) };
            groups.push(Group { si, at, h, w, ast });
            si += 1;
        }
        // ordinary formulas and constants live in the lower part of each 40-row band
        let mut used = std::collections::BTreeSet::new();
        let mut plain = vec![];
        for (i, (jr, jc, e)) in ps.into_iter().enumerate() {
            let p = (r0 + (i as u32 % 4) * 40 + 20 + jr, c0 + jc);
            if used.insert(p) {
                plain.push((p, e));
            }
        }
        let mut consts = vec![];
        for (i, (jr, jc)) in cs.into_iter().enumerate() {
            let p = (r0 + (i as u32 % 4) * 40 + 30 + jr, c0 + jc);
            if used.insert(p) {
                consts.push(p);
            }
        }
        Case { groups, plain, consts, enc }
    })
}

// ---------------------------------------------------------------------------------------------

pub fn build(case: &Case) -> (XlsxDoc, BTreeMap<Pos, String>) {
    let mut cells: BTreeMap<Pos, XCell> = BTreeMap::new();
    let mut expected: BTreeMap<Pos, String> = BTreeMap::new();
    let num = || XVal::Num { lex: "0".into(), typed: false };
    for g in &case.groups {
        for dr in 0..g.h {
            for dc in 0..g.w {
                let p = (g.at.0 + dr, g.at.1 + dc);
                let formula = if (dr, dc) == (0, 0) {
                    XFormula::SharedMaster { si: g.si, range: (g.at, (g.at.0 + g.h - 1, g.at.1 + g.w - 1)), text: render(&g.ast) }
                } else {
                    XFormula::SharedChild { si: g.si }
                };
                cells.insert(p, XCell { col: p.1, explicit: true, style: None, value: num(), formula: Some(formula) });
                expected.insert(p, render(&shift(&g.ast, dr as i64, dc as i64)));
            }
        }
    }
    for (p, e) in &case.plain {
        cells.insert(*p, XCell { col: p.1, explicit: true, style: None, value: num(), formula: Some(XFormula::Plain(render(e))) });
        expected.insert(*p, render(e));
    }
    for p in &case.consts {
        cells.insert(*p, XCell { col: p.1, explicit: true, style: None, value: XVal::Num { lex: "7".into(), typed: false }, formula: None });
    }
    let mut rows: BTreeMap<u32, Vec<XCell>> = BTreeMap::new();
    for (p, c) in cells {
        rows.entry(p.0).or_default().push(c);
    }
    let rows = rows.into_iter().map(|(r, cells)| XRow { r, explicit: true, attrs: false, cells }).collect();
    let doc = XlsxDoc { sheets: vec![XSheet { name: "F".into(), rows, dimension: XDim::Exact, ..Default::default() }], enc: case.enc.clone(), ..Default::default() };
    (doc, expected)
}

fn oracle(case: &Case) -> Report {
    let mut rep = Report::new();
    let (doc, expected) = build(case);
    let mut wb = match open_xlsx(encode(&doc)) {
        Ok(w) => w,
        Err(e) => {
            rep.fail(e);
            return rep;
        }
    };
    match guard(|| wb.worksheet_formula("F")) {
        Ok(Ok(r)) => {
            if let Err(e) = check_formula_range(&r, &expected, "worksheet_formula") {
                rep.fail(e);
            }
        }
        Ok(Err(e)) => rep.fail(format!("worksheet_formula failed: {e:?}")),
        Err(p) => rep.fail(format!("worksheet_formula: {p}")),
    }
    let mut nt = false;
    for g in &case.groups {
        let mut f = Features::default();
        features(&g.ast, &mut f);
        let cell_like = f.func_with_digits || f.cell_like_name || f.cell_like_string || f.exp_number || f.quoted_sheet;
        rep.label_if(f.mixed_ref, "mixed-reference");
        rep.label_if(f.abs_ref, "absolute-reference");
        rep.label_if(f.sheet_ref, "sheet-qualified");
        rep.label_if(f.quoted_sheet, "quoted-sheet-name");
        rep.label_if(f.func_with_digits, "function-name-with-digits");
        rep.label_if(f.cell_like_name, "defined-name-with-digits");
        rep.label_if(f.cell_like_string, "cell-like-text-in-string");
        rep.label_if(f.exp_number, "exponent-number");
        rep.label_if(f.non_ascii, "non-ascii");
        rep.label_if(f.wide_col, "column>=26");
        rep.label(if g.w == 1 { "shape:column" } else if g.h == 1 { "shape:row" } else { "shape:block" });
        nt |= (f.mixed_ref || cell_like) && g.w > 1;
    }
    rep.label_if(case.groups.windows(2).any(|w| w[1].si > w[0].si + 1), "si-gap");
    rep.nontrivial = nt;
    rep
}

// hook-level: translate(master text) == render(shift(ast)) for larger offsets
#[derive(Debug, Clone, Serialize, Deserialize)]
pub struct HookCase {
    pub ast: Expr,
    pub dr: u32,
    pub dc: u32,
}

fn oracle_hook(c: &HookCase) -> Report {
    let mut rep = Report::new();
    let master = render(&c.ast);
    let expected = render(&shift(&c.ast, c.dr as i64, c.dc as i64));
    match guard(|| calamine::verif_hooks::replace_cell_names(&master, (c.dr as i64, c.dc as i64))) {
        Ok(Ok(got)) if got == expected => {}
        Ok(got) => rep.fail(format!("translating {master:?} by ({}, {}) gives {got:?}, expected {expected:?}", c.dr, c.dc)),
        Err(p) => rep.fail(format!("translating {master:?}: {p}")),
    }
    let mut f = Features::default();
    features(&c.ast, &mut f);
    rep.nontrivial = f.mixed_ref || f.func_with_digits || f.cell_like_string || f.quoted_sheet;
    rep
}

fn run(ctx: &mut Ctx) {
    let n = ctx.n(2500, 120_000);
    ctx.run("groups", n, case_strategy, oracle);
    let n = ctx.n(10_000, 1_000_000);
    ctx.run_fast("translate", n, || (expr(), 0u32..20, 0u32..20).prop_map(|(ast, dr, dc)| HookCase { ast, dr, dc }), oracle_hook);
    ctx.assumptions.push("the master is the top-left cell of ref and precedes its members in document order; si values ascend in order of appearance; references stay inside the sheet after translation; unquoted sheet names are plain identifiers that do not look like cell references (Excel quotes the others)".into());
    ctx.assumptions.push("whole-row/whole-column references, structured table references and R1C1 text are outside the generated grammar".into());
}

fn replay(sub: &str, case: &serde_json::Value) -> Option<Report> {
    match sub {
        "groups" => replay_as::<Case>(case, oracle),
        "translate" => replay_as::<HookCase>(case, oracle_hook),
        _ => None,
    }
}
