//! C05 — Range stays a consistent rectangle under every sequence of operations.
//!
//! Model-based: a history `Vec<Op>` is interpreted on `calamine::Range<T>` and on a reference
//! model (optional bounds + BTreeMap of non-default cells); after every step the whole public
//! read API is compared with the model.

use crate::engine::{guard, replay_as, Ctx, Report};
use crate::props::Prop;
use calamine::{Cell, CellType, Data, Range};
use proptest::prelude::*;
use serde::{Deserialize, Serialize};
use std::collections::BTreeMap;

pub static PROP: Prop = Prop {
    id: "C05",
    run,
    replay,
    rule: "histories vec(op,1..25) over Range<Data> and Range<String> (New, Empty, FromSparse(row-sorted), SetValue(p>=start), SubRange), origins at sheet boundaries, bounded area; after every step every read accessor is compared with a reference model. Non-trivial = the history contains a set_value that grows the rectangle or a range() window that partially overlaps the source; distinct by serialized history.",
};

type Pos = (u32, u32);

#[derive(Debug, Clone, Serialize, Deserialize, PartialEq)]
pub enum V {
    E,
    I(i64),
    F(f64),
    S(String),
    B(bool),
}

pub trait FromV: CellType + std::fmt::Debug {
    fn from_v(v: &V) -> Self;
}
impl FromV for Data {
    fn from_v(v: &V) -> Data {
        match v {
            V::E => Data::Empty,
            V::I(i) => Data::Int(*i),
            V::F(f) => Data::Float(*f),
            V::S(s) => Data::String(s.clone()),
            V::B(b) => Data::Bool(*b),
        }
    }
}
impl FromV for String {
    fn from_v(v: &V) -> String {
        match v {
            V::E => String::new(),
            V::I(i) => format!("i{i}"),
            V::F(f) => format!("f{f}"),
            V::S(s) => format!("s{s}"),
            V::B(b) => format!("b{b}"),
        }
    }
}

#[derive(Debug, Clone, Serialize, Deserialize)]
pub enum Op {
    New(Pos, Pos),
    Empty,
    /// cells sorted by row (columns in any order, positions unique)
    FromSparse(Vec<(Pos, V)>),
    /// position is given as an offset from the current start corner (so the precondition
    /// "at or beyond the start corner" holds by construction)
    SetValue { dr: u32, dc: u32, v: V },
    /// window corners relative to a base chosen by the generator (absolute coordinates)
    SubRange(Pos, Pos),
}

#[derive(Debug, Clone, Serialize, Deserialize)]
pub struct Case {
    pub ops: Vec<Op>,
}

// ---------------------------------------------------------------------------------------------
// generator

const ORIGINS: &[u32] = &[0, 0, 0, 1, 2, 7, 255, 16383, 65535, 1_048_575, 1 << 31];

fn val() -> impl Strategy<Value = V> {
    prop_oneof![
        1 => Just(V::E),
        3 => (-3i64..100).prop_map(V::I),
        2 => prop_oneof![Just(0.0f64), Just(-1.5), Just(1e300), Just(f64::MIN_POSITIVE)].prop_map(V::F),
        2 => "[a-c]{0,2}".prop_map(V::S),
        1 => any::<bool>().prop_map(V::B),
    ]
}

fn nonempty_val() -> impl Strategy<Value = V> {
    val().prop_map(|v| match v {
        V::E => V::I(0),
        V::S(s) if s.is_empty() => V::S("x".into()),
        v => v,
    })
}

fn case_strategy() -> impl Strategy<Value = Case> {
    // one base corner per history, all absolute coordinates are base + small offsets
    (proptest::sample::select(ORIGINS), proptest::sample::select(ORIGINS)).prop_flat_map(|(br, bc)| {
        let pos = move || (0u32..10, 0u32..10).prop_map(move |(r, c)| (br + r, bc + c));
        let rect = move || {
            (0u32..10, 0u32..10, 0u32..8, 0u32..8).prop_map(move |(r, c, h, w)| ((br + r, bc + c), (br + r + h, bc + c + w)))
        };
        let sparse = proptest::collection::btree_map(pos(), nonempty_val(), 0..8).prop_flat_map(|m| {
            // rows sorted (BTreeMap order), then shuffle columns inside each row
            let cells: Vec<(Pos, V)> = m.into_iter().collect();
            let n = cells.len();
            (Just(cells), proptest::collection::vec(any::<u32>(), n)).prop_map(|(cells, keys)| {
                let mut with: Vec<((Pos, V), u32)> = cells.into_iter().zip(keys).collect();
                with.sort_by_key(|((p, _), k)| (p.0, *k));
                with.into_iter().map(|(c, _)| c).collect::<Vec<_>>()
            })
        });
        let op = prop_oneof![
            2 => rect().prop_map(|(s, e)| Op::New(s, e)),
            1 => Just(Op::Empty),
            3 => sparse.prop_map(Op::FromSparse),
            8 => (0u32..12, 0u32..12, val()).prop_map(|(dr, dc, v)| Op::SetValue { dr, dc, v }),
            4 => rect().prop_map(|(s, e)| Op::SubRange(s, e)),
        ];
        proptest::collection::vec(op, 1..25).prop_map(|ops| Case { ops })
    })
}

/// long thin rectangles: spans around the sheet limits (16384 columns, 1048576 rows) and beyond,
/// which no format-specific limit may clamp inside Range itself
fn thin_strategy() -> impl Strategy<Value = Case> {
    let span = prop_oneof![
        proptest::sample::select(vec![255u32, 256, 16_382, 16_383, 16_384, 16_385, 20_000]).prop_map(|w| (0u32, w)),
        proptest::sample::select(vec![65_535u32, 65_536, 1_048_574, 1_048_575, 1_048_576, 1_048_577, 1_200_000]).prop_map(|h| (h, 0u32)),
    ];
    (proptest::sample::select(vec![0u32, 1, 5, 100]), proptest::sample::select(vec![0u32, 3, 7]), span, nonempty_val(), nonempty_val(), 0u8..3).prop_map(|(r0, c0, (h, w), a, b, tail)| {
        let mut ops = vec![Op::FromSparse(vec![((r0, c0), a), ((r0 + h, c0 + w), b)])];
        match tail {
            0 => ops.push(Op::SubRange((r0, c0), (r0 + h.min(3), c0 + w.min(3)))),
            1 => ops.push(Op::SetValue { dr: h.min(2), dc: w.min(2), v: V::I(9) }),
            _ => {}
        }
        Case { ops }
    })
}

// ---------------------------------------------------------------------------------------------
// reference model

#[derive(Debug, Clone, Default)]
struct Model {
    bounds: Option<(Pos, Pos)>,
    cells: BTreeMap<Pos, V>,
}

fn is_default(v: &V) -> bool {
    matches!(v, V::E)
}

impl Model {
    fn value(&self, p: Pos) -> V {
        self.cells.get(&p).cloned().unwrap_or(V::E)
    }
}

fn check_consistent<T: FromV>(r: &Range<T>, m: &Model, step: usize, rep: &mut Report) {
    let ctx = |what: &str| format!("after step {step}: {what}");
    match m.bounds {
        None => {
            if !r.is_empty() || r.start().is_some() || r.end().is_some() || r.width() != 0 || r.height() != 0 {
                rep.fail(ctx(&format!(
                    "model is empty but range reports is_empty={} start={:?} end={:?} size={:?}",
                    r.is_empty(),
                    r.start(),
                    r.end(),
                    r.get_size()
                )));
                return;
            }
            if r.rows().count() != 0 || r.cells().count() != 0 || r.used_cells().count() != 0 {
                rep.fail(ctx("empty range yields rows/cells"));
            }
            if r.get((0, 0)).is_some() || r.get_value((0, 0)).is_some() {
                rep.fail(ctx("empty range returns a cell"));
            }
        }
        Some((s, e)) => {
            let h = (e.0 - s.0 + 1) as usize;
            let w = (e.1 - s.1 + 1) as usize;
            if r.is_empty() || r.start() != Some(s) || r.end() != Some(e) {
                rep.fail(ctx(&format!(
                    "bounds: expected {:?}..{:?}, got start={:?} end={:?} is_empty={}",
                    s,
                    e,
                    r.start(),
                    r.end(),
                    r.is_empty()
                )));
                return;
            }
            if r.height() != h || r.width() != w || r.get_size() != (h, w) {
                rep.fail(ctx(&format!("size: expected {h}x{w}, got h={} w={} get_size={:?}", r.height(), r.width(), r.get_size())));
                return;
            }
            // rows()
            let rows: Vec<&[T]> = r.rows().collect();
            if rows.len() != h || r.rows().len() != h {
                rep.fail(ctx(&format!("rows() yields {} rows (len() says {}), height is {h}", rows.len(), r.rows().len())));
                return;
            }
            for (i, row) in rows.iter().enumerate() {
                if row.len() != w {
                    rep.fail(ctx(&format!("rows()[{i}] has {} cells, width is {w}", row.len())));
                    return;
                }
            }
            let rows_back: Vec<&[T]> = r.rows().rev().collect();
            if rows_back.iter().rev().zip(rows.iter()).any(|(a, b)| a != b) || rows_back.len() != rows.len() {
                rep.fail(ctx("rows().rev() is not the reverse of rows()"));
                return;
            }
            // cells()
            let cells: Vec<(usize, usize, &T)> = r.cells().collect();
            if cells.len() != h * w || r.cells().len() != h * w {
                rep.fail(ctx(&format!("cells() yields {} items (len() {}), expected {}", cells.len(), r.cells().len(), h * w)));
                return;
            }
            let mut used_expected = Vec::new();
            for (i, (row, col, v)) in cells.iter().enumerate() {
                if (*row, *col) != (i / w, i % w) {
                    rep.fail(ctx(&format!("cells() item {i} has coordinates ({row},{col}), expected ({},{})", i / w, i % w)));
                    return;
                }
                let abs = (s.0 + *row as u32, s.1 + *col as u32);
                let exp = T::from_v(&m.value(abs));
                if **v != exp {
                    rep.fail(ctx(&format!("cell at absolute {:?}: expected {:?}, cells() has {:?}", abs, exp, v)));
                    return;
                }
                // accessors agree
                if r.get((*row, *col)) != Some(&exp) {
                    rep.fail(ctx(&format!("get(({row},{col})) = {:?}, expected {:?}", r.get((*row, *col)), exp)));
                    return;
                }
                if r.get_value(abs) != Some(&exp) {
                    rep.fail(ctx(&format!("get_value({abs:?}) = {:?}, expected {:?}", r.get_value(abs), exp)));
                    return;
                }
                match guard(|| r[(*row, *col)].clone()) {
                    Ok(x) if x == exp => {}
                    other => {
                        rep.fail(ctx(&format!("range[({row},{col})] = {:?}, expected {:?}", other, exp)));
                        return;
                    }
                }
                if rows[*row][*col] != exp {
                    rep.fail(ctx(&format!("rows()[{row}][{col}] = {:?}, expected {:?}", rows[*row][*col], exp)));
                    return;
                }
                if exp != T::default() {
                    used_expected.push((*row, *col, exp));
                }
            }
            let back: Vec<(usize, usize, &T)> = r.cells().rev().collect();
            if back.len() != cells.len() || back.iter().rev().zip(cells.iter()).any(|(a, b)| a != b) {
                rep.fail(ctx("cells().rev() is not the reverse of cells()"));
                return;
            }
            for row in 0..h {
                match guard(|| r[row].to_vec()) {
                    Ok(x) if x.as_slice() == rows[row] => {}
                    _ => {
                        rep.fail(ctx(&format!("range[{row}] (row index) differs from rows()[{row}]")));
                        return;
                    }
                }
            }
            // used_cells()
            let used: Vec<(usize, usize, T)> = r.used_cells().map(|(a, b, c)| (a, b, c.clone())).collect();
            if used != used_expected {
                rep.fail(ctx(&format!("used_cells() = {:?}, expected {:?}", used, used_expected)));
                return;
            }
            let used_back: Vec<(usize, usize, T)> = r.used_cells().rev().map(|(a, b, c)| (a, b, c.clone())).collect();
            if used_back.iter().rev().cloned().collect::<Vec<_>>() != used_expected {
                rep.fail(ctx("used_cells().rev() is not the reverse of the expected used cells"));
                return;
            }
            // just outside every edge
            if r.get((h, 0)).is_some() || r.get((0, w)).is_some() || r.get((h, w)).is_some() {
                rep.fail(ctx("get() returns a cell outside the rectangle"));
                return;
            }
            let mut outside = vec![(e.0 + 1, s.1), (s.0, e.1 + 1), (e.0 + 1, e.1 + 1), (e.0 + 1, e.1), (e.0, e.1 + 1)];
            if s.0 > 0 {
                outside.push((s.0 - 1, s.1));
                outside.push((s.0 - 1, e.1));
            }
            if s.1 > 0 {
                outside.push((s.0, s.1 - 1));
                outside.push((e.0, s.1 - 1));
            }
            for p in outside {
                if r.get_value(p).is_some() {
                    rep.fail(ctx(&format!("get_value({p:?}) returns a cell outside {s:?}..{e:?}")));
                    return;
                }
            }
        }
    }
}

fn interpret<T: FromV>(case: &Case, rep: &mut Report) {
    let mut range: Range<T> = Range::empty();
    let mut model = Model::default();
    let mut grew = false;
    let mut partial = false;
    for (step, op) in case.ops.iter().enumerate() {
        let res: Result<(), String> = match op {
            Op::New(s, e) => {
                model = Model { bounds: Some((*s, *e)), cells: BTreeMap::new() };
                guard(|| Range::<T>::new(*s, *e)).map(|r| range = r)
            }
            Op::Empty => {
                model = Model::default();
                guard(Range::<T>::empty).map(|r| range = r)
            }
            Op::FromSparse(cells) => {
                model = Model::default();
                if !cells.is_empty() {
                    let r0 = cells.iter().map(|(p, _)| p.0).min().unwrap();
                    let r1 = cells.iter().map(|(p, _)| p.0).max().unwrap();
                    let c0 = cells.iter().map(|(p, _)| p.1).min().unwrap();
                    let c1 = cells.iter().map(|(p, _)| p.1).max().unwrap();
                    model.bounds = Some(((r0, c0), (r1, c1)));
                    for (p, v) in cells {
                        if !is_default(v) {
                            model.cells.insert(*p, v.clone());
                        }
                    }
                }
                let input: Vec<Cell<T>> = cells.iter().map(|(p, v)| Cell::new(*p, T::from_v(v))).collect();
                guard(|| Range::from_sparse(input)).map(|r| range = r)
            }
            Op::SetValue { dr, dc, v } => {
                // absolute position at or beyond the start corner
                let (s, old_e) = match model.bounds {
                    Some((s, e)) => (s, Some(e)),
                    None => ((0, 0), None),
                };
                let p = (s.0 + dr, s.1 + dc);
                match old_e {
                    Some(e) => {
                        if p.0 > e.0 || p.1 > e.1 {
                            grew = true;
                        }
                        model.bounds = Some((s, (e.0.max(p.0), e.1.max(p.1))));
                    }
                    None => {
                        grew = true;
                        model.bounds = None; // decided after the call, see below
                    }
                }
                let was_empty = old_e.is_none();
                let r = guard(|| {
                    let mut r2 = range.clone();
                    r2.set_value(p, T::from_v(v));
                    r2
                });
                match r {
                    Ok(r2) => {
                        range = r2;
                        if was_empty {
                            // "the bounding box of the old rectangle and that position": an empty
                            // rectangle holds no position, so the box is the addressed cell alone
                            // (a box reaching back to (0,0) would contain cells that were in neither)
                            let b = (range.start(), range.end());
                            if b == (Some(p), Some(p)) {
                                model.bounds = Some((b.0.unwrap(), p));
                            } else {
                                rep.fail(format!(
                                    "after step {step}: set_value({p:?}) on an empty range gives bounds {:?}..{:?}",
                                    range.start(),
                                    range.end()
                                ));
                                return;
                            }
                        }
                        if is_default(v) {
                            model.cells.remove(&p);
                        } else {
                            model.cells.insert(p, v.clone());
                        }
                        Ok(())
                    }
                    Err(e) => Err(e),
                }
            }
            Op::SubRange(s, e) => {
                if let Some((ms, me)) = model.bounds {
                    let overlap = s.0 <= me.0 && e.0 >= ms.0 && s.1 <= me.1 && e.1 >= ms.1;
                    let inside = s.0 >= ms.0 && e.0 <= me.0 && s.1 >= ms.1 && e.1 <= me.1;
                    let encloses = s.0 <= ms.0 && e.0 >= me.0 && s.1 <= ms.1 && e.1 >= me.1;
                    if overlap && !inside && !encloses {
                        partial = true;
                    }
                }
                let cells: BTreeMap<Pos, V> = model
                    .cells
                    .iter()
                    .filter(|(p, _)| p.0 >= s.0 && p.0 <= e.0 && p.1 >= s.1 && p.1 <= e.1)
                    .map(|(p, v)| (*p, v.clone()))
                    .collect();
                model = Model { bounds: Some((*s, *e)), cells };
                guard(|| range.range(*s, *e)).map(|r| range = r)
            }
        };
        if let Err(p) = res {
            rep.fail(format!("step {step} {:?}: {p}", op));
            return;
        }
        match guard(|| {
            let mut inner = Report::new();
            check_consistent(&range, &model, step, &mut inner);
            inner
        }) {
            Ok(inner) => {
                if let Some(m) = inner.verdict {
                    rep.fail(format!("{m}   [op {:?}]", op));
                    return;
                }
            }
            Err(p) => {
                rep.fail(format!("after step {step} {:?}: read accessor {p}", op));
                return;
            }
        }
    }
    rep.label_if(grew, "set_value-growth");
    rep.label_if(partial, "range-partial-overlap");
    rep.nontrivial = grew || partial;
}

fn oracle_data(case: &Case) -> Report {
    let mut rep = Report::new();
    for op in &case.ops {
        rep.label(match op {
            Op::New(..) => "op:new",
            Op::Empty => "op:empty",
            Op::FromSparse(..) => "op:from_sparse",
            Op::SetValue { .. } => "op:set_value",
            Op::SubRange(..) => "op:range",
        });
    }
    interpret::<Data>(case, &mut rep);
    rep
}

fn oracle_string(case: &Case) -> Report {
    let mut rep = Report::new();
    interpret::<String>(case, &mut rep);
    rep
}

// ---------------------------------------------------------------------------------------------
// exhaustive small universe

fn small_ops() -> Vec<Op> {
    let mut ops = vec![Op::Empty];
    let coords: Vec<Pos> = (0..3u32).flat_map(|r| (0..3u32).map(move |c| (r + 1, c + 1))).collect();
    for &s in &coords {
        for &e in &coords {
            if s.0 <= e.0 && s.1 <= e.1 {
                ops.push(Op::New(s, e));
                ops.push(Op::SubRange(s, e));
            }
        }
    }
    for dr in 0..3 {
        for dc in 0..3 {
            ops.push(Op::SetValue { dr, dc, v: V::I(7) });
        }
    }
    ops.push(Op::SetValue { dr: 0, dc: 0, v: V::E });
    // sparse constructors with one or two cells
    for (i, &a) in coords.iter().enumerate() {
        ops.push(Op::FromSparse(vec![(a, V::I(1))]));
        for &b in &coords[i + 1..] {
            if b.0 >= a.0 {
                ops.push(Op::FromSparse(vec![(a, V::I(1)), (b, V::I(2))]));
            }
        }
    }
    ops
}

fn exhaustive(ctx: &mut Ctx) {
    let ops = small_ops();
    let n = ops.len();
    let total = (n * n * n + n * n + n) as u64;
    let threads = ctx.threads;
    let results: Vec<(u64, u64, Option<(Case, String)>)> = std::thread::scope(|sc| {
        let handles: Vec<_> = (0..threads)
            .map(|t| {
                let ops = &ops;
                sc.spawn(move || {
                    let mut evals = 0u64;
                    let mut nontriv = 0u64;
                    let mut fail = None;
                    let mut run = |hist: Vec<Op>| {
                        let case = Case { ops: hist };
                        let rep = oracle_data(&case);
                        evals += 1;
                        if rep.nontrivial {
                            nontriv += 1;
                        }
                        if let (Some(m), true) = (rep.verdict, fail.is_none()) {
                            fail = Some((case, m));
                        }
                    };
                    for (i, a) in ops.iter().enumerate() {
                        if i % threads != t {
                            continue;
                        }
                        run(vec![a.clone()]);
                        for b in ops.iter() {
                            run(vec![a.clone(), b.clone()]);
                            for c in ops.iter() {
                                run(vec![a.clone(), b.clone(), c.clone()]);
                            }
                        }
                    }
                    (evals, nontriv, fail)
                })
            })
            .collect();
        handles.into_iter().map(|h| h.join().unwrap()).collect()
    });
    let mut evals = 0;
    let mut nontriv = 0;
    let mut fail: Option<(Case, String)> = None;
    for (e, n2, f) in results {
        evals += e;
        nontriv += n2;
        if let (Some(f), true) = (f, fail.is_none()) {
            fail = Some(f);
        }
    }
    assert_eq!(evals, total);
    let sample = serde_json::to_value(Case { ops: vec![ops[1].clone(), ops[n - 1].clone(), ops[2].clone()] }).unwrap();
    ctx.record_sweep(
        "exhaustive-3x3",
        evals,
        nontriv,
        BTreeMap::new(),
        vec![sample],
        true,
        &format!("all histories of length 1..3 over {n} operations on a 3x3 coordinate universe"),
    );
    if let Some((case, m)) = fail {
        ctx.report_violation("data", &case, &m);
    }
}

fn run(ctx: &mut Ctx) {
    let n = ctx.n(4000, 400_000);
    ctx.run("data", n, case_strategy, oracle_data);
    let n = ctx.n(1000, 100_000);
    ctx.run("string", n, case_strategy, oracle_string);
    let n = ctx.n(6, 300);
    ctx.run("thin", n, thin_strategy, oracle_data);
    if !ctx.quick() {
        exhaustive(ctx);
    }
    ctx.assumptions.push("coordinates stay below 2^31+20 so that `end + 1` cannot overflow u32 (real sheets end at row 1048575)".into());
    ctx.assumptions.push("Range::new / range(s,e) are only called with s <= e componentwise (documented panic otherwise)".into());
    ctx.assumptions.push("from_sparse receives row-sorted cells with unique positions (documented precondition)".into());
}

fn replay(sub: &str, case: &serde_json::Value) -> Option<Report> {
    match sub {
        "data" => replay_as::<Case>(case, oracle_data),
        "string" => replay_as::<Case>(case, oracle_string),
        "thin" => replay_as::<Case>(case, oracle_data),
        _ => None,
    }
}
