//! C12 — XLS strings decode identically however records are split and characters packed.

use crate::enc::biff8::*;
use crate::engine::{replay_as, Ctx, Report};
use crate::props::c02::read_and_check;
use crate::props::Prop;
use proptest::prelude::*;
use serde::{Deserialize, Serialize};
use std::collections::BTreeMap;

pub static PROP: Prop = Prop {
    id: "C12",
    run,
    replay,
    rule: "shared-string tables (0-40 strings, lengths 0-300, a few up to 9000 units to force natural CONTINUE records; ASCII / Latin-1 / BMP / surrogate pairs; optional rich runs and ExtRst blocks) laid out as atoms (header - never split; character segments; run block; ext block) with generated CONTINUE cuts: before a string, between characters with a fresh flag byte and an INDEPENDENT 8/16-bit choice per segment, after the characters, at run boundaries and inside ExtRst; LABELSST cells reference every entry, sheet names, LABEL and FORMULA+STRING use both packings. Every entry must read as the source string under the generated split plan AND under the unsplit layout. Thorough: for a fixed 3-string table every single cut position and every pair of positions x packings is enumerated. Non-trivial = a cut inside character data with a packing change, or inside a run/ext block; distinct by serialized case.",
};

#[derive(Debug, Clone, Serialize, Deserialize)]
pub struct Case {
    pub strings: Vec<SstString>,
    pub sheet_name: String,
    pub sheet_name_wide: bool,
    pub label: (String, bool),
    pub fstring: (String, bool),
    pub cfb: crate::enc::cfb::CfbLayout,
}

fn unit_strategy() -> impl Strategy<Value = Vec<u16>> {
    prop_oneof![
        6 => proptest::char::range('a', 'z').prop_map(|c| vec![c as u16]),
        2 => Just(vec![b' ' as u16]),
        // the whole upper half of Latin-1, C1 controls included: an 8-bit segment widens each byte
        // to U+00xx (it is not windows-1252 text)
        3 => proptest::char::range('\u{80}', '\u{FF}').prop_map(|c| vec![c as u16]),
        3 => prop_oneof![Just('Ж'), Just('中'), Just('\u{FFFD}'), Just('\u{100}'), Just('\u{2028}')].prop_map(|c| vec![c as u16]),
        2 => prop_oneof![Just('😀'), Just('𝄞'), Just('\u{10000}'), Just('\u{10FFFF}')].prop_map(|c| {
            let mut b = [0u16; 2];
            c.encode_utf16(&mut b).to_vec()
        }),
        1 => prop_oneof![Just(1u16), Just(9), Just(10), Just(0x7F)].prop_map(|c| vec![c]),
        // units whose bytes look like a byte-order mark when a segment starts with them
        1 => prop_oneof![Just(vec![0xFEFFu16]), Just(vec![0xFFFE]), Just(vec![0xBBEF, 0x00BF])],
    ]
}

fn text_units(max: usize) -> impl Strategy<Value = Vec<u16>> {
    prop_oneof![
        8 => proptest::collection::vec(unit_strategy(), 0..max.min(40)),
        2 => proptest::collection::vec(unit_strategy(), 40..max.max(41)),
    ]
    .prop_map(|v| v.into_iter().flatten().collect())
}

/// legal character cut positions: 0 < k < len, not between the halves of a surrogate pair
fn legal_cuts(u: &[u16]) -> Vec<usize> {
    (1..u.len()).filter(|k| !(0xD800..0xDC00).contains(&u[*k - 1])).collect()
}

fn sst_string(max: usize) -> impl Strategy<Value = SstString> {
    (text_units(max), prop_oneof![3 => Just(0u16), 1 => 1u16..6], prop_oneof![3 => Just(0u16), 1 => 1u16..40], prop::bool::weighted(0.2), proptest::collection::vec((any::<u16>(), any::<bool>()), 0..4), any::<bool>(), proptest::collection::vec(any::<u16>(), 0..2), proptest::collection::vec(any::<u16>(), 0..3), prop::bool::weighted(0.2))
        .prop_map(|(units, runs, ext, cut_before, cuts, wide, run_cuts, ext_cuts, cut_after_chars)| {
            // map generated keys monotonically onto legal cut positions
            let legal = legal_cuts(&units);
            let mut pos: Vec<(usize, bool)> = cuts.iter().filter(|_| !legal.is_empty()).map(|(k, w)| (legal[(*k as usize * legal.len()) >> 16], *w)).collect();
            pos.sort();
            pos.dedup_by_key(|p| p.0);
            let mut segments = vec![];
            if !pos.is_empty() {
                let mut prev = 0;
                let mut w = wide;
                for (p, wnext) in &pos {
                    segments.push(((p - prev) as u16, w));
                    prev = *p;
                    w = *wnext;
                }
                segments.push(((units.len() - prev) as u16, w));
            }
            SstString {
                run_cuts: run_cuts.iter().filter(|_| runs > 1).map(|k| 1 + k % (runs - 1).max(1)).collect(),
                ext_cuts: ext_cuts.iter().filter(|_| ext > 1).map(|k| 1 + k % (ext - 1).max(1)).collect(),
                units,
                runs,
                ext,
                cut_before,
                segments,
                wide,
                cut_after_chars,
            }
        })
}

fn name_strategy() -> impl Strategy<Value = String> {
    prop_oneof![Just("Sheet1".to_string()), Just("Données".to_string()), Just("日本".to_string()), Just("a b".to_string()), Just("S😀".to_string())]
}

fn case_strategy(max_len: usize, max_n: usize) -> impl Strategy<Value = Case> {
    (proptest::collection::vec(sst_string(max_len), 0..max_n), name_strategy(), any::<bool>(), ("[a-zé中]{1,8}", any::<bool>()), ("[a-zé中]{1,8}", any::<bool>()), crate::props::c13::layout_strategy()).prop_map(|(strings, sheet_name, sheet_name_wide, label, fstring, cfb)| Case { strings, sheet_name, sheet_name_wide, label, fstring, cfb })
}

fn doc(case: &Case, split: bool) -> XlsDoc {
    let strings: Vec<SstString> = if split { case.strings.clone() } else { case.strings.iter().map(|s| SstString { units: s.units.clone(), runs: s.runs, ext: s.ext, wide: true, ..Default::default() }).collect() };
    let mut cells: Vec<BCell> = (0..strings.len()).map(|i| BCell { row: i as u16, col: (i % 3) as u16, ixfe: 0, rec: BRec::LabelSst(i as u32) }).collect();
    let n = strings.len() as u16;
    cells.push(BCell { row: n, col: 0, ixfe: 0, rec: BRec::Label(case.label.0.clone(), case.label.1 == split) });
    cells.push(BCell { row: n + 1, col: 1, ixfe: 0, rec: BRec::Formula { value: FVal::Str(case.fstring.0.clone(), case.fstring.1 == split), rgce: vec![0x1E, 1, 0] } });
    XlsDoc {
        sheets: vec![BSheet { name: case.sheet_name.clone(), name_wide: case.sheet_name_wide == split, cells, dimensions: 1, ..Default::default() }],
        sst: strings,
        xfs: vec![0],
        codepage: Some(1200),
        cfb: if split { case.cfb.clone() } else { Default::default() },
        ..Default::default()
    }
}

fn classify(case: &Case, rep: &mut Report) -> bool {
    let mut nt = false;
    let d = doc(case, true);
    let (_, continues) = sst_records(&d.sst, 0);
    rep.label_if(continues > 0, "has-CONTINUE");
    for s in &case.strings {
        let inside = s.segments.len() > 1;
        let packing_change = s.segments.windows(2).any(|w| (w[0].1 || !fits_8bit(&s.units)) != w[1].1);
        rep.label_if(inside, "cut:inside-characters");
        rep.label_if(inside && packing_change, "cut:packing-change");
        rep.label_if(!s.run_cuts.is_empty(), "cut:inside-rgRun");
        rep.label_if(!s.ext_cuts.is_empty(), "cut:inside-ExtRst");
        rep.label_if(s.cut_before, "cut:between-strings");
        rep.label_if(s.cut_after_chars && (s.runs > 0 || s.ext > 0), "cut:after-characters");
        rep.label_if(s.units.len() > 4200, "natural-CONTINUE(>8224 bytes)");
        rep.label_if(s.units.iter().any(|u| (0xD800..0xDC00).contains(u)), "surrogate-pair");
        rep.label_if(s.units.is_empty(), "empty-string");
        nt |= (inside && packing_change) || !s.run_cuts.is_empty() || !s.ext_cuts.is_empty();
    }
    nt
}

fn oracle(case: &Case) -> Report {
    let mut rep = Report::new();
    let nt = classify(case, &mut rep);
    read_and_check(&doc(case, true), "split plan", &mut rep);
    if rep.failed() {
        return rep;
    }
    read_and_check(&doc(case, false), "unsplit layout of the same table", &mut rep);
    rep.nontrivial = nt;
    rep
}

// ---------------------------------------------------------------------------------------------
// exhaustive cut positions on a fixed table

#[derive(Debug, Clone, Copy, Serialize, Deserialize, PartialEq, PartialOrd, Ord, Eq)]
pub enum Cut {
    Before(usize),
    /// string, position, 16-bit packing after the cut
    Char(usize, usize, bool),
    AfterChars(usize),
    Run(usize, u16),
    Ext(usize, u16),
}

#[derive(Debug, Clone, Serialize, Deserialize)]
pub struct Fixed {
    pub cuts: Vec<Cut>,
    pub first_wide: bool,
}

fn fixed_table() -> Vec<SstString> {
    let mk = |s: &str, runs: u16, ext: u16| SstString { units: units(s), runs, ext, ..Default::default() };
    vec![mk("abcde", 0, 0), mk("h\u{e9}llo w\u{f6}rld", 2, 6), mk("日本x😀y", 3, 0), mk("", 0, 0), mk("zz", 0, 5)]
}

fn apply(f: &Fixed) -> Vec<SstString> {
    let mut t = fixed_table();
    for s in t.iter_mut() {
        s.wide = f.first_wide;
    }
    let mut char_cuts: BTreeMap<usize, Vec<(usize, bool)>> = BTreeMap::new();
    for c in &f.cuts {
        match *c {
            Cut::Before(i) => t[i].cut_before = true,
            Cut::Char(i, k, w) => char_cuts.entry(i).or_default().push((k, w)),
            Cut::AfterChars(i) => t[i].cut_after_chars = true,
            Cut::Run(i, k) => t[i].run_cuts.push(k),
            Cut::Ext(i, k) => t[i].ext_cuts.push(k),
        }
    }
    for (i, mut cuts) in char_cuts {
        cuts.sort();
        cuts.dedup_by_key(|c| c.0);
        let mut prev = 0;
        let mut w = f.first_wide;
        let mut segs = vec![];
        for (k, wn) in cuts {
            segs.push(((k - prev) as u16, w));
            prev = k;
            w = wn;
        }
        segs.push(((t[i].units.len() - prev) as u16, w));
        t[i].segments = segs;
    }
    t
}

fn oracle_fixed(f: &Fixed) -> Report {
    let mut rep = Report::new();
    let strings = apply(f);
    let cells: Vec<BCell> = (0..strings.len()).map(|i| BCell { row: i as u16, col: 0, ixfe: 0, rec: BRec::LabelSst(i as u32) }).collect();
    let d = XlsDoc { sheets: vec![BSheet { name: "S".into(), cells, ..Default::default() }], sst: strings, xfs: vec![0], ..Default::default() };
    read_and_check(&d, "fixed table", &mut rep);
    rep.nontrivial = f.cuts.iter().any(|c| matches!(c, Cut::Char(..) | Cut::Run(..) | Cut::Ext(..)));
    rep
}

fn all_positions() -> Vec<Cut> {
    let t = fixed_table();
    let mut v = vec![];
    for (i, s) in t.iter().enumerate() {
        v.push(Cut::Before(i));
        for k in legal_cuts(&s.units) {
            v.push(Cut::Char(i, k, false));
            v.push(Cut::Char(i, k, true));
        }
        if s.runs > 0 || s.ext > 0 {
            v.push(Cut::AfterChars(i));
        }
        for k in 1..s.runs {
            v.push(Cut::Run(i, k));
        }
        for k in 1..s.ext {
            v.push(Cut::Ext(i, k));
        }
    }
    v
}

fn exhaustive(ctx: &mut Ctx) {
    let pos = all_positions();
    let mut all: Vec<Fixed> = vec![];
    for fw in [false, true] {
        all.push(Fixed { cuts: vec![], first_wide: fw });
        for (a, ca) in pos.iter().enumerate() {
            all.push(Fixed { cuts: vec![*ca], first_wide: fw });
            for cb in &pos[a + 1..] {
                // two char cuts at the same place are the same cut
                if let (Cut::Char(i, k, _), Cut::Char(j, l, _)) = (ca, cb) {
                    if i == j && k == l {
                        continue;
                    }
                }
                all.push(Fixed { cuts: vec![*ca, *cb], first_wide: fw });
            }
        }
    }
    let threads = ctx.threads;
    let res: Vec<(u64, Option<(Fixed, String)>)> = std::thread::scope(|sc| {
        let hs: Vec<_> = (0..threads)
            .map(|t| {
                let all = &all;
                sc.spawn(move || {
                    let mut nt = 0;
                    let mut fail = None;
                    for (i, f) in all.iter().enumerate() {
                        if i % threads != t {
                            continue;
                        }
                        let r = oracle_fixed(f);
                        if r.nontrivial {
                            nt += 1;
                        }
                        if let (Some(m), true) = (r.verdict, fail.is_none()) {
                            fail = Some((f.clone(), m));
                        }
                    }
                    (nt, fail)
                })
            })
            .collect();
        hs.into_iter().map(|h| h.join().unwrap()).collect()
    });
    let nt = res.iter().map(|r| r.0).sum();
    ctx.record_sweep("fixed-table-all-cuts", all.len() as u64, nt, BTreeMap::new(), vec![serde_json::to_value(&all[all.len() / 2]).unwrap()], true, &format!("5-string table, {} cut positions: none, every single one, every pair, x both initial packings", pos.len()));
    if let Some((f, m)) = res.into_iter().find_map(|r| r.1) {
        ctx.report_violation("fixed", &f, &m);
    }
}

fn run(ctx: &mut Ctx) {
    // shared-string indices beyond 16 bits (LABELSST carries 32)
    let n = ctx.n(1, 20);
    ctx.run("bigtable", n, || crate::props::c19::big_table().prop_map(|mut b| { b.fmt = 2; b }), crate::props::c19::oracle_big);
    let n = ctx.n(2000, 50_000);
    ctx.run("table", n, || case_strategy(300, 40), oracle);
    let n = ctx.n(60, 1500);
    ctx.run("table-long", n, || case_strategy(9000, 6), oracle);
    if !ctx.quick() {
        exhaustive(ctx);
    }
    ctx.assumptions.push("string headers (cch, flags, cRun, cbExtRst) are never split across records; cuts never fall between the two halves of a surrogate pair; code page 1200".into());
}

fn replay(sub: &str, case: &serde_json::Value) -> Option<Report> {
    match sub {
        "bigtable" => replay_as::<crate::props::c19::BigTable>(case, crate::props::c19::oracle_big),
        "table" | "table-long" => replay_as::<Case>(case, oracle),
        "fixed" => replay_as::<Fixed>(case, oracle_fixed),
        _ => None,
    }
}
