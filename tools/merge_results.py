#!/usr/bin/env python3
"""Merge the per-round result tables into seeded/RESULTS.tsv (one line per kept change, last run wins)."""
import glob, re
rows = {}
for f in ['seeded/RESULTS-rounds12-final.tsv', 'seeded/RESULTS-round3-final.tsv', 'seeded/RESULTS-round4-final.tsv', 'seeded/RESULTS-late.tsv']:
    try:
        for l in open('/verif/' + f):
            p = l.rstrip('\n').split('\t')
            if len(p) >= 4:
                rows[p[0]] = p
    except FileNotFoundError:
        pass
key = lambda n: (n.split('-')[0], int(n.split('-m')[1]))
with open('/verif/seeded/RESULTS.tsv', 'w') as out:
    for n in sorted(rows, key=key):
        out.write('\t'.join(rows[n]) + '\n')
c = sum(1 for r in rows.values() if r[3] == 'CAUGHT')
print(len(rows), 'changes,', c, 'caught,', len(rows) - c, 'missed:', [n for n, r in rows.items() if r[3] != 'CAUGHT'])
