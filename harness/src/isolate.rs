//! Per-case process isolation by fork(): the child runs one case and reports through a pipe; an
//! abort (allocation failure), a crash or a hang kills only the child. Used by C06, where inputs
//! are hostile by design.

use crate::alloc::MemStats;
use std::io::Read;
use std::os::fd::FromRawFd;
use std::time::{Duration, Instant};

#[derive(Debug, Clone)]
pub enum Outcome {
    /// the closure returned; payload = what it wrote
    Completed(Vec<u8>),
    /// killed by a signal; if the allocator refused a request first: (requested bytes, live bytes with it, innermost calamine function)
    Died { signal: i32, refused: Option<(u64, u64, String)> },
    Timeout,
    /// fork/pipe failure (harness problem)
    Failed(String),
}

static mut REPORT_FD: i32 = -1;

/// called by the allocator (in the forked child) when it refuses a request: best effort report
pub fn report_refused(size: usize, live: usize) {
    let fd = unsafe { REPORT_FD };
    if fd < 0 {
        return;
    }
    unsafe { REPORT_FD = -1 };
    // the process is about to abort: capturing a backtrace here is acceptable
    let bt = std::backtrace::Backtrace::force_capture().to_string();
    // blame the owner of the largest block requested so far (the one that made the heap big), or,
    // when everything was small, whoever asked last
    let big = crate::alloc::big_request_func();
    let func = if !big.is_empty() { big } else { crate::engine::innermost_calamine_frame(&bt).unwrap_or_else(|| "<no calamine frame>".into()) };
    let msg = format!("\u{1}REFUSED {size} {live} {func}\n");
    unsafe {
        libc::write(fd, msg.as_ptr() as *const libc::c_void, msg.len());
    }
}

/// run `f` in a forked child; `f` returns the bytes to hand back
pub fn isolated(timeout: Duration, f: impl FnOnce() -> Vec<u8>) -> Outcome {
    let mut fds = [0i32; 2];
    if unsafe { libc::pipe(fds.as_mut_ptr()) } != 0 {
        return Outcome::Failed("pipe".into());
    }
    let pid = unsafe { libc::fork() };
    if pid < 0 {
        unsafe {
            libc::close(fds[0]);
            libc::close(fds[1]);
        }
        return Outcome::Failed("fork".into());
    }
    if pid == 0 {
        // child: only this thread exists
        unsafe {
            libc::close(fds[0]);
            REPORT_FD = fds[1];
            // no core dumps, keep quiet
            let lim = libc::rlimit { rlim_cur: 0, rlim_max: 0 };
            libc::setrlimit(libc::RLIMIT_CORE, &lim);
            let devnull = libc::open(b"/dev/null\0".as_ptr() as *const libc::c_char, libc::O_WRONLY);
            if devnull >= 0 {
                libc::dup2(devnull, 2);
            }
        }
        let out = f();
        unsafe {
            let mut off = 0;
            while off < out.len() {
                let n = libc::write(fds[1], out[off..].as_ptr() as *const libc::c_void, out.len() - off);
                if n <= 0 {
                    break;
                }
                off += n as usize;
            }
            libc::_exit(0);
        }
    }
    // parent
    unsafe { libc::close(fds[1]) };
    let mut file = unsafe { std::fs::File::from_raw_fd(fds[0]) };
    // read in a helper thread-less way: make the pipe non-blocking and poll together with waitpid
    unsafe {
        let flags = libc::fcntl(fds[0], libc::F_GETFL);
        libc::fcntl(fds[0], libc::F_SETFL, flags | libc::O_NONBLOCK);
    }
    let mut buf = Vec::new();
    let mut chunk = [0u8; 65536];
    let started = Instant::now();
    let mut status = 0i32;
    let mut exited = false;
    loop {
        match file.read(&mut chunk) {
            Ok(0) => {
                if exited {
                    break;
                }
            }
            Ok(n) => {
                buf.extend_from_slice(&chunk[..n]);
                continue;
            }
            Err(e) if e.kind() == std::io::ErrorKind::WouldBlock => {}
            Err(_) => {}
        }
        if !exited {
            let r = unsafe { libc::waitpid(pid, &mut status, libc::WNOHANG) };
            if r == pid {
                exited = true;
                continue; // drain the pipe
            }
            if started.elapsed() > timeout {
                unsafe {
                    libc::kill(pid, libc::SIGKILL);
                    libc::waitpid(pid, &mut status, 0);
                }
                return Outcome::Timeout;
            }
            std::thread::sleep(Duration::from_micros(200));
        } else {
            break;
        }
    }
    if libc::WIFEXITED(status) && libc::WEXITSTATUS(status) == 0 {
        return Outcome::Completed(buf);
    }
    let signal = if libc::WIFSIGNALED(status) { libc::WTERMSIG(status) } else { -libc::WEXITSTATUS(status) };
    let text = String::from_utf8_lossy(&buf);
    let refused = text.lines().find_map(|l| {
        let l = l.trim_start_matches('\u{1}');
        let rest = l.strip_prefix("REFUSED ")?;
        let (size, rest) = rest.split_once(' ')?;
        let (live, func) = rest.split_once(' ')?;
        Some((size.parse().ok()?, live.parse().ok()?, func.to_string()))
    });
    Outcome::Died { signal, refused }
}

pub fn encode_stats(opened: u8, panic: Option<&str>, mem: MemStats, cpu_ms: u64, big_func: &str) -> Vec<u8> {
    serde_json::to_vec(&serde_json::json!({"opened": opened, "panic": panic, "peak": mem.peak, "max_request": mem.max_request, "cpu_ms": cpu_ms, "big_func": big_func})).unwrap_or_default()
}

// ---------------------------------------------------------------------------------------------
// persistent worker: fork once, run many cases

/// A forked copy of this process that runs one case after the other. It dies only when a case
/// kills it (allocation refused -> abort, stack overflow) or when the parent kills it (hang); the
/// caller then spawns a new one. Much cheaper than a fork per case (fork of a multi-threaded
/// process serialises on the address-space lock).
pub struct Worker {
    pid: i32,
    to: i32,
    from: i32,
}

const FRAME: u8 = 0x02;

impl Worker {
    pub fn spawn(run: fn(&[u8]) -> Vec<u8>) -> Option<Worker> {
        let mut down = [0i32; 2];
        let mut up = [0i32; 2];
        unsafe {
            if libc::pipe(down.as_mut_ptr()) != 0 {
                return None;
            }
            if libc::pipe(up.as_mut_ptr()) != 0 {
                libc::close(down[0]);
                libc::close(down[1]);
                return None;
            }
        }
        let pid = unsafe { libc::fork() };
        if pid < 0 {
            unsafe {
                for fd in [down[0], down[1], up[0], up[1]] {
                    libc::close(fd);
                }
            }
            return None;
        }
        if pid == 0 {
            // child: keep only its two pipe ends (other workers' pipes must not be held open here,
            // or their deaths would not show as end-of-file to the parent)
            unsafe {
                for fd in 3..4096 {
                    if fd != down[0] && fd != up[1] {
                        libc::close(fd);
                    }
                }
                REPORT_FD = up[1];
                let lim = libc::rlimit { rlim_cur: 0, rlim_max: 0 };
                libc::setrlimit(libc::RLIMIT_CORE, &lim);
                let devnull = libc::open(b"/dev/null\0".as_ptr() as *const libc::c_char, libc::O_WRONLY);
                if devnull >= 0 {
                    libc::dup2(devnull, 2);
                }
            }
            let read_exact = |buf: &mut [u8]| -> bool {
                let mut off = 0;
                while off < buf.len() {
                    let n = unsafe { libc::read(down[0], buf[off..].as_mut_ptr() as *mut libc::c_void, buf.len() - off) };
                    if n <= 0 {
                        return false;
                    }
                    off += n as usize;
                }
                true
            };
            loop {
                let mut len = [0u8; 4];
                if !read_exact(&mut len) {
                    unsafe { libc::_exit(0) };
                }
                let mut input = vec![0u8; u32::from_le_bytes(len) as usize];
                if !read_exact(&mut input) {
                    unsafe { libc::_exit(0) };
                }
                let out = run(&input);
                let mut frame = vec![FRAME];
                frame.extend_from_slice(&(out.len() as u32).to_le_bytes());
                frame.extend_from_slice(&out);
                let mut off = 0;
                while off < frame.len() {
                    let n = unsafe { libc::write(up[1], frame[off..].as_ptr() as *const libc::c_void, frame.len() - off) };
                    if n <= 0 {
                        unsafe { libc::_exit(0) };
                    }
                    off += n as usize;
                }
            }
        }
        unsafe {
            libc::close(down[0]);
            libc::close(up[1]);
            let flags = libc::fcntl(up[0], libc::F_GETFL);
            libc::fcntl(up[0], libc::F_SETFL, flags | libc::O_NONBLOCK);
        }
        Some(Worker { pid, to: down[1], from: up[0] })
    }

    fn reap(&mut self, kill: bool) -> i32 {
        let mut status = 0i32;
        unsafe {
            if kill {
                libc::kill(self.pid, libc::SIGKILL);
            }
            libc::waitpid(self.pid, &mut status, 0);
            libc::close(self.to);
            libc::close(self.from);
        }
        self.pid = -1;
        status
    }

    pub fn alive(&self) -> bool {
        self.pid > 0
    }

    /// run one case; after anything but `Completed` the worker is dead
    pub fn run(&mut self, input: &[u8], timeout: Duration) -> Outcome {
        if !self.alive() {
            return Outcome::Failed("worker is dead".into());
        }
        let mut msg = (input.len() as u32).to_le_bytes().to_vec();
        msg.extend_from_slice(input);
        let mut off = 0;
        while off < msg.len() {
            let n = unsafe { libc::write(self.to, msg[off..].as_ptr() as *const libc::c_void, msg.len() - off) };
            if n <= 0 {
                self.reap(true);
                return Outcome::Failed("cannot send the case to the worker".into());
            }
            off += n as usize;
        }
        let started = Instant::now();
        let mut buf: Vec<u8> = Vec::new();
        let mut chunk = [0u8; 65536];
        loop {
            let n = unsafe { libc::read(self.from, chunk.as_mut_ptr() as *mut libc::c_void, chunk.len()) };
            if n > 0 {
                buf.extend_from_slice(&chunk[..n as usize]);
                if buf[0] == FRAME && buf.len() >= 5 {
                    let len = u32::from_le_bytes([buf[1], buf[2], buf[3], buf[4]]) as usize;
                    if buf.len() >= 5 + len {
                        return Outcome::Completed(buf[5..5 + len].to_vec());
                    }
                }
                continue;
            }
            if n == 0 {
                // end of file: the worker is gone
                let status = self.reap(false);
                let signal = if libc::WIFSIGNALED(status) { libc::WTERMSIG(status) } else { -libc::WEXITSTATUS(status) };
                let text = String::from_utf8_lossy(&buf);
                let refused = text.lines().find_map(|l| {
                    let l = l.trim_start_matches('\u{1}');
                    let rest = l.strip_prefix("REFUSED ")?;
                    let (size, rest) = rest.split_once(' ')?;
                    let (live, func) = rest.split_once(' ')?;
                    Some((size.parse().ok()?, live.parse().ok()?, func.to_string()))
                });
                return Outcome::Died { signal, refused };
            }
            // would block
            if started.elapsed() > timeout {
                self.reap(true);
                return Outcome::Timeout;
            }
            let mut pfd = libc::pollfd { fd: self.from, events: libc::POLLIN, revents: 0 };
            unsafe { libc::poll(&mut pfd, 1, 20) };
        }
    }
}

impl Drop for Worker {
    fn drop(&mut self) {
        if self.alive() {
            self.reap(true);
        }
    }
}
