//! Independent BIFF8 (.xls workbook stream) writer: record framing, globals and sheet
//! substreams, RK packing, shared-string table with an explicit CONTINUE split plan.

use crate::enc::cfb::{write_cfb, CfbLayout, CfbStream};
use crate::model::value::{Exp, Pos};
use serde::{Deserialize, Serialize};
use std::collections::BTreeMap;

pub const MAX_RECORD: usize = 8224;

fn u16le(v: &mut Vec<u8>, x: u16) {
    v.extend_from_slice(&x.to_le_bytes());
}
fn u32le(v: &mut Vec<u8>, x: u32) {
    v.extend_from_slice(&x.to_le_bytes());
}

/// one record, split into CONTINUE records when the payload exceeds the BIFF8 limit
pub fn record(typ: u16, data: &[u8]) -> Vec<u8> {
    let mut out = Vec::with_capacity(data.len() + 4);
    let mut first = true;
    let mut rest = data;
    loop {
        let n = rest.len().min(MAX_RECORD);
        u16le(&mut out, if first { typ } else { 0x003C });
        u16le(&mut out, n as u16);
        out.extend_from_slice(&rest[..n]);
        rest = &rest[n..];
        first = false;
        if rest.is_empty() {
            break;
        }
    }
    out
}

pub fn units(s: &str) -> Vec<u16> {
    s.encode_utf16().collect()
}

pub fn fits_8bit(u: &[u16]) -> bool {
    u.iter().all(|c| *c < 0x100)
}

/// character bytes in the chosen packing (`wide` is forced when a unit needs 16 bits)
fn chars(u: &[u16], wide: bool) -> (u8, Vec<u8>) {
    let wide = wide || !fits_8bit(u);
    let mut b = Vec::with_capacity(u.len() * 2);
    for c in u {
        if wide {
            u16le(&mut b, *c);
        } else {
            b.push(*c as u8);
        }
    }
    (wide as u8, b)
}

/// ShortXLUnicodeString: cch (1 byte), flags, characters
pub fn short_string(s: &str, wide: bool) -> Vec<u8> {
    let u = units(s);
    let (f, b) = chars(&u, wide);
    let mut out = vec![u.len() as u8, f];
    out.extend(b);
    out
}

/// XLUnicodeString: cch (2 bytes), flags, characters
pub fn long_string(s: &str, wide: bool) -> Vec<u8> {
    let u = units(s);
    let (f, b) = chars(&u, wide);
    let mut out = Vec::new();
    u16le(&mut out, u.len() as u16);
    out.push(f);
    out.extend(b);
    out
}

/// XLUnicodeStringNoCch: flags, characters
pub fn nocch_string(s: &str, wide: bool) -> Vec<u8> {
    let u = units(s);
    let (f, b) = chars(&u, wide);
    let mut out = vec![f];
    out.extend(b);
    out
}

// ---------------------------------------------------------------------------------------------
// RK numbers

#[derive(Debug, Clone, Copy, PartialEq, Serialize, Deserialize)]
pub enum RkKind {
    Int,
    Int100,
    Float,
    Float100,
}

/// every RK word that encodes `v` exactly
pub fn rk_encodings(v: f64) -> Vec<(RkKind, u32)> {
    let mut out = vec![];
    if v.is_finite() {
        if v.fract() == 0.0 && (-(1i64 << 29)..(1i64 << 29)).contains(&(v as i64)) && !(v == 0.0 && v.is_sign_negative()) {
            out.push((RkKind::Int, (((v as i64 as i32) << 2) as u32) | 2));
        }
        let h = v * 100.0;
        if h.fract() == 0.0 && (-(1i64 << 29)..(1i64 << 29)).contains(&(h as i64)) && (h as i64) as f64 / 100.0 == v && !(v == 0.0 && v.is_sign_negative()) {
            // an integer multiple of 100 is returned as an integer, which is numerically equal
            out.push((RkKind::Int100, (((h as i64 as i32) << 2) as u32) | 3));
        }
        if v.to_bits() & 0x3_FFFF_FFFF == 0 {
            out.push((RkKind::Float, (v.to_bits() >> 32) as u32));
        }
        if h.is_finite() && h.to_bits() & 0x3_FFFF_FFFF == 0 && h / 100.0 == v {
            out.push((RkKind::Float100, (h.to_bits() >> 32) as u32 | 1));
        }
    }
    out
}

/// reference decoder written from MS-XLS 2.5.217: (value, is_integer_form)
pub fn rk_decode(rk: u32) -> (f64, bool) {
    let div100 = rk & 1 != 0;
    if rk & 2 != 0 {
        let i = (rk as i32) >> 2; // arithmetic shift: the 30-bit payload is signed
        if div100 {
            (i as f64 / 100.0, i % 100 == 0)
        } else {
            (i as f64, true)
        }
    } else {
        let f = f64::from_bits(((rk & 0xFFFF_FFFC) as u64) << 32);
        (if div100 { f / 100.0 } else { f }, false)
    }
}

// ---------------------------------------------------------------------------------------------
// document description

#[derive(Debug, Clone, Serialize, Deserialize, PartialEq)]
pub enum FVal {
    Num(f64),
    /// the text follows in a STRING record
    Str(String, bool),
    Bool(bool),
    /// BErr code
    Err(u8),
    /// "blank string" marker (type 3)
    EmptyStr,
}

#[derive(Debug, Clone, Serialize, Deserialize, PartialEq)]
pub enum BRec {
    Number(f64),
    /// raw RK word
    Rk(u32),
    /// run of (ixfe, rk) starting at the cell's column
    MulRk(Vec<(u16, u32)>),
    LabelSst(u32),
    Label(String, bool),
    Bool(bool),
    Err(u8),
    Formula { value: FVal, rgce: Vec<u8> },
    Blank,
    /// n blank cells starting at the cell's column
    MulBlank(u16),
}

#[derive(Debug, Clone, Serialize, Deserialize, PartialEq)]
pub struct BCell {
    pub row: u16,
    pub col: u16,
    pub ixfe: u16,
    pub rec: BRec,
}

#[derive(Debug, Clone, Serialize, Deserialize, PartialEq, Default)]
#[serde(default)]
pub struct BSheet {
    pub name: String,
    pub name_wide: bool,
    /// hsState 0 visible, 1 hidden, 2 very hidden
    pub state: u8,
    /// dt 0 worksheet, 1 macro, 2 chart, 6 VBA module
    pub kind: u8,
    /// in row order
    pub cells: Vec<BCell>,
    /// MERGEDCELLS records (each a list of (first, last) corners)
    pub merges: Vec<Vec<(Pos, Pos)>>,
    /// 0 no DIMENSIONS record, 1 exact, 2 a larger box
    pub dimensions: u8,
    /// interleave ROW / DBCELL / WINDOW2 / unknown records
    pub junk: u8,
}

/// one shared string and where its parts are cut into CONTINUE records
#[derive(Debug, Clone, Serialize, Deserialize, PartialEq, Default)]
#[serde(default)]
pub struct SstString {
    pub units: Vec<u16>,
    /// rich-text runs (4 bytes each)
    pub runs: u16,
    /// size of the ExtRst block
    pub ext: u16,
    /// start a new CONTINUE record before this string's header
    pub cut_before: bool,
    /// character segments: (length in units, 16-bit packing requested); a new CONTINUE record
    /// (with a fresh flag byte) starts before every segment but the first. Empty = one segment.
    pub segments: Vec<(u16, bool)>,
    /// packing of the first segment when `segments` is empty
    pub wide: bool,
    /// cut the run block before run number k (0 < k < runs)
    pub run_cuts: Vec<u16>,
    /// cut the ExtRst block at byte offset k (0 < k < ext)
    pub ext_cuts: Vec<u16>,
    /// start a new CONTINUE record between the characters and the run/ext blocks
    pub cut_after_chars: bool,
}

impl SstString {
    pub fn text(&self) -> String {
        String::from_utf16_lossy(&self.units)
    }
    pub fn plain(s: &str) -> SstString {
        SstString { units: units(s), ..Default::default() }
    }
}

#[derive(Debug, Clone, Serialize, Deserialize, PartialEq)]
pub struct BName {
    pub name: String,
    pub wide: bool,
    pub rgce: Vec<u8>,
}

#[derive(Debug, Clone, Serialize, Deserialize, PartialEq, Default)]
#[serde(default)]
pub struct XlsDoc {
    pub sheets: Vec<BSheet>,
    pub sst: Vec<SstString>,
    /// FORMAT records: (ifmt, code, class recorded by the generator, 16-bit packing)
    pub formats: Vec<(u16, String, u8, bool)>,
    /// XF records: ifmt of each
    pub xfs: Vec<u16>,
    pub date1904: Option<bool>,
    /// None = no CODEPAGE record
    pub codepage: Option<u16>,
    pub names: Vec<BName>,
    /// EXTERNSHEET XTI entries (itabFirst, itabLast), all internal
    pub xtis: Vec<(i16, i16)>,
    /// FILEPASS payload placed after BOF (+ optional records), for C20
    pub filepass: Option<Vec<u8>>,
    /// records between BOF and FILEPASS (0 none, 1 INTERFACEHDR.., 2 WRITEPROTECT)
    pub before_filepass: u8,
    /// ignorable records sprinkled into the globals
    pub junk: u8,
    /// name of the workbook stream: "Workbook" (BIFF8 default)
    pub stream_name: Option<String>,
    /// additional streams of the compound file (VBA project, decoys)
    pub extra_streams: Vec<CfbStream>,
    pub cfb: CfbLayout,
}

// ---------------------------------------------------------------------------------------------
// SST with split plan

struct SstWriter {
    records: Vec<Vec<u8>>,
    frag: Vec<u8>,
}

impl SstWriter {
    fn room(&self) -> usize {
        MAX_RECORD - self.frag.len()
    }
    fn cut(&mut self) {
        if self.frag.is_empty() {
            return;
        }
        let f = std::mem::take(&mut self.frag);
        self.records.push(f);
    }
    /// bytes that may be split anywhere (run and ext blocks)
    fn raw(&mut self, mut b: &[u8]) {
        while !b.is_empty() {
            if self.room() == 0 {
                self.cut();
            }
            let n = b.len().min(self.room());
            self.frag.extend_from_slice(&b[..n]);
            b = &b[n..];
        }
    }
    /// bytes that must stay together
    fn atom(&mut self, b: &[u8]) {
        if self.room() < b.len() {
            self.cut();
        }
        self.frag.extend_from_slice(b);
    }
    /// characters; `first` = directly after the string header (no flag byte of its own)
    fn chars(&mut self, u: &[u16], wide: bool, first: bool) {
        let wide = wide || !fits_8bit(u);
        let w = if wide { 2 } else { 1 };
        let mut i = 0;
        let mut need_flag = !first;
        loop {
            if need_flag {
                if self.room() < 1 + w {
                    self.cut();
                }
                self.frag.push(wide as u8);
            }
            let mut n = (self.room() / w).min(u.len() - i);
            // never cut between the two halves of a surrogate pair
            if n > 0 && i + n < u.len() && (0xD800..0xDC00).contains(&u[i + n - 1]) {
                n -= 1;
            }
            for c in &u[i..i + n] {
                if wide {
                    self.frag.extend_from_slice(&c.to_le_bytes());
                } else {
                    self.frag.push(*c as u8);
                }
            }
            i += n;
            if i >= u.len() {
                break;
            }
            // the record is full: continue in a new one, which starts with a flag byte
            self.cut();
            need_flag = true;
        }
    }
}

/// SST + CONTINUE records; returns the bytes and the number of CONTINUE records
pub fn sst_records(strings: &[SstString], total_refs: u32) -> (Vec<u8>, usize) {
    let mut w = SstWriter { records: vec![], frag: vec![] };
    let mut head = Vec::new();
    u32le(&mut head, total_refs);
    u32le(&mut head, strings.len() as u32);
    w.frag.extend(head);
    for s in strings {
        if s.cut_before {
            w.cut();
        }
        // segments
        let segs: Vec<(usize, bool)> = if s.segments.is_empty() {
            vec![(s.units.len(), s.wide)]
        } else {
            let mut v: Vec<(usize, bool)> = vec![];
            let mut left = s.units.len();
            for (n, wide) in &s.segments {
                let n = (*n as usize).min(left);
                v.push((n, *wide));
                left -= n;
            }
            if left > 0 {
                v.push((left, true));
            }
            v
        };
        let first_units = &s.units[..segs[0].0];
        let first_wide = segs[0].1 || !fits_8bit(first_units);
        let mut hdr = Vec::new();
        u16le(&mut hdr, s.units.len() as u16);
        let mut flags = first_wide as u8;
        if s.runs > 0 {
            flags |= 0x08;
        }
        if s.ext > 0 {
            flags |= 0x04;
        }
        hdr.push(flags);
        if s.runs > 0 {
            u16le(&mut hdr, s.runs);
        }
        if s.ext > 0 {
            u32le(&mut hdr, s.ext as u32);
        }
        w.atom(&hdr);
        let mut at = 0;
        for (k, (n, wide)) in segs.iter().enumerate() {
            let u = &s.units[at..at + n];
            at += n;
            if k == 0 {
                w.chars(u, first_wide, true);
            } else {
                if *n == 0 {
                    continue;
                }
                w.cut();
                w.chars(u, *wide, false);
            }
        }
        if s.cut_after_chars && (s.runs > 0 || s.ext > 0) {
            w.cut();
        }
        // rgRun: (ich, ifnt) pairs
        for k in 0..s.runs {
            if s.run_cuts.contains(&k) && k > 0 {
                w.cut();
            }
            let mut run = Vec::new();
            u16le(&mut run, k.min(s.units.len() as u16));
            u16le(&mut run, 1 + k % 4);
            w.atom(&run);
        }
        // ExtRst: opaque bytes
        let ext: Vec<u8> = (0..s.ext).map(|i| (i % 251) as u8 | 0x80).collect();
        let mut from = 0usize;
        let mut cuts: Vec<usize> = s.ext_cuts.iter().map(|c| *c as usize).filter(|c| *c > 0 && *c < ext.len()).collect();
        cuts.sort();
        cuts.dedup();
        for c in cuts {
            w.raw(&ext[from..c]);
            w.cut();
            from = c;
        }
        w.raw(&ext[from..]);
    }
    w.cut();
    let mut out = Vec::new();
    let n = w.records.len();
    for (i, r) in w.records.iter().enumerate() {
        u16le(&mut out, if i == 0 { 0x00FC } else { 0x003C });
        u16le(&mut out, r.len() as u16);
        out.extend_from_slice(r);
    }
    (out, n - 1)
}

// ---------------------------------------------------------------------------------------------
// workbook stream

fn bof(dt: u16) -> Vec<u8> {
    let mut d = Vec::new();
    u16le(&mut d, 0x0600);
    u16le(&mut d, dt);
    u16le(&mut d, 0x0DBB);
    u16le(&mut d, 0x07CC);
    u32le(&mut d, 0x0000_00C1);
    u32le(&mut d, 0x0000_0306);
    record(0x0809, &d)
}

fn junk_record(k: u8) -> Vec<u8> {
    match k % 6 {
        0 => record(0x005C, &[0x20; 112]),                                                        // WRITEACCESS
        1 => record(0x003D, &[0x68, 0x01, 0x0E, 0x01, 0x5C, 0x3A, 0xBE, 0x23, 0x38, 0, 0, 0, 0, 0, 1, 0, 0x58, 0x02]), // WINDOW1
        2 => record(0x0031, &[0xC8, 0, 0, 0, 0xFF, 0x7F, 0x90, 0x01, 0, 0, 0, 0, 0, 0, 5, 0, b'A', b'r', b'i', b'a', b'l']), // FONT
        3 => record(0x0FF0, &[1, 2, 3, 4, 5]),                                                    // unknown id
        4 => record(0x00E1, &[0xB0, 0x04]),                                                       // INTERFACEHDR
        _ => record(0x0293, &[0x10, 0x80, 0x00, 0xFF]),                                           // STYLE
    }
}

pub fn workbook_stream(doc: &XlsDoc) -> Vec<u8> {
    // ---- sheet substreams
    let sheet_streams: Vec<Vec<u8>> = doc.sheets.iter().map(sheet_stream).collect();
    let total_refs: u32 = doc.sheets.iter().flat_map(|s| s.cells.iter()).filter(|c| matches!(c.rec, BRec::LabelSst(_))).count() as u32;
    // ---- globals with placeholder offsets, twice
    let build = |offsets: &[u32]| {
        let mut g = bof(0x0005);
        match doc.before_filepass {
            1 => {
                g.extend(junk_record(4));
                g.extend(record(0x00E2, &[])); // INTERFACEEND
            }
            2 => g.extend(record(0x0086, &[])), // WRITEPROTECT
            _ => {}
        }
        if let Some(fp) = &doc.filepass {
            g.extend(record(0x002F, fp));
        }
        if doc.junk & 1 != 0 {
            g.extend(junk_record(0));
        }
        if let Some(cp) = doc.codepage {
            g.extend(record(0x0042, &cp.to_le_bytes()));
        }
        if doc.junk & 2 != 0 {
            g.extend(record(0x013D, &(1..=doc.sheets.len() as u16).flat_map(|i| i.to_le_bytes()).collect::<Vec<u8>>())); // RRTABID
            g.extend(junk_record(1));
        }
        if let Some(d) = doc.date1904 {
            g.extend(record(0x0022, &(d as u16).to_le_bytes()));
        }
        if doc.junk & 4 != 0 {
            g.extend(junk_record(2));
        }
        for (ifmt, code, _, wide) in &doc.formats {
            let mut d = Vec::new();
            u16le(&mut d, *ifmt);
            d.extend(long_string(code, *wide));
            g.extend(record(0x041E, &d));
        }
        for (i, ifmt) in doc.xfs.iter().enumerate() {
            let mut d = Vec::new();
            u16le(&mut d, 0); // ifnt
            u16le(&mut d, *ifmt);
            // style XFs (fStyle) for the first entries as in real files, cell XFs afterwards
            u16le(&mut d, if i < 1 { 0xFFF5 } else { 0x0001 });
            d.extend_from_slice(&[0x20, 0, 0, 0, 0, 0, 0, 0, 0, 0, 0, 0, 0xC0, 0x20]);
            g.extend(record(0x00E0, &d));
        }
        if doc.junk & 8 != 0 {
            g.extend(junk_record(5));
            g.extend(junk_record(3));
        }
        for (i, s) in doc.sheets.iter().enumerate() {
            let mut d = Vec::new();
            u32le(&mut d, offsets[i]);
            d.push(s.state);
            d.push(s.kind);
            d.extend(short_string(&s.name, s.name_wide));
            g.extend(record(0x0085, &d));
        }
        if !doc.xtis.is_empty() || !doc.names.is_empty() {
            // SUPBOOK (internal references) + EXTERNSHEET
            let mut sb = Vec::new();
            u16le(&mut sb, doc.sheets.len() as u16);
            u16le(&mut sb, 0x0401);
            g.extend(record(0x01AE, &sb));
            let mut d = Vec::new();
            u16le(&mut d, doc.xtis.len() as u16);
            for (a, b) in &doc.xtis {
                u16le(&mut d, 0);
                d.extend_from_slice(&a.to_le_bytes());
                d.extend_from_slice(&b.to_le_bytes());
            }
            g.extend(record(0x0017, &d));
        }
        for n in &doc.names {
            let u = units(&n.name);
            let mut d = Vec::new();
            u16le(&mut d, 0); // flags
            d.push(0); // chKey
            d.push(u.len() as u8);
            u16le(&mut d, n.rgce.len() as u16);
            u16le(&mut d, 0);
            u16le(&mut d, 0); // itab: global
            d.extend_from_slice(&[0, 0, 0, 0]);
            d.extend(nocch_string(&n.name, n.wide));
            d.extend_from_slice(&n.rgce);
            g.extend(record(0x0018, &d));
        }
        if !doc.sst.is_empty() || total_refs > 0 {
            g.extend(sst_records(&doc.sst, total_refs).0);
        }
        if doc.junk & 16 != 0 {
            g.extend(junk_record(3));
        }
        g.extend(record(0x000A, &[]));
        g
    };
    let zero = vec![0u32; doc.sheets.len()];
    let glen = build(&zero).len();
    let mut offsets = Vec::new();
    let mut at = glen as u32;
    for s in &sheet_streams {
        offsets.push(at);
        at += s.len() as u32;
    }
    let mut out = build(&offsets);
    debug_assert_eq!(out.len(), glen);
    for s in sheet_streams {
        out.extend(s);
    }
    out
}

fn cell_head(row: u16, col: u16, ixfe: u16) -> Vec<u8> {
    let mut d = Vec::new();
    u16le(&mut d, row);
    u16le(&mut d, col);
    u16le(&mut d, ixfe);
    d
}

pub fn sheet_stream(s: &BSheet) -> Vec<u8> {
    let dt = match s.kind {
        2 => 0x0020,
        1 => 0x0040,
        6 => 0x0006,
        _ => 0x0010,
    };
    let mut out = bof(dt);
    if s.junk & 1 != 0 {
        out.extend(record(0x020B, &[0u8; 16])); // INDEX
        out.extend(record(0x0055, &[8, 0])); // DEFCOLWIDTH
    }
    if s.dimensions > 0 {
        let rows: Vec<u32> = s.cells.iter().map(|c| c.row as u32).collect();
        let cols: Vec<u32> = s.cells.iter().map(|c| c.col as u32).collect();
        let (r0, r1, c0, c1) = match (rows.iter().min(), rows.iter().max(), cols.iter().min(), cols.iter().max()) {
            (Some(a), Some(b), Some(c), Some(d)) => (*a, *b + 1, *c, *d + 1),
            _ => (0, 0, 0, 0),
        };
        let (r0, r1, c0, c1) = if s.dimensions == 2 { (r0.saturating_sub(1), (r1 + 3).min(65536), c0.saturating_sub(1), (c1 + 2).min(256)) } else { (r0, r1, c0, c1) };
        let mut d = Vec::new();
        u32le(&mut d, r0);
        u32le(&mut d, r1);
        u16le(&mut d, c0 as u16);
        u16le(&mut d, c1 as u16);
        u16le(&mut d, 0);
        out.extend(record(0x0200, &d));
    }
    let mut last_row: Option<u16> = None;
    for c in &s.cells {
        if s.junk & 2 != 0 && last_row != Some(c.row) {
            // ROW record before the first cell of each row
            let mut d = Vec::new();
            u16le(&mut d, c.row);
            u16le(&mut d, 0);
            u16le(&mut d, 256);
            u16le(&mut d, 0x00FF);
            u16le(&mut d, 0);
            u16le(&mut d, 0);
            u32le(&mut d, 0x000F_0100);
            out.extend(record(0x0208, &d));
        }
        if s.junk & 4 != 0 && last_row.is_some() && last_row != Some(c.row) {
            out.extend(record(0x00D7, &[0, 0, 0, 0])); // DBCELL
        }
        last_row = Some(c.row);
        match &c.rec {
            BRec::Number(v) => {
                let mut d = cell_head(c.row, c.col, c.ixfe);
                d.extend_from_slice(&v.to_le_bytes());
                out.extend(record(0x0203, &d));
            }
            BRec::Rk(rk) => {
                let mut d = cell_head(c.row, c.col, c.ixfe);
                u32le(&mut d, *rk);
                out.extend(record(0x027E, &d));
            }
            BRec::MulRk(v) => {
                let mut d = Vec::new();
                u16le(&mut d, c.row);
                u16le(&mut d, c.col);
                for (ixfe, rk) in v {
                    u16le(&mut d, *ixfe);
                    u32le(&mut d, *rk);
                }
                u16le(&mut d, c.col + v.len() as u16 - 1);
                out.extend(record(0x00BD, &d));
            }
            BRec::LabelSst(i) => {
                let mut d = cell_head(c.row, c.col, c.ixfe);
                u32le(&mut d, *i);
                out.extend(record(0x00FD, &d));
            }
            BRec::Label(t, wide) => {
                let mut d = cell_head(c.row, c.col, c.ixfe);
                d.extend(long_string(t, *wide));
                out.extend(record(0x0204, &d));
            }
            BRec::Bool(b) => {
                let mut d = cell_head(c.row, c.col, c.ixfe);
                d.push(*b as u8);
                d.push(0);
                out.extend(record(0x0205, &d));
            }
            BRec::Err(e) => {
                let mut d = cell_head(c.row, c.col, c.ixfe);
                d.push(*e);
                d.push(1);
                out.extend(record(0x0205, &d));
            }
            BRec::Formula { value, rgce } => {
                let mut d = cell_head(c.row, c.col, c.ixfe);
                match value {
                    FVal::Num(v) => d.extend_from_slice(&v.to_le_bytes()),
                    FVal::Str(..) => d.extend_from_slice(&[0, 0, 0, 0, 0, 0, 0xFF, 0xFF]),
                    FVal::Bool(b) => d.extend_from_slice(&[1, 0, *b as u8, 0, 0, 0, 0xFF, 0xFF]),
                    FVal::Err(e) => d.extend_from_slice(&[2, 0, *e, 0, 0, 0, 0xFF, 0xFF]),
                    FVal::EmptyStr => d.extend_from_slice(&[3, 0, 0, 0, 0, 0, 0xFF, 0xFF]),
                }
                u16le(&mut d, 0); // flags
                u32le(&mut d, 0); // chn
                u16le(&mut d, rgce.len() as u16);
                d.extend_from_slice(rgce);
                out.extend(record(0x0006, &d));
                // the anchor cell of an array formula: FORMULA, ARRAY, then (for a string result) STRING
                if s.junk & 32 != 0 && c.col % 2 == 0 {
                    let mut a = Vec::new();
                    u16le(&mut a, c.row);
                    u16le(&mut a, c.row);
                    a.push(c.col as u8);
                    a.push(c.col as u8);
                    u16le(&mut a, 0); // flags
                    u32le(&mut a, 0); // unused
                    u16le(&mut a, 3);
                    a.extend_from_slice(&[0x1E, 1, 0]);
                    out.extend(record(0x0221, &a));
                }
                if let FVal::Str(t, wide) = value {
                    out.extend(record(0x0207, &long_string(t, *wide)));
                }
            }
            BRec::Blank => {
                out.extend(record(0x0201, &cell_head(c.row, c.col, c.ixfe)));
            }
            BRec::MulBlank(n) => {
                let mut d = Vec::new();
                u16le(&mut d, c.row);
                u16le(&mut d, c.col);
                for _ in 0..*n {
                    u16le(&mut d, c.ixfe);
                }
                u16le(&mut d, c.col + n - 1);
                out.extend(record(0x00BE, &d));
            }
        }
        if s.junk & 8 != 0 && c.col % 3 == 0 {
            out.extend(record(0x0FF1, &[9, 9])); // unknown record between cells
        }
    }
    if s.junk & 16 != 0 {
        out.extend(record(0x023E, &[0xB6, 0x06, 0, 0, 0, 0, 0x40, 0, 0, 0, 0, 0, 0, 0, 0, 0, 0, 0])); // WINDOW2
    }
    for m in &s.merges {
        let mut d = Vec::new();
        u16le(&mut d, m.len() as u16);
        for (a, b) in m {
            u16le(&mut d, a.0 as u16);
            u16le(&mut d, b.0 as u16);
            u16le(&mut d, a.1 as u16);
            u16le(&mut d, b.1 as u16);
        }
        out.extend(record(0x00E5, &d));
    }
    out.extend(record(0x000A, &[]));
    out
}

pub fn encode(doc: &XlsDoc) -> Vec<u8> {
    let wb = workbook_stream(doc);
    let mut streams = vec![CfbStream::root(doc.stream_name.as_deref().unwrap_or("Workbook"), wb)];
    streams.extend(doc.extra_streams.iter().cloned());
    write_cfb(&streams, &doc.cfb).0
}

// ---------------------------------------------------------------------------------------------
// expected values (written from MS-XLS record semantics)

pub const BERR: [(u8, u8); 8] = [(0x07, 0), (0x2A, 1), (0x1D, 2), (0x00, 3), (0x24, 4), (0x17, 5), (0x0F, 6), (0x2B, 7)];

pub fn berr_to_exp(code: u8) -> Option<u8> {
    BERR.iter().find(|(c, _)| *c == code).map(|(_, k)| *k)
}

pub fn xf_class(doc: &XlsDoc, ixfe: u16) -> u8 {
    match doc.xfs.get(ixfe as usize) {
        Some(ifmt) => match doc.formats.iter().find(|f| f.0 == *ifmt) {
            Some(f) => f.2,
            None => crate::enc::xlsx::builtin_class(*ifmt as u32),
        },
        None => 0,
    }
}

fn numeric(doc: &XlsDoc, ixfe: u16, v: f64, int_form: bool, exact_int: bool) -> Exp {
    match xf_class(doc, ixfe) {
        0 => {
            if exact_int {
                Exp::Int(v as i64)
            } else if int_form {
                Exp::Num(v)
            } else {
                Exp::Float(v)
            }
        }
        c => Exp::DateTime { v, duration: c == 2, is_1904: doc.date1904 == Some(true) },
    }
}

pub fn rk_expected(doc: &XlsDoc, ixfe: u16, rk: u32) -> Exp {
    let (v, is_int) = rk_decode(rk);
    // plain 30-bit integers are Int; the /100 forms are compared numerically
    let exact_int = rk & 3 == 2;
    numeric(doc, ixfe, v, is_int || rk & 3 == 3, exact_int)
}

pub fn expected_values(doc: &XlsDoc, sheet: usize) -> BTreeMap<Pos, Exp> {
    let mut m = BTreeMap::new();
    for c in &doc.sheets[sheet].cells {
        let p = (c.row as u32, c.col as u32);
        match &c.rec {
            BRec::Number(v) => {
                m.insert(p, numeric(doc, c.ixfe, *v, false, false));
            }
            BRec::Rk(rk) => {
                m.insert(p, rk_expected(doc, c.ixfe, *rk));
            }
            BRec::MulRk(v) => {
                for (k, (ixfe, rk)) in v.iter().enumerate() {
                    m.insert((p.0, p.1 + k as u32), rk_expected(doc, *ixfe, *rk));
                }
            }
            BRec::LabelSst(i) => {
                let t = doc.sst[*i as usize].text();
                if !t.is_empty() {
                    m.insert(p, Exp::Str(t));
                }
            }
            BRec::Label(t, _) => {
                m.insert(p, Exp::Str(t.clone()));
            }
            BRec::Bool(b) => {
                m.insert(p, Exp::Bool(*b));
            }
            BRec::Err(e) => {
                m.insert(p, Exp::Err(berr_to_exp(*e).expect("valid BErr")));
            }
            BRec::Formula { value, .. } => {
                let e = match value {
                    FVal::Num(v) => numeric(doc, c.ixfe, *v, false, false),
                    FVal::Str(t, _) => Exp::Str(t.clone()),
                    FVal::Bool(b) => Exp::Bool(*b),
                    FVal::Err(e) => Exp::Err(berr_to_exp(*e).expect("valid BErr")),
                    FVal::EmptyStr => Exp::Str(String::new()),
                };
                m.insert(p, e);
            }
            BRec::Blank | BRec::MulBlank(_) => {}
        }
    }
    m
}
