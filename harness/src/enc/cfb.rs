//! Compound File Binary (MS-CFB) writer with an explicit physical layout parameter:
//! sector size (v3/512, v4/4096), a permutation assigning physical sectors to every chain
//! (streams, directory, mini-FAT, mini-stream container, FAT and DIFAT sectors), free sectors,
//! directory entry order and unused entries, mini-sector permutation, trailing padding.

use serde::{Deserialize, Serialize};

pub const FREESECT: u32 = 0xFFFF_FFFF;
pub const ENDOFCHAIN: u32 = 0xFFFF_FFFE;
pub const FATSECT: u32 = 0xFFFF_FFFD;
pub const DIFSECT: u32 = 0xFFFF_FFFC;

#[derive(Debug, Clone, Serialize, Deserialize, PartialEq)]
pub struct CfbStream {
    /// storages from the root down to the stream's parent (empty = directly under the root)
    pub path: Vec<String>,
    pub name: String,
    pub data: Vec<u8>,
}

impl CfbStream {
    pub fn root(name: &str, data: Vec<u8>) -> CfbStream {
        CfbStream { path: vec![], name: name.to_string(), data }
    }
}

#[derive(Debug, Clone, Serialize, Deserialize, PartialEq, Default)]
#[serde(default)]
pub struct CfbLayout {
    /// major version 4 with 4096-byte sectors (else version 3 with 512-byte sectors)
    pub v4: bool,
    /// seed of the sector permutation; 0 = canonical sequential layout
    pub perm_seed: u64,
    /// seed of the mini-sector permutation; 0 = sequential
    pub mini_perm_seed: u64,
    /// number of free sectors sprinkled into the file
    pub free_sectors: u8,
    /// number of free mini sectors
    pub free_mini: u8,
    /// unused (type 0) directory entries inserted between the used ones
    pub unused_dir_entries: u8,
    /// seed of the directory entry order (root stays first); 0 = as given
    pub dir_order_seed: u64,
    /// bytes appended after the last sector
    pub trailing: u16,
    /// FAT sectors beyond the minimum (an over-allocated FAT: their entries are free sectors that
    /// lie beyond the end of the file)
    pub spare_fat: u8,
}

struct Rng(u64);
impl Rng {
    fn next(&mut self) -> u64 {
        self.0 ^= self.0 >> 12;
        self.0 ^= self.0 << 25;
        self.0 ^= self.0 >> 27;
        self.0.wrapping_mul(0x2545_F491_4F6C_DD1D)
    }
    fn shuffle<T>(&mut self, v: &mut [T]) {
        for i in (1..v.len()).rev() {
            let j = (self.next() % (i as u64 + 1)) as usize;
            v.swap(i, j);
        }
    }
}

fn u16le(v: &mut Vec<u8>, x: u16) {
    v.extend_from_slice(&x.to_le_bytes());
}
fn u32le(v: &mut Vec<u8>, x: u32) {
    v.extend_from_slice(&x.to_le_bytes());
}

struct DirEntry {
    name: String,
    typ: u8, // 0 unused, 1 storage, 2 stream, 5 root
    start: u32,
    size: u64,
    child: u32,
    left: u32,
    right: u32,
}

pub struct CfbInfo {
    pub sectors: usize,
    pub fat_sectors: usize,
    pub difat_sectors: usize,
    pub mini_sectors: usize,
    /// at least one chain whose physical sectors are not ascending
    pub fragmented: bool,
}

pub fn write_cfb(streams: &[CfbStream], layout: &CfbLayout) -> (Vec<u8>, CfbInfo) {
    let ss: usize = if layout.v4 { 4096 } else { 512 };
    let per_sector = ss / 4;

    // ---- directory entries (tree links filled below)
    let mut entries: Vec<DirEntry> = vec![DirEntry { name: "Root Entry".into(), typ: 5, start: ENDOFCHAIN, size: 0, child: FREESECT, left: FREESECT, right: FREESECT }];
    // storages, created on demand; (path) -> entry index
    let mut storage_ix: std::collections::BTreeMap<Vec<String>, usize> = std::collections::BTreeMap::new();
    storage_ix.insert(vec![], 0);
    let mut children: std::collections::BTreeMap<usize, Vec<usize>> = std::collections::BTreeMap::new();
    let mut stream_entry: Vec<usize> = vec![];
    for s in streams {
        for depth in 1..=s.path.len() {
            let p = s.path[..depth].to_vec();
            if !storage_ix.contains_key(&p) {
                let parent = storage_ix[&s.path[..depth - 1].to_vec()];
                entries.push(DirEntry { name: p[depth - 1].clone(), typ: 1, start: 0, size: 0, child: FREESECT, left: FREESECT, right: FREESECT });
                let ix = entries.len() - 1;
                storage_ix.insert(p, ix);
                children.entry(parent).or_default().push(ix);
            }
        }
        let parent = storage_ix[&s.path];
        entries.push(DirEntry { name: s.name.clone(), typ: 2, start: ENDOFCHAIN, size: s.data.len() as u64, child: FREESECT, left: FREESECT, right: FREESECT });
        let ix = entries.len() - 1;
        children.entry(parent).or_default().push(ix);
        stream_entry.push(ix);
    }
    // physical order of directory entries: root first, the rest shuffled, unused entries sprinkled
    let mut order: Vec<Option<usize>> = (1..entries.len()).map(Some).collect();
    for _ in 0..layout.unused_dir_entries {
        order.push(None);
    }
    if layout.dir_order_seed != 0 {
        Rng(layout.dir_order_seed | 1).shuffle(&mut order);
    }
    let mut phys_of: Vec<u32> = vec![0; entries.len()];
    for (k, o) in order.iter().enumerate() {
        if let Some(ix) = o {
            phys_of[*ix] = k as u32 + 1;
        }
    }
    // sibling chains: children of a storage form a right-leaning list (a valid if unbalanced tree)
    for (parent, kids) in &children {
        let mut kids = kids.clone();
        // directory order: shorter names first, then case-insensitive comparison
        kids.sort_by(|a, b| {
            let (na, nb) = (&entries[*a].name, &entries[*b].name);
            (na.encode_utf16().count(), na.to_uppercase()).cmp(&(nb.encode_utf16().count(), nb.to_uppercase()))
        });
        entries[*parent].child = phys_of[kids[0]];
        for w in kids.windows(2) {
            entries[w[0]].right = phys_of[w[1]];
        }
    }

    // ---- mini stream
    let mini_streams: Vec<usize> = (0..streams.len()).filter(|i| !streams[*i].data.is_empty() && streams[*i].data.len() < 4096).collect();
    let mini_needed: usize = mini_streams.iter().map(|i| streams[*i].data.len().div_ceil(64)).sum();
    let total_mini = mini_needed + if mini_needed > 0 { layout.free_mini as usize } else { 0 };
    let mut mini_slots: Vec<u32> = (0..total_mini as u32).collect();
    if layout.mini_perm_seed != 0 {
        Rng(layout.mini_perm_seed | 1).shuffle(&mut mini_slots);
    }
    let mut mini_fat = vec![FREESECT; total_mini];
    let mut mini_container = vec![0u8; total_mini * 64];
    let mut fragmented = false;
    {
        let mut next_slot = 0;
        for i in &mini_streams {
            let data = &streams[*i].data;
            let n = data.len().div_ceil(64);
            let slots = &mini_slots[next_slot..next_slot + n];
            next_slot += n;
            entries[stream_entry[*i]].start = slots[0];
            for (k, slot) in slots.iter().enumerate() {
                let chunk = &data[k * 64..data.len().min((k + 1) * 64)];
                mini_container[*slot as usize * 64..*slot as usize * 64 + chunk.len()].copy_from_slice(chunk);
                mini_fat[*slot as usize] = if k + 1 < n { slots[k + 1] } else { ENDOFCHAIN };
                if k + 1 < n && slots[k + 1] != slot + 1 {
                    fragmented = true;
                }
            }
        }
    }

    // ---- logical chains of regular sectors
    // chain 0: directory, 1: mini-stream container, 2: mini FAT, 3..: big streams; then FAT and DIFAT sectors
    let dir_count = 1 + order.len();
    let dir_bytes = dir_count * 128;
    let dir_sectors = dir_bytes.div_ceil(ss);
    let container_sectors = mini_container.len().div_ceil(ss);
    let mini_fat_sectors = (total_mini * 4).div_ceil(ss);
    let big_streams: Vec<usize> = (0..streams.len()).filter(|i| streams[*i].data.len() >= 4096).collect();
    let big_sectors: Vec<usize> = big_streams.iter().map(|i| streams[*i].data.len().div_ceil(ss)).collect();
    let data_sectors = dir_sectors + container_sectors + mini_fat_sectors + big_sectors.iter().sum::<usize>() + layout.free_sectors as usize;
    let mut fat_sectors = 1usize;
    let mut difat_sectors;
    loop {
        difat_sectors = if fat_sectors <= 109 { 0 } else { (fat_sectors - 109).div_ceil(per_sector - 1) };
        let need = data_sectors + fat_sectors + difat_sectors;
        if fat_sectors * per_sector >= need {
            break;
        }
        fat_sectors += 1;
    }
    if layout.spare_fat > 0 {
        fat_sectors += layout.spare_fat as usize;
        loop {
            difat_sectors = if fat_sectors <= 109 { 0 } else { (fat_sectors - 109).div_ceil(per_sector - 1) };
            if fat_sectors * per_sector >= data_sectors + fat_sectors + difat_sectors {
                break;
            }
            fat_sectors += 1;
        }
    }
    let total = data_sectors + fat_sectors + difat_sectors;
    let mut phys: Vec<u32> = (0..total as u32).collect();
    if layout.perm_seed != 0 {
        Rng(layout.perm_seed | 1).shuffle(&mut phys);
    }
    let mut cursor = 0usize;
    let mut take = |n: usize| -> Vec<u32> {
        let v = phys[cursor..cursor + n].to_vec();
        cursor += n;
        v
    };
    let dir_chain = take(dir_sectors);
    let container_chain = take(container_sectors);
    let mini_fat_chain = take(mini_fat_sectors);
    let big_chains: Vec<Vec<u32>> = big_sectors.iter().map(|n| take(*n)).collect();
    let fat_list = take(fat_sectors);
    let difat_list = take(difat_sectors);
    let _free = take(layout.free_sectors as usize);

    let mut fat = vec![FREESECT; fat_sectors * per_sector];
    let mut sectors: Vec<Vec<u8>> = vec![vec![0u8; ss]; total];
    let mut link = |chain: &[u32], fat: &mut Vec<u32>, fragmented: &mut bool| {
        for (k, s) in chain.iter().enumerate() {
            fat[*s as usize] = if k + 1 < chain.len() { chain[k + 1] } else { ENDOFCHAIN };
            if k + 1 < chain.len() && chain[k + 1] != s + 1 {
                *fragmented = true;
            }
        }
    };
    link(&dir_chain, &mut fat, &mut fragmented);
    link(&container_chain, &mut fat, &mut fragmented);
    link(&mini_fat_chain, &mut fat, &mut fragmented);
    for c in &big_chains {
        link(c, &mut fat, &mut fragmented);
    }
    for s in &fat_list {
        fat[*s as usize] = FATSECT;
    }
    for s in &difat_list {
        fat[*s as usize] = DIFSECT;
    }
    // stream contents
    for (k, i) in big_streams.iter().enumerate() {
        let data = &streams[*i].data;
        entries[stream_entry[*i]].start = big_chains[k][0];
        for (j, s) in big_chains[k].iter().enumerate() {
            let chunk = &data[j * ss..data.len().min((j + 1) * ss)];
            sectors[*s as usize][..chunk.len()].copy_from_slice(chunk);
        }
    }
    for (j, s) in container_chain.iter().enumerate() {
        let chunk = &mini_container[j * ss..mini_container.len().min((j + 1) * ss)];
        sectors[*s as usize][..chunk.len()].copy_from_slice(chunk);
    }
    if !container_chain.is_empty() {
        entries[0].start = container_chain[0];
        entries[0].size = mini_container.len() as u64;
    }
    // mini FAT sectors
    {
        let mut bytes = Vec::with_capacity(mini_fat_sectors * ss);
        for e in &mini_fat {
            u32le(&mut bytes, *e);
        }
        bytes.resize(mini_fat_sectors * ss, 0xFF);
        for (j, s) in mini_fat_chain.iter().enumerate() {
            sectors[*s as usize].copy_from_slice(&bytes[j * ss..(j + 1) * ss]);
        }
    }
    // directory sectors
    {
        let mut bytes = Vec::with_capacity(dir_sectors * ss);
        let mut write_entry = |e: Option<&DirEntry>, bytes: &mut Vec<u8>| {
            let start = bytes.len();
            match e {
                None => {
                    bytes.resize(start + 128, 0);
                    // unused entry: sibling/child ids are NOSTREAM
                    for off in [68usize, 72, 76] {
                        bytes[start + off..start + off + 4].copy_from_slice(&FREESECT.to_le_bytes());
                    }
                }
                Some(e) => {
                    let units: Vec<u16> = e.name.encode_utf16().take(31).collect();
                    for u in &units {
                        u16le(bytes, *u);
                    }
                    // a recycled directory slot keeps the tail of a longer old name after the terminator
                    // (only the terminator and the length field delimit the name)
                    if layout.spare_fat % 2 == 1 || layout.trailing % 2 == 1 {
                        u16le(bytes, 0);
                        for u in "ackup_old".encode_utf16() {
                            if bytes.len() + 2 <= start + 62 {
                                u16le(bytes, u);
                            }
                        }
                    }
                    bytes.resize(start + 64, 0);
                    u16le(bytes, (units.len() as u16 + 1) * 2);
                    bytes.push(e.typ);
                    bytes.push(1); // black
                    u32le(bytes, e.left);
                    u32le(bytes, e.right);
                    u32le(bytes, e.child);
                    bytes.resize(start + 116, 0);
                    u32le(bytes, e.start);
                    bytes.extend_from_slice(&e.size.to_le_bytes());
                }
            }
        };
        write_entry(Some(&entries[0]), &mut bytes);
        for o in &order {
            write_entry(o.map(|ix| &entries[ix]), &mut bytes);
        }
        // pad the last directory sector with unused entries
        while bytes.len() < dir_sectors * ss {
            write_entry(None, &mut bytes);
        }
        for (j, s) in dir_chain.iter().enumerate() {
            sectors[*s as usize].copy_from_slice(&bytes[j * ss..(j + 1) * ss]);
        }
    }
    // FAT sectors
    for (j, s) in fat_list.iter().enumerate() {
        let mut b = Vec::with_capacity(ss);
        for e in &fat[j * per_sector..(j + 1) * per_sector] {
            u32le(&mut b, *e);
        }
        sectors[*s as usize].copy_from_slice(&b);
    }
    // DIFAT sectors
    for (j, s) in difat_list.iter().enumerate() {
        let mut b = Vec::with_capacity(ss);
        let from = 109 + j * (per_sector - 1);
        for k in 0..per_sector - 1 {
            u32le(&mut b, fat_list.get(from + k).copied().unwrap_or(FREESECT));
        }
        u32le(&mut b, difat_list.get(j + 1).copied().unwrap_or(ENDOFCHAIN));
        sectors[*s as usize].copy_from_slice(&b);
    }

    // ---- header
    let mut out = Vec::with_capacity((total + 1) * ss + layout.trailing as usize);
    out.extend_from_slice(&[0xD0, 0xCF, 0x11, 0xE0, 0xA1, 0xB1, 0x1A, 0xE1]);
    out.extend_from_slice(&[0u8; 16]);
    u16le(&mut out, 0x003E);
    u16le(&mut out, if layout.v4 { 4 } else { 3 });
    u16le(&mut out, 0xFFFE);
    u16le(&mut out, if layout.v4 { 12 } else { 9 });
    u16le(&mut out, 6);
    out.extend_from_slice(&[0u8; 6]);
    u32le(&mut out, if layout.v4 { dir_sectors as u32 } else { 0 });
    u32le(&mut out, fat_sectors as u32);
    u32le(&mut out, dir_chain[0]);
    u32le(&mut out, 0);
    u32le(&mut out, 4096);
    u32le(&mut out, mini_fat_chain.first().copied().unwrap_or(ENDOFCHAIN));
    u32le(&mut out, mini_fat_sectors as u32);
    u32le(&mut out, difat_list.first().copied().unwrap_or(ENDOFCHAIN));
    u32le(&mut out, difat_sectors as u32);
    for k in 0..109 {
        u32le(&mut out, fat_list.get(k).copied().unwrap_or(FREESECT));
    }
    assert_eq!(out.len(), 512);
    out.resize(ss, 0);
    for s in &sectors {
        out.extend_from_slice(s);
    }
    out.extend(std::iter::repeat(0xEE).take(layout.trailing as usize));
    (out, CfbInfo { sectors: total, fat_sectors, difat_sectors, mini_sectors: total_mini, fragmented })
}

/// Independent reader used as an encoder self-check: returns the logical bytes of a stream.
pub fn read_back(file: &[u8], name: &str) -> Option<Vec<u8>> {
    let rd32 = |b: &[u8], o: usize| u32::from_le_bytes(b[o..o + 4].try_into().unwrap());
    let shift = u16::from_le_bytes(file[30..32].try_into().unwrap());
    let ss = 1usize << shift;
    let sector = |id: u32| &file[(id as usize + 1) * ss..(id as usize + 2) * ss];
    // DIFAT
    let mut fat_ids: Vec<u32> = (0..109).map(|k| rd32(file, 76 + 4 * k)).filter(|x| *x < DIFSECT).collect();
    let mut d = rd32(file, 68);
    while d < DIFSECT {
        let s = sector(d);
        for k in 0..ss / 4 - 1 {
            let x = rd32(s, 4 * k);
            if x < DIFSECT {
                fat_ids.push(x);
            }
        }
        d = rd32(s, ss - 4);
    }
    let mut fat = vec![];
    for id in fat_ids {
        let s = sector(id);
        for k in 0..ss / 4 {
            fat.push(rd32(s, 4 * k));
        }
    }
    let chain = |start: u32, fat: &[u32]| {
        let mut v = vec![];
        let mut s = start;
        while s != ENDOFCHAIN && s != FREESECT {
            v.extend_from_slice(sector(s));
            s = fat[s as usize];
        }
        v
    };
    let dir = chain(rd32(file, 48), &fat);
    let entries: Vec<&[u8]> = dir.chunks(128).collect();
    let root = entries[0];
    let mini_container = {
        let mut c = chain(rd32(root, 116), &fat);
        c.truncate(u64::from_le_bytes(root[120..128].try_into().unwrap()) as usize);
        c
    };
    let mini_fat_bytes = chain(rd32(file, 60), &fat);
    let mini_fat: Vec<u32> = mini_fat_bytes.chunks(4).map(|c| u32::from_le_bytes(c.try_into().unwrap())).collect();
    for e in entries {
        let nlen = u16::from_le_bytes(e[64..66].try_into().unwrap()) as usize;
        if e[66] != 2 || nlen < 2 {
            continue;
        }
        let units: Vec<u16> = e[..nlen - 2].chunks(2).map(|c| u16::from_le_bytes(c.try_into().unwrap())).collect();
        if String::from_utf16_lossy(&units) != name {
            continue;
        }
        let start = rd32(e, 116);
        let size = if ss == 512 { rd32(e, 120) as usize } else { u64::from_le_bytes(e[120..128].try_into().unwrap()) as usize };
        let mut out;
        if size < 4096 {
            out = vec![];
            let mut s = start;
            while s != ENDOFCHAIN && out.len() < size {
                out.extend_from_slice(&mini_container[s as usize * 64..s as usize * 64 + 64]);
                s = mini_fat[s as usize];
            }
        } else {
            out = chain(start, &fat);
        }
        out.truncate(size);
        return Some(out);
    }
    None
}
