exec(open('mk.py').read().split("sheet='<T:sheetData>")[0])
import html
fmts=['0.00" USD"','"Date: "yyyy','yyyy" year"','0" m"','[h]:mm','0.0','yyyy-mm-dd']
cells=''.join(f'<T:c r="{chr(65+i)}1" s="{i+1}"><T:v>44197</T:v></T:c>' for i in range(len(fmts)))
sheet='<T:sheetData><T:row r="1">'+cells+'</T:row></T:sheetData>'
styles='<T:numFmts>'+''.join(f'<T:numFmt numFmtId="{164+i}" formatCode="{html.escape(f)}"/>' for i,f in enumerate(fmts))+'</T:numFmts><T:cellXfs><T:xf numFmtId="0"/>'+''.join(f'<T:xf numFmtId="{164+i}"/>' for i in range(len(fmts)))+'</T:cellXfs>'
print(styles)
mk('fmt.xlsx','',sheet,None,styles)
