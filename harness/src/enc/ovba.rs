//! MS-OVBA: compressed-container writer with a generated tokenisation, reference decompressor,
//! dir-stream writer and VBA project assembly.

use crate::enc::cfb::{CfbLayout, CfbStream};
use serde::{Deserialize, Serialize};

struct Rng(u64);
impl Rng {
    fn next(&mut self) -> u64 {
        self.0 ^= self.0 >> 12;
        self.0 ^= self.0 << 25;
        self.0 ^= self.0 >> 27;
        self.0.wrapping_mul(0x2545_F491_4F6C_DD1D)
    }
    fn below(&mut self, n: usize) -> usize {
        (self.next() % n.max(1) as u64) as usize
    }
}

#[derive(Debug, Clone, Copy, Serialize, Deserialize, PartialEq)]
pub struct Tokenisation {
    /// 0 literals only, 1 greedy longest match, 2 random legal choice of literal vs copy with random
    /// legal (offset, length), 3 longest match preferring the largest offset
    pub mode: u8,
    pub seed: u64,
    /// write full 4096-byte chunks raw (uncompressed) when the bit for the chunk is set
    pub raw_mask: u8,
}

pub fn bit_count(difference: usize) -> u32 {
    // smallest b >= 4 with 2^b >= difference
    let mut b = 4;
    while (1usize << b) < difference {
        b += 1;
    }
    b
}

#[derive(Debug, Default, Clone)]
pub struct CompressInfo {
    pub chunks: usize,
    pub raw_chunks: usize,
    pub copy_tokens: usize,
    pub overlapping_copies: usize,
    pub max_length_copies: usize,
    /// chunks (except the last) whose final flag group holds exactly 8 tokens
    pub chunk_ends_on_full_group: usize,
    /// the source cannot be stored exactly (incompressible partial last chunk > 3640 bytes)
    pub unrepresentable: bool,
}

fn compress_chunk(src: &[u8], t: &Tokenisation, rng: &mut Rng, info: &mut CompressInfo) -> (Vec<u8>, usize) {
    let mut out = Vec::with_capacity(src.len() + src.len() / 8 + 4);
    let mut i = 0;
    let mut last_group = 0;
    while i < src.len() {
        let flag_pos = out.len();
        out.push(0);
        let mut flags = 0u8;
        let mut n = 0;
        for bit in 0..8 {
            if i >= src.len() {
                break;
            }
            let mut copy: Option<(usize, usize)> = None; // (offset, length)
            if i > 0 && t.mode != 0 {
                let bc = bit_count(i);
                let max_len = ((0xFFFFusize >> bc) + 3).min(src.len() - i);
                if max_len >= 3 {
                    // candidate offsets: near history, offset 1, a few random ones
                    let mut cands: Vec<usize> = (1..=i.min(24)).collect();
                    for _ in 0..6 {
                        cands.push(1 + rng.below(i));
                    }
                    let mut best: Option<(usize, usize)> = None;
                    for off in cands {
                        let mut l = 0;
                        while l < max_len && src[i + l] == src[i + l - off] {
                            l += 1;
                        }
                        if l >= 3 {
                            let better = match (best, t.mode) {
                                (None, _) => true,
                                (Some((_, bl)), 1) => l > bl,
                                (Some((bo, bl)), 3) => l > bl || (l == bl && off > bo),
                                (Some(_), _) => rng.below(2) == 0,
                            };
                            if better {
                                best = Some((off, l));
                            }
                        }
                    }
                    if let Some((off, l)) = best {
                        match t.mode {
                            2 => {
                                if rng.below(10) < 7 {
                                    // any legal length between 3 and the match length
                                    let l2 = if rng.below(3) == 0 { l } else { 3 + rng.below(l - 2) };
                                    copy = Some((off, l2));
                                }
                            }
                            _ => copy = Some((off, l)),
                        }
                        if let Some((off, l)) = copy {
                            info.copy_tokens += 1;
                            if l > off {
                                info.overlapping_copies += 1;
                            }
                            if l == (0xFFFFusize >> bc) + 3 {
                                info.max_length_copies += 1;
                            }
                            let token = (((off - 1) as u16) << (16 - bc)) | (l - 3) as u16;
                            out.extend_from_slice(&token.to_le_bytes());
                            flags |= 1 << bit;
                            i += l;
                        }
                    }
                }
            }
            if copy.is_none() {
                out.push(src[i]);
                i += 1;
            }
            n += 1;
        }
        out[flag_pos] = flags;
        last_group = n;
    }
    (out, last_group)
}

/// compressed container for `src`
pub fn compress(src: &[u8], t: &Tokenisation) -> (Vec<u8>, CompressInfo) {
    let mut rng = Rng(t.seed | 1);
    let mut info = CompressInfo::default();
    let mut out = vec![1u8];
    let nchunks = src.len().div_ceil(4096);
    for (k, chunk) in src.chunks(4096).enumerate() {
        info.chunks += 1;
        let want_raw = chunk.len() == 4096 && (t.raw_mask >> (k % 8)) & 1 == 1;
        let (data, last_group) = if want_raw { (vec![], 0) } else { compress_chunk(chunk, t, &mut rng, &mut info) };
        if want_raw || data.len() > 4096 {
            // raw chunk: only legal for full chunks; a short incompressible tail is kept compressed
            if chunk.len() == 4096 {
                out.extend_from_slice(&(0x3000u16 | 0x0FFF).to_le_bytes());
                out.extend_from_slice(chunk);
                info.raw_chunks += 1;
                continue;
            }
        }
        let size = data.len() + 2;
        if size > 4098 {
            // an incompressible partial chunk of more than ~3640 bytes has no exact encoding
            // (a raw chunk would pad it to 4096 bytes): shorten the literal run by re-encoding
            // is not possible, so the caller must not ask for it
            info.unrepresentable = true;
            return (out, info);
        }
        out.extend_from_slice(&(0xB000u16 | (size as u16 - 3)).to_le_bytes());
        out.extend_from_slice(&data);
        if last_group == 8 && k + 1 < nchunks {
            info.chunk_ends_on_full_group += 1;
        }
    }
    (out, info)
}

/// reference decompressor written from MS-OVBA 2.4.1.3 (used as encoder self-check)
pub fn decompress_ref(c: &[u8]) -> Option<Vec<u8>> {
    if c.first() != Some(&1) {
        return None;
    }
    let mut out = Vec::new();
    let mut i = 1;
    while i < c.len() {
        let header = u16::from_le_bytes([*c.get(i)?, *c.get(i + 1)?]);
        let size = (header & 0x0FFF) as usize + 3;
        if (header >> 12) & 7 != 3 {
            return None;
        }
        let end = (i + size).min(c.len());
        let start = out.len();
        let mut p = i + 2;
        if header & 0x8000 == 0 {
            out.extend_from_slice(c.get(p..p + 4096)?);
            i = p + 4096;
            continue;
        }
        while p < end {
            let flags = c[p];
            p += 1;
            for bit in 0..8 {
                if p >= end {
                    break;
                }
                if flags >> bit & 1 == 0 {
                    out.push(c[p]);
                    p += 1;
                } else {
                    let token = u16::from_le_bytes([c[p], *c.get(p + 1)?]);
                    p += 2;
                    let bc = bit_count(out.len() - start);
                    let len_mask = 0xFFFFu16 >> bc;
                    let len = (token & len_mask) as usize + 3;
                    let off = ((token & !len_mask) >> (16 - bc)) as usize + 1;
                    for _ in 0..len {
                        let b = *out.get(out.len().checked_sub(off)?)?;
                        out.push(b);
                    }
                }
            }
        }
        i = end;
    }
    Some(out)
}

// ---------------------------------------------------------------------------------------------
// dir stream and project

#[derive(Debug, Clone, Serialize, Deserialize, PartialEq)]
pub enum RefKind {
    /// REFERENCEREGISTERED with a libid
    Registered { libid: String },
    /// REFERENCEPROJECT with absolute / relative paths
    Project { absolute: String, relative: String },
    /// REFERENCECONTROL, optionally preceded by REFERENCEORIGINAL and carrying an extended name
    Control { original: Option<String>, twiddled: String, extended_name: Option<String>, extended: String },
}

#[derive(Debug, Clone, Serialize, Deserialize, PartialEq)]
pub struct VbaRef {
    pub name: String,
    pub kind: RefKind,
}

#[derive(Debug, Clone, Serialize, Deserialize, PartialEq)]
pub struct VbaModule {
    pub name: String,
    pub stream_name: String,
    pub source: Vec<u8>,
    /// length of the performance-cache prefix before the compressed source
    pub text_offset: u32,
    /// 0x21 procedural, 0x22 document/class
    pub class: bool,
    pub read_only: bool,
    pub private: bool,
    pub tok: Tokenisation,
}

#[derive(Debug, Clone, Serialize, Deserialize, PartialEq)]
pub struct VbaProjectDesc {
    pub codepage: u16,
    pub compat_version: bool,
    pub refs: Vec<VbaRef>,
    pub modules: Vec<VbaModule>,
    pub dir_tok: Tokenisation,
}

/// bytes of `s` in the project's code page (the generators only use characters whose mapping is
/// the same in every table version: ASCII, Latin-1 upper half for 1252, Cyrillic for 1251,
/// half-width katakana for 932)
pub fn mbcs(s: &str, codepage: u16) -> Vec<u8> {
    s.chars()
        .map(|c| match (codepage, c as u32) {
            (_, x) if x < 0x80 => x as u8,
            (1252, x @ 0xA0..=0xFF) => x as u8,
            (1251, x @ 0x410..=0x44F) => (x - 0x410 + 0xC0) as u8,
            (932, x @ 0xFF61..=0xFF9F) => (x - 0xFF61 + 0xA1) as u8,
            _ => b'?',
        })
        .collect()
}

const CP1252_HIGH: [u16; 32] = [
    0x20AC, 0x0081, 0x201A, 0x0192, 0x201E, 0x2026, 0x2020, 0x2021, 0x02C6, 0x2030, 0x0160, 0x2039, 0x0152, 0x008D, 0x017D, 0x008F, 0x0090, 0x2018, 0x2019, 0x201C, 0x201D, 0x2022, 0x2013, 0x2014, 0x02DC, 0x2122, 0x0161,
    0x203A, 0x0153, 0x009D, 0x017E, 0x0178,
];

/// reference decoder for the same restricted ranges
pub fn mbcs_decode(b: &[u8], codepage: u16) -> String {
    b.iter()
        .map(|x| match (codepage, *x) {
            (_, x) if x < 0x80 => x as char,
            (1252, x @ 0xA0..=0xFF) => char::from_u32(x as u32).unwrap(),
            // windows-1252, 0x80..0x9F (the five unassigned bytes map to the C1 control of the same value)
            (1252, x @ 0x80..=0x9F) => char::from_u32(CP1252_HIGH[(x - 0x80) as usize] as u32).unwrap(),
            (1251, x @ 0xC0..=0xFF) => char::from_u32(x as u32 - 0xC0 + 0x410).unwrap(),
            (932, x @ 0xA1..=0xDF) => char::from_u32(x as u32 - 0xA1 + 0xFF61).unwrap(),
            _ => '\u{FFFD}',
        })
        .collect()
}

fn vrec(id: u16, data: &[u8]) -> Vec<u8> {
    let mut v = Vec::with_capacity(6 + data.len());
    v.extend_from_slice(&id.to_le_bytes());
    v.extend_from_slice(&(data.len() as u32).to_le_bytes());
    v.extend_from_slice(data);
    v
}

fn utf16(s: &str) -> Vec<u8> {
    s.encode_utf16().flat_map(|u| u.to_le_bytes()).collect()
}

fn sized(data: &[u8]) -> Vec<u8> {
    let mut v = (data.len() as u32).to_le_bytes().to_vec();
    v.extend_from_slice(data);
    v
}

pub fn dir_stream(p: &VbaProjectDesc) -> Vec<u8> {
    let cp = p.codepage;
    let mut s = Vec::new();
    // PROJECTINFORMATION
    s.extend(vrec(0x0001, &1u32.to_le_bytes()));
    if p.compat_version {
        s.extend(vrec(0x004A, &3u32.to_le_bytes()));
    }
    s.extend(vrec(0x0002, &0x0409u32.to_le_bytes()));
    s.extend(vrec(0x0014, &0x0409u32.to_le_bytes()));
    s.extend(vrec(0x0003, &cp.to_le_bytes()));
    s.extend(vrec(0x0004, b"VBAProject"));
    s.extend(vrec(0x0005, b"doc"));
    s.extend(vrec(0x0040, &utf16("doc")));
    s.extend(vrec(0x0006, b""));
    s.extend(vrec(0x003D, b""));
    s.extend(vrec(0x0007, &0u32.to_le_bytes()));
    s.extend(vrec(0x0008, &0u32.to_le_bytes()));
    {
        // PROJECTVERSION: id, reserved(4) = 4, major u32, minor u16
        s.extend_from_slice(&0x0009u16.to_le_bytes());
        s.extend_from_slice(&4u32.to_le_bytes());
        s.extend_from_slice(&0x5F0Au32.to_le_bytes());
        s.extend_from_slice(&7u16.to_le_bytes());
    }
    s.extend(vrec(0x000C, b""));
    s.extend(vrec(0x003C, b""));
    // PROJECTREFERENCES
    for r in &p.refs {
        s.extend(vrec(0x0016, &mbcs(&r.name, cp)));
        s.extend(vrec(0x003E, &utf16(&r.name)));
        match &r.kind {
            RefKind::Registered { libid } => {
                let mut body = sized(&mbcs(libid, cp));
                body.extend_from_slice(&0u32.to_le_bytes());
                body.extend_from_slice(&0u16.to_le_bytes());
                s.extend(vrec(0x000D, &body));
            }
            RefKind::Project { absolute, relative } => {
                let mut body = sized(&mbcs(absolute, cp));
                body.extend(sized(&mbcs(relative, cp)));
                body.extend_from_slice(&1u32.to_le_bytes());
                body.extend_from_slice(&2u16.to_le_bytes());
                s.extend(vrec(0x000E, &body));
            }
            RefKind::Control { original, twiddled, extended_name, extended } => {
                if let Some(o) = original {
                    s.extend(vrec(0x0033, &mbcs(o, cp)));
                }
                let mut tw = sized(&mbcs(twiddled, cp));
                tw.extend_from_slice(&0u32.to_le_bytes());
                tw.extend_from_slice(&0u16.to_le_bytes());
                s.extend(vrec(0x002F, &tw));
                if let Some(n) = extended_name {
                    s.extend(vrec(0x0016, &mbcs(n, cp)));
                    s.extend(vrec(0x003E, &utf16(n)));
                }
                let mut ext = sized(&mbcs(extended, cp));
                ext.extend_from_slice(&0u32.to_le_bytes());
                ext.extend_from_slice(&0u16.to_le_bytes());
                ext.extend_from_slice(&[0x11; 16]);
                ext.extend_from_slice(&7u32.to_le_bytes());
                s.extend(vrec(0x0030, &ext));
            }
        }
    }
    // PROJECTMODULES
    s.extend(vrec(0x000F, &(p.modules.len() as u16).to_le_bytes()));
    s.extend(vrec(0x0013, &0xFFFFu16.to_le_bytes()));
    for m in &p.modules {
        s.extend(vrec(0x0019, &mbcs(&m.name, cp)));
        s.extend(vrec(0x0047, &utf16(&m.name)));
        s.extend(vrec(0x001A, &mbcs(&m.stream_name, cp)));
        s.extend(vrec(0x0032, &utf16(&m.stream_name)));
        // MODULEDOCSTRING: empty for most modules, a description for every third text offset
        let doc = if m.text_offset % 3 == 1 { format!("about {}", m.stream_name) } else { String::new() };
        s.extend(vrec(0x001C, &mbcs(&doc, cp)));
        s.extend(vrec(0x0048, &utf16(&doc)));
        s.extend(vrec(0x0031, &m.text_offset.to_le_bytes()));
        s.extend(vrec(0x001E, &0u32.to_le_bytes()));
        s.extend(vrec(0x002C, &0xFFFFu16.to_le_bytes()));
        s.extend(vrec(if m.class { 0x0022 } else { 0x0021 }, b""));
        if m.read_only {
            s.extend(vrec(0x0025, b""));
        }
        if m.private {
            s.extend(vrec(0x0028, b""));
        }
        s.extend(vrec(0x002B, b""));
    }
    s.extend(vrec(0x0010, b""));
    s
}

#[derive(Debug, Default, Clone)]
pub struct ProjectInfo {
    pub compress: CompressInfo,
}

/// streams of a VBA project, rooted at `root` (e.g. [] for vbaProject.bin, ["_VBA_PROJECT_CUR"] in an xls file)
pub fn project_streams(p: &VbaProjectDesc, root: &[String]) -> (Vec<CfbStream>, ProjectInfo) {
    let mut info = ProjectInfo::default();
    let mut vba_path = root.to_vec();
    vba_path.push("VBA".to_string());
    let mut streams = vec![];
    let (dir, _) = compress(&dir_stream(p), &p.dir_tok);
    streams.push(CfbStream { path: vba_path.clone(), name: "dir".into(), data: dir });
    for m in &p.modules {
        let (c, ci) = compress(&m.source, &m.tok);
        info.compress.chunks += ci.chunks;
        info.compress.raw_chunks += ci.raw_chunks;
        info.compress.copy_tokens += ci.copy_tokens;
        info.compress.overlapping_copies += ci.overlapping_copies;
        info.compress.max_length_copies += ci.max_length_copies;
        info.compress.chunk_ends_on_full_group += ci.chunk_ends_on_full_group;
        // performance cache: opaque bytes before the compressed source
        let mut data: Vec<u8> = (0..m.text_offset).map(|i| (i as u8).wrapping_mul(31) ^ 0x5A).collect();
        data.extend(c);
        streams.push(CfbStream { path: vba_path.clone(), name: m.stream_name.clone(), data });
    }
    streams.push(CfbStream { path: vba_path.clone(), name: "_VBA_PROJECT".into(), data: vec![0xCC, 0x61, 0xFF, 0xFF, 0x00, 0x00, 0x00] });
    streams.push(CfbStream { path: root.to_vec(), name: "PROJECT".into(), data: b"ID=\"{00000000-0000-0000-0000-000000000000}\"\r\nName=\"VBAProject\"\r\n".to_vec() });
    (streams, info)
}

pub fn project_file(p: &VbaProjectDesc, layout: &CfbLayout) -> (Vec<u8>, ProjectInfo) {
    let (streams, info) = project_streams(p, &[]);
    (crate::enc::cfb::write_cfb(&streams, layout).0, info)
}
