//! C07 — read calls are pure and the alternative access paths agree.

use crate::enc::{biff8 as b8, ods as od, xlsb as bb, xlsx as xx};
use crate::engine::{guard, replay_as, Ctx, Report};
use crate::model::value::{check_range, Exp, Pos};
use crate::props::Prop;
use calamine::{open_workbook_auto_from_rs, Data, HeaderRow, Ods, Range, Reader, ReaderRef, Sheets, Xls, Xlsb, Xlsx};
use proptest::prelude::*;
use serde::{Deserialize, Serialize};
use std::collections::BTreeMap;
use std::io::Cursor;

pub static PROP: Prop = Prop {
    id: "C07",
    run,
    replay,
    rule: "a workbook from the C01/C17 (xlsx, with formulas, merges, tables), C03 (xlsb), C02 (xls) or C04 (ods) generator, then a history vec(op, 5..40) over {worksheet_range(name), worksheet_range_ref(name), worksheet_range_at(i), worksheets(), worksheet_formula(name), merge-region getters, table getters, vba_project, metadata getters, with_header_row(default | Row(n)), reads of an unknown name}, executed on the format's own reader and on open_workbook_auto_from_rs. Oracle: a memo keyed by (call, arguments, header option in force): every later result equals the first; worksheet_range == worksheet_range_ref converted cell by cell == worksheet_range_at(index of name) == the worksheets() entry of that name (the last only under the default option); an unknown name is an error; the auto-opened history equals the direct one step by step; the default reads equal the model. Non-trivial = the same sheet is read twice with a different kind of call in between, and >= 2 sheets; distinct by serialized case.",
};

#[derive(Debug, Clone, Serialize, Deserialize)]
pub enum Doc {
    Xlsx(xx::XlsxDoc),
    Xlsb(bb::XlsbDoc),
    Xls(crate::props::c02::Case),
    Ods(od::OdsDoc),
}

#[derive(Debug, Clone, Copy, Serialize, Deserialize, PartialEq)]
pub enum Op {
    Range(u8),
    RangeRef(u8),
    RangeAt(u8),
    Worksheets,
    Formula(u8),
    Merge(u8),
    Tables,
    Vba,
    Meta,
    HeaderDefault,
    HeaderRow(u32),
    Unknown,
    /// a name that is not a sheet name but close to one (sheet index, kind of near miss)
    Near(u8, u8),
}

#[derive(Debug, Clone, Serialize, Deserialize)]
pub struct Case {
    pub doc: Doc,
    pub history: Vec<Op>,
}

enum Wb {
    Xlsx(Xlsx<Cursor<Vec<u8>>>),
    Xlsb(Xlsb<Cursor<Vec<u8>>>),
    Xls(Xls<Cursor<Vec<u8>>>),
    Ods(Ods<Cursor<Vec<u8>>>),
    Auto(Sheets<Cursor<Vec<u8>>>),
}

fn canon_range<T: std::fmt::Debug + calamine::CellType>(r: &Range<T>) -> String {
    format!("range {:?}..{:?} {:?}", r.start(), r.end(), r.cells().map(|(_, _, v)| v).collect::<Vec<_>>())
}

fn canon_res<E>(r: Result<Range<Data>, E>) -> String {
    match r {
        Ok(r) => canon_range(&r),
        Err(_) => "Err".to_string(),
    }
}

fn to_owned(r: Range<calamine::DataRef<'_>>) -> Range<Data> {
    match (r.start(), r.end()) {
        (Some(s), Some(e)) => {
            let mut out = Range::new(s, e);
            for (row, col, v) in r.cells() {
                out.set_value((s.0 + row as u32, s.1 + col as u32), Data::from(v.clone()));
            }
            out
        }
        _ => Range::empty(),
    }
}

macro_rules! each {
    ($self:expr, $w:ident => $e:expr) => {
        match $self {
            Wb::Xlsx($w) => $e,
            Wb::Xlsb($w) => $e,
            Wb::Xls($w) => $e,
            Wb::Ods($w) => $e,
            Wb::Auto($w) => $e,
        }
    };
}

impl Wb {
    fn names(&self) -> Vec<String> {
        each!(self, w => w.sheet_names())
    }
    fn exec(&mut self, op: &Op) -> String {
        let names = self.names();
        let name = |i: u8| names.get(i as usize % names.len().max(1)).cloned().unwrap_or_default();
        match op {
            Op::Range(i) => {
                let n = name(*i);
                each!(self, w => canon_res(w.worksheet_range(&n)))
            }
            Op::RangeRef(i) => {
                let n = name(*i);
                match self {
                    Wb::Xlsx(w) => canon_res(w.worksheet_range_ref(&n).map(to_owned)),
                    Wb::Xlsb(w) => canon_res(w.worksheet_range_ref(&n).map(to_owned)),
                    Wb::Auto(w) if matches!(w, Sheets::Xlsx(_) | Sheets::Xlsb(_)) => canon_res(w.worksheet_range_ref(&n).map(to_owned)),
                    _ => "n/a".to_string(),
                }
            }
            Op::RangeAt(i) => {
                let k = *i as usize % (names.len() + 1);
                each!(self, w => match w.worksheet_range_at(k) {
                    None => "None".to_string(),
                    Some(r) => canon_res(r),
                })
            }
            Op::Worksheets => each!(self, w => {
                let v = w.worksheets();
                let mut s = String::new();
                for (n, r) in v {
                    s.push_str(&format!("[{n}] {}\n", canon_range(&r)));
                }
                s
            }),
            Op::Formula(i) => {
                let n = name(*i);
                each!(self, w => match w.worksheet_formula(&n) {
                    Ok(r) => canon_range(&r),
                    Err(_) => "Err".to_string(),
                })
            }
            Op::Merge(i) => {
                let n = name(*i);
                match self {
                    Wb::Xlsx(w) => {
                        let a = format!("{:?}", w.worksheet_merge_cells(&n).map(|r| r.ok()));
                        let _ = w.load_merged_regions();
                        format!("{a} {:?} {:?}", w.merged_regions(), w.merged_regions_by_sheet(&n))
                    }
                    Wb::Xls(w) => format!("{:?}", w.worksheet_merge_cells(&n)),
                    Wb::Auto(Sheets::Xlsx(w)) => {
                        let a = format!("{:?}", w.worksheet_merge_cells(&n).map(|r| r.ok()));
                        let _ = w.load_merged_regions();
                        format!("{a} {:?} {:?}", w.merged_regions(), w.merged_regions_by_sheet(&n))
                    }
                    Wb::Auto(Sheets::Xls(w)) => format!("{:?}", w.worksheet_merge_cells(&n)),
                    _ => "n/a".to_string(),
                }
            }
            Op::Tables => {
                let f = |w: &mut Xlsx<Cursor<Vec<u8>>>| {
                    let _ = w.load_tables();
                    let names: Vec<String> = w.table_names().into_iter().cloned().collect();
                    let mut s = format!("{names:?}");
                    for n in names {
                        match w.table_by_name(&n) {
                            Ok(t) => s.push_str(&format!(" [{} {} {:?} {}]", t.name(), t.sheet_name(), t.columns(), canon_range(t.data()))),
                            Err(_) => s.push_str(" Err"),
                        }
                        match w.table_by_name_ref(&n) {
                            Ok(t) => s.push_str(&format!(" ref[{} {} {:?} {}]", t.name(), t.sheet_name(), t.columns(), canon_range(&to_owned(t.data().clone())))),
                            Err(_) => s.push_str(" refErr"),
                        }
                    }
                    s
                };
                match self {
                    Wb::Xlsx(w) => f(w),
                    Wb::Auto(Sheets::Xlsx(w)) => f(w),
                    _ => "n/a".to_string(),
                }
            }
            Op::Vba => each!(self, w => match w.vba_project() {
                None => "None".to_string(),
                Some(Err(_)) => "Err".to_string(),
                Some(Ok(p)) => {
                    let mut names = p.get_module_names().into_iter().map(|s| s.to_string()).collect::<Vec<_>>();
                    names.sort();
                    let mods: Vec<Option<Vec<u8>>> = names.iter().map(|n| p.get_module_raw(n).ok().map(|b| b.to_vec())).collect();
                    format!("{names:?} {mods:?} {:?}", p.get_references().iter().map(|r| r.name.clone()).collect::<Vec<_>>())
                }
            }),
            Op::Meta => each!(self, w => format!("{:?} {:?} {:?}", w.sheet_names(), w.sheets_metadata(), w.defined_names())),
            Op::HeaderDefault => {
                each!(self, w => { w.with_header_row(HeaderRow::FirstNonEmptyRow); });
                String::new()
            }
            Op::HeaderRow(n) => {
                each!(self, w => { w.with_header_row(HeaderRow::Row(*n)); });
                String::new()
            }
            Op::Near(i, kind) => {
                let real = name(*i);
                let cand = match kind % 6 {
                    0 => real.to_uppercase(),
                    1 => real.to_lowercase(),
                    2 => format!("{real} "),
                    3 => format!(" {real}"),
                    4 => real.chars().skip(1).collect(),
                    _ => String::new(),
                };
                if names.iter().any(|n| *n == cand) {
                    return "is-a-sheet".to_string();
                }
                let a = each!(self, w => w.worksheet_range(&cand).is_err());
                let b = each!(self, w => w.worksheet_formula(&cand).is_err());
                let c = match self {
                    Wb::Xlsx(w) => w.worksheet_range_ref(&cand).is_err(),
                    Wb::Xlsb(w) => w.worksheet_range_ref(&cand).is_err(),
                    Wb::Auto(w) if matches!(w, Sheets::Xlsx(_) | Sheets::Xlsb(_)) => w.worksheet_range_ref(&cand).is_err(),
                    _ => true,
                };
                format!("near-miss {cand:?}: range-err={a} formula-err={b} ref-err={c}")
            }
            Op::Unknown => {
                let a = each!(self, w => w.worksheet_range("\u{1}no such sheet").is_err());
                let b = each!(self, w => w.worksheet_formula("\u{1}no such sheet").is_err());
                let c = each!(self, w => w.worksheet_range_at(names.len() + 3).is_none());
                format!("range-err={a} formula-err={b} at-none={c}")
            }
        }
    }
}

fn bytes_and_model(doc: &Doc) -> (Vec<u8>, Vec<(String, BTreeMap<Pos, Exp>)>) {
    match doc {
        Doc::Xlsx(d) => (xx::encode(d), d.sheets.iter().enumerate().filter(|(_, s)| s.kind == 0).map(|(i, s)| (s.name.clone(), xx::expected_values(d, i))).collect()),
        Doc::Xlsb(d) => (bb::encode(d), d.sheets.iter().enumerate().map(|(i, s)| (s.name.clone(), bb::expected_values(d, i))).collect()),
        Doc::Xls(c) => {
            let d = crate::props::c02::build(c, 0);
            let model = d.sheets.iter().enumerate().map(|(i, s)| (s.name.clone(), b8::expected_values(&d, i))).collect();
            // every other xls workbook carries a VBA project (so that vba_project() has something to
            // return, twice)
            let bytes = if c.junk % 2 == 0 {
                use crate::enc::cfb::{write_cfb, CfbStream};
                let (streams, _) = crate::enc::ovba::project_streams(&crate::props::c06::vba_desc(c.junk as u64 + 1), &["_VBA_PROJECT_CUR".to_string()]);
                let mut all = vec![CfbStream::root("Workbook", b8::workbook_stream(&d))];
                all.extend(streams);
                write_cfb(&all, &d.cfb).0
            } else {
                b8::encode(&d)
            };
            (bytes, model)
        }
        Doc::Ods(d) => (od::encode(d), d.sheets.iter().map(|s| (s.name.clone(), od::expected_values(s))).collect()),
    }
}

fn open(doc: &Doc, bytes: Vec<u8>) -> Result<Wb, String> {
    Ok(match doc {
        Doc::Xlsx(_) => Wb::Xlsx(crate::props::c01::open_xlsx(bytes)?),
        Doc::Xlsb(_) => Wb::Xlsb(crate::props::c03::open_xlsb(bytes)?),
        Doc::Xls(_) => Wb::Xls(crate::props::c02::open_xls(bytes)?),
        Doc::Ods(_) => Wb::Ods(crate::props::c04::open_ods(bytes)?),
    })
}

fn oracle(case: &Case) -> Report {
    let mut rep = Report::new();
    let (bytes, model) = bytes_and_model(&case.doc);
    let fresh_bytes = bytes.clone();
    let mut direct = match open(&case.doc, bytes.clone()) {
        Ok(w) => w,
        Err(e) => {
            rep.fail(e);
            return rep;
        }
    };
    let mut auto = match guard(|| open_workbook_auto_from_rs(Cursor::new(bytes))) {
        Ok(Ok(s)) => Wb::Auto(s),
        Ok(Err(e)) => {
            rep.fail(format!("open_workbook_auto_from_rs fails on a workbook the format's reader opens: {e:?}"));
            return rep;
        }
        Err(p) => {
            rep.fail(format!("open_workbook_auto_from_rs: {p}"));
            return rep;
        }
    };
    let detected = match &auto {
        Wb::Auto(Sheets::Xlsx(_)) => "xlsx",
        Wb::Auto(Sheets::Xlsb(_)) => "xlsb",
        Wb::Auto(Sheets::Xls(_)) => "xls",
        _ => "ods",
    };
    let actual = match case.doc {
        Doc::Xlsx(_) => "xlsx",
        Doc::Xlsb(_) => "xlsb",
        Doc::Xls(_) => "xls",
        Doc::Ods(_) => "ods",
    };
    rep.label(format!("format:{actual}"));
    if detected != actual {
        rep.fail(format!("auto-detection opened a {actual} workbook as {detected}"));
        return rep;
    }
    // the default reads equal the model
    for (name, expected) in &model {
        let r = guard(|| each!(&mut direct, w => w.worksheet_range(name).map_err(|e| format!("{e:?}"))));
        match r {
            Ok(Ok(r)) => {
                if let Err(e) = check_range(&r, expected, &format!("worksheet_range({name:?})")) {
                    rep.fail(e);
                    return rep;
                }
            }
            other => {
                rep.fail(format!("worksheet_range({name:?}): {:?}", other.map(|r| r.map(|_| ()))));
                return rep;
            }
        }
    }
    let names = direct.names();
    let n = names.len().max(1);
    // history
    let mut header = "default".to_string();
    let mut memo: BTreeMap<String, (usize, String)> = BTreeMap::new();
    // (sheet index, header) -> canonical range, from any of the equivalent paths
    let mut by_sheet: BTreeMap<(usize, String), (usize, String)> = BTreeMap::new();
    let mut kinds_on_sheet: BTreeMap<usize, Vec<&'static str>> = BTreeMap::new();
    // a header row far above the data makes the (dense) range huge: such option changes are
    // replaced by a reset, so that the history stays cheap (C08 covers the option itself)
    let too_big = |k: u32| {
        model.iter().any(|(_, m)| match crate::model::value::bbox(m.keys()) {
            Some((s, e)) if k <= e.0 => (e.0 - k.min(s.0) + 1) as u64 * (e.1 - s.1 + 1) as u64 > 100_000,
            _ => false,
        })
    };
    let history: Vec<Op> = case.history.iter().map(|op| match op {
        Op::HeaderRow(k) if too_big(*k) => Op::HeaderDefault,
        o => *o,
    }).collect();
    for (step, op) in history.iter().enumerate() {
        let a = guard(|| direct.exec(op));
        let b = guard(|| auto.exec(op));
        let (a, b) = match (a, b) {
            (Ok(a), Ok(b)) => (a, b),
            (Err(p), _) => {
                rep.fail(format!("step {step} {op:?}: {p}"));
                return rep;
            }
            (_, Err(p)) => {
                rep.fail(format!("step {step} {op:?} on the auto-detected workbook: {p}"));
                return rep;
            }
        };
        if a != b {
            rep.fail(format!("step {step} {op:?}: the auto-detected workbook returns {}, the {actual} reader {}", cut(&b), cut(&a)));
            return rep;
        }
        match op {
            Op::HeaderDefault => header = "default".into(),
            Op::HeaderRow(k) => header = format!("row{k}"),
            _ => {}
        }
        // purity
        let depends_on_header = matches!(op, Op::Range(_) | Op::RangeRef(_) | Op::RangeAt(_) | Op::Worksheets | Op::Tables);
        let key = format!("{op:?}|{}", if depends_on_header { header.as_str() } else { "" });
        if !matches!(op, Op::HeaderDefault | Op::HeaderRow(_)) {
            match memo.get(&key) {
                Some((first, r)) if *r != a => {
                    rep.fail(format!("step {step} {op:?} (header option {header}) returns {}, the same call at step {first} returned {}", cut(&a), cut(r)));
                    return rep;
                }
                Some(_) => rep.label("repeated-call"),
                None => {
                    // first time this call is made under this option: a freshly opened workbook
                    // with only the option replayed must answer the same
                    let fresh = guard(|| {
                        let mut w = open(&case.doc, fresh_bytes.clone())?;
                        match header.strip_prefix("row") {
                            Some(k) => {
                                let k: u32 = k.parse().unwrap_or(0);
                                each!(&mut w, x => { x.with_header_row(HeaderRow::Row(k)); });
                            }
                            None => each!(&mut w, x => { x.with_header_row(HeaderRow::FirstNonEmptyRow); }),
                        }
                        Ok::<String, String>(w.exec(op))
                    });
                    match fresh {
                        Ok(Ok(f)) if f == a => {}
                        Ok(Ok(f)) => {
                            rep.fail(format!("step {step} {op:?} (header option {header}) returns {}, a freshly opened workbook under the same option returns {}", cut(&a), cut(&f)));
                            return rep;
                        }
                        other => {
                            rep.fail(format!("step {step} {op:?}: the call on a freshly opened workbook failed: {other:?}"));
                            return rep;
                        }
                    }
                    memo.insert(key, (step, a.clone()));
                }
            }
        }
        // alternative access paths
        let sheet_of = match op {
            Op::Range(i) | Op::RangeRef(i) => Some(*i as usize % n),
            Op::RangeAt(i) => {
                let k = *i as usize % (names.len() + 1);
                (k < names.len()).then_some(k)
            }
            _ => None,
        };
        if let (Some(s), true) = (sheet_of, a != "n/a") {
            kinds_on_sheet.entry(s).or_default().push(match op {
                Op::Range(_) => "range",
                Op::RangeRef(_) => "range_ref",
                _ => "range_at",
            });
            match by_sheet.get(&(s, header.clone())) {
                Some((first, r)) if *r != a => {
                    rep.fail(format!("step {step} {op:?} returns {} for sheet {:?}, an equivalent access path at step {first} returned {} (header option {header})", cut(&a), names[s], cut(r)));
                    return rep;
                }
                Some(_) => {}
                None => {
                    by_sheet.insert((s, header.clone()), (step, a.clone()));
                }
            }
        }
        if let (Op::Worksheets, true) = (op, header == "default") {
            for (i, nm) in names.iter().enumerate() {
                if let Some((first, r)) = by_sheet.get(&(i, "default".to_string())) {
                    if r != "Err" && !a.contains(&format!("[{nm}] {r}\n")) {
                        rep.fail(format!("step {step} worksheets(): the entry for {nm:?} differs from worksheet_range at step {first}: {}", cut(r)));
                        return rep;
                    }
                }
            }
            for s in 0..names.len() {
                kinds_on_sheet.entry(s).or_default().push("worksheets");
            }
        }
        if let Op::Near(..) = op {
            rep.label("near-miss-name");
            if a != "is-a-sheet" && !a.ends_with("range-err=true formula-err=true ref-err=true") {
                rep.fail(format!("step {step}: a name that is not in sheet_names() is served: {a}"));
                return rep;
            }
        }
        if let Op::Unknown = op {
            if a != "range-err=true formula-err=true at-none=true" {
                rep.fail(format!("step {step}: reads of an unknown sheet: {a}"));
                return rep;
            }
        }
        if matches!(op, Op::Formula(_) | Op::Merge(_) | Op::Tables | Op::Vba | Op::Meta) {
            for v in kinds_on_sheet.values_mut() {
                v.push("other");
            }
        }
    }
    let interleaved = kinds_on_sheet.values().any(|v| {
        let reads: Vec<usize> = v.iter().enumerate().filter(|(_, k)| **k != "other").map(|(i, _)| i).collect();
        reads.len() >= 2 && v[reads[0]..=*reads.last().unwrap()].iter().collect::<std::collections::BTreeSet<_>>().len() >= 2
    });
    rep.label_if(interleaved, "interleaved-reads");
    rep.nontrivial = interleaved && names.len() >= 2;
    rep
}

fn cut(s: &str) -> String {
    if s.len() > 400 {
        let mut k = 400;
        while !s.is_char_boundary(k) {
            k -= 1;
        }
        format!("{}…", &s[..k])
    } else {
        s.to_string()
    }
}

fn case_strategy() -> impl Strategy<Value = Case> {
    let doc = prop_oneof![
        3 => crate::props::c17::case_strategy().prop_map(|c| Doc::Xlsx(c.doc)),
        2 => crate::props::c03::case_strategy().prop_map(|c| Doc::Xlsb(c.doc)),
        2 => crate::props::c02::case_strategy().prop_map(Doc::Xls),
        2 => crate::props::c04::case_strategy().prop_map(|c| Doc::Ods(c.doc)),
    ];
    let op = prop_oneof![
        4 => (0u8..4).prop_map(Op::Range),
        3 => (0u8..4).prop_map(Op::RangeRef),
        3 => (0u8..4).prop_map(Op::RangeAt),
        2 => Just(Op::Worksheets),
        2 => (0u8..4).prop_map(Op::Formula),
        2 => (0u8..4).prop_map(Op::Merge),
        1 => Just(Op::Tables),
        1 => Just(Op::Vba),
        1 => Just(Op::Meta),
        2 => Just(Op::HeaderDefault),
        2 => prop_oneof![Just(0u32), Just(1), Just(3), 0u32..40, Just(70_000), Just(u32::MAX)].prop_map(Op::HeaderRow),
        1 => Just(Op::Unknown),
        2 => (0u8..4, 0u8..6).prop_map(|(i, k)| Op::Near(i, k)),
    ];
    (doc, proptest::collection::vec(op, 5..40), proptest::option::weighted(0.4, 0usize..4)).prop_map(|(mut doc, history, chart_at)| {
        // a chart sheet among the worksheets: positions in sheet_names() and positions among the
        // worksheets then differ, which is what worksheet_range_at(n) must not confuse
        if let (Doc::Xlsx(d), Some(k)) = (&mut doc, chart_at) {
            let k = k.min(d.sheets.len());
            d.sheets.insert(k, xx::XSheet { name: "Chart 1".into(), kind: 1, ..Default::default() });
        }
        // workbook order is not name order: half of the workbooks get their first and last sheet
        // names exchanged (readers that keep sheets in a name-keyed map must still answer in
        // workbook order)
        if history.len() % 2 == 0 {
            match &mut doc {
                Doc::Xlsx(d) if d.sheets.len() >= 2 => {
                    let n = d.sheets.len() - 1;
                    let (a, b) = (d.sheets[0].name.clone(), d.sheets[n].name.clone());
                    d.sheets[0].name = b;
                    d.sheets[n].name = a;
                }
                Doc::Xlsb(d) if d.sheets.len() >= 2 => {
                    let n = d.sheets.len() - 1;
                    let (a, b) = (d.sheets[0].name.clone(), d.sheets[n].name.clone());
                    d.sheets[0].name = b;
                    d.sheets[n].name = a;
                }
                Doc::Xls(c) if c.sheets.len() >= 2 => {
                    let n = c.sheets.len() - 1;
                    let (a, b) = (c.sheets[0].name.clone(), c.sheets[n].name.clone());
                    c.sheets[0].name = b;
                    c.sheets[n].name = a;
                }
                Doc::Ods(d) if d.sheets.len() >= 2 => {
                    let n = d.sheets.len() - 1;
                    let (a, b) = (d.sheets[0].name.clone(), d.sheets[n].name.clone());
                    d.sheets[0].name = b;
                    d.sheets[n].name = a;
                }
                _ => {}
            }
        }
        Case { doc, history }
    })
}

/// `open_workbook_auto(path)`: the reader is chosen by the file extension (every alias of the
/// format's extensions) or, for an unknown or missing extension, by probing the content
#[derive(Debug, Clone, Serialize, Deserialize)]
pub struct PathCase {
    pub doc: Doc,
    pub ext: u8,
}

fn path_strategy() -> impl Strategy<Value = PathCase> {
    (case_strategy(), 0u8..8).prop_map(|(c, ext)| PathCase { doc: c.doc, ext })
}

fn oracle_path(case: &PathCase) -> Report {
    let mut rep = Report::new();
    let (bytes, _) = bytes_and_model(&case.doc);
    let (fmt, exts): (&str, &[&str]) = match case.doc {
        Doc::Xlsx(_) => ("xlsx", &["xlsx", "xlsm", "xlam"]),
        Doc::Xlsb(_) => ("xlsb", &["xlsb"]),
        Doc::Xls(_) => ("xls", &["xls", "xla"]),
        Doc::Ods(_) => ("ods", &["ods"]),
    };
    // the format's own extensions first, then names that force content probing
    let probing = ["dat", "", "bin", "XLSX2"];
    let k = case.ext as usize;
    let ext = if k < exts.len() { exts[k] } else { probing[(k - exts.len()) % probing.len()] };
    rep.label(format!("{fmt}:.{ext}"));
    let dir = std::path::PathBuf::from(format!("{}/harness/target/scratch/autopath-{}-{:?}", crate::engine::VERIF_ROOT, std::process::id(), std::thread::current().id()));
    if std::fs::create_dir_all(&dir).is_err() {
        rep.fail("HARNESS-SELF-CHECK: cannot create the scratch directory".to_string());
        return rep;
    }
    let path = if ext.is_empty() { dir.join("book") } else { dir.join(format!("book.{ext}")) };
    if std::fs::write(&path, &bytes).is_err() {
        rep.fail("HARNESS-SELF-CHECK: cannot write the scratch file".to_string());
        return rep;
    }
    let direct = match open(&case.doc, bytes) {
        Ok(w) => w,
        Err(e) => {
            let _ = std::fs::remove_file(&path);
            let _ = std::fs::remove_dir(&dir);
            rep.fail(e);
            return rep;
        }
    };
    let auto = guard(|| calamine::open_workbook_auto(&path));
    let _ = std::fs::remove_file(&path);
    let _ = std::fs::remove_dir(&dir);
    match auto {
        Ok(Ok(mut wb)) => {
            let detected = match &wb {
                Sheets::Xlsx(_) => "xlsx",
                Sheets::Xlsb(_) => "xlsb",
                Sheets::Xls(_) => "xls",
                Sheets::Ods(_) => "ods",
            };
            if detected != fmt {
                rep.fail(format!("open_workbook_auto(book.{ext}) opened a {fmt} workbook with the {detected} reader"));
                return rep;
            }
            let names = direct.names();
            if wb.sheet_names() != names {
                rep.fail(format!("open_workbook_auto(book.{ext}): sheet names {:?}, the {fmt} reader gives {names:?}", wb.sheet_names()));
                return rep;
            }
            let mut direct = direct;
            for n in names.iter().take(2) {
                let a = guard(|| canon_res(wb.worksheet_range(n)));
                let b = guard(|| direct.exec(&Op::Range(names.iter().position(|x| x == n).unwrap_or(0) as u8)));
                if a != b {
                    rep.fail(format!("open_workbook_auto(book.{ext}): worksheet_range({n:?}) differs from the {fmt} reader"));
                    return rep;
                }
            }
            rep.nontrivial = true;
        }
        Ok(Err(e)) => rep.fail(format!("open_workbook_auto(book.{ext}) fails on a workbook the {fmt} reader opens: {e:?}")),
        Err(p) => rep.fail(format!("open_workbook_auto(book.{ext}): {p}")),
    }
    rep
}

fn run(ctx: &mut Ctx) {
    let n = ctx.n(3000, 60_000);
    ctx.run("history", n, case_strategy, oracle);
    let n = ctx.n(150, 6000);
    ctx.run("auto-path", n, path_strategy, oracle_path);
    ctx.assumptions.push("results are compared through their Debug rendering (ranges: bounds and every cell; errors: only the fact that the call failed)".into());
}

fn replay(sub: &str, case: &serde_json::Value) -> Option<Report> {
    match sub {
        "history" => replay_as::<Case>(case, oracle),
        "auto-path" => replay_as::<PathCase>(case, oracle_path),
        _ => None,
    }
}
