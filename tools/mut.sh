#!/bin/bash
# tools/mut.sh "<file|||old|||new>" ID [ID...] — apply a textual mutation to /repo, run quick checks, restore.
spec="$1"; shift
before=$(mktemp); find /verif/replays -type f | sort > $before
python3 - "$spec" <<'PY' || { rm -f $before; exit 3; }
import sys
f,old,new=sys.argv[1].split('|||')
p='/repo/'+f
s=open(p).read()
if s.count(old)<1:
    print("MUTATION TARGET NOT FOUND", old); sys.exit(1)
s=s.replace(old,new,1)
open(p,'w').write(s)
PY
for id in "$@"; do
  out=$(cd /verif && VERIF_SEED=${VERIF_SEED:-0} ./check $id 2>/dev/null | grep -v conda)
  if echo "$out" | grep -q "^VIOLATION"; then echo "  CAUGHT by $id: $(echo "$out" | grep -A2 '^VIOLATION' | grep -v '^VIOLATION' | grep -v 'sub-check' | head -1 | cut -c1-220)"; else echo "  MISSED by $id: $(echo "$out" | tail -1 | cut -c1-160)"; fi
done
git -C /repo checkout -- .
# remove only the replay files the mutant produced
find /verif/replays -type f | sort | comm -13 $before - | xargs -r rm -f
rm -f $before
