//! C17 — merged regions and tables are reported with the geometry the file declares.

use crate::enc::xlsx::*;
use crate::engine::{guard, replay_as, Ctx, Report};
use crate::model::value::{Exp, Pos};
use crate::props::c01::{doc_strategy, open_xlsx};
use crate::props::Prop;
use calamine::{Data, DataRef, Dimensions, Range, Reader};
use proptest::prelude::*;
use serde::{Deserialize, Serialize};
use std::collections::BTreeMap;

pub static PROP: Prop = Prop {
    id: "C17",
    run,
    replay,
    rule: "xlsx workbooks (1-3 sheets from the C01 generator) with 0-12 mergeCell references per sheet anywhere up to XFD1048576 (single cells and areas) and 0-3 tables per sheet whose ref lies inside / straddles / lies outside the used range (also on an empty sheet), headerRowCount absent/0/1, totalsRowCount absent/0/1, >= 1 data row, 1-8 columns whose names include XML specials; every getter is compared with the declared geometry and the table data range with the model's values over ref minus header and totals rows. xls: 1-3 sheets whose regions are split over 0-3 MERGEDCELLS records, stored under a generated compound-file layout. Non-trivial = >= 2 sheets carrying regions, a region with a column >= 26, and a table that straddles the used range or has a totals row; distinct by serialized case.",
};

#[derive(Debug, Clone, Serialize, Deserialize)]
pub struct Case {
    pub doc: XlsxDoc,
}

fn region() -> impl Strategy<Value = (Pos, Pos)> {
    let row = prop_oneof![3 => 0u32..50, 1 => Just(1_048_575u32), 1 => Just(65_535u32), 1 => 0u32..1_048_576];
    let col = prop_oneof![3 => 0u32..30, 1 => Just(25u32), 1 => Just(26u32), 1 => Just(701u32), 1 => Just(702u32), 1 => Just(16_383u32), 1 => 0u32..16_384];
    (row, col, prop_oneof![2 => Just(0u32), 2 => 1u32..5, 1 => 0u32..2000], prop_oneof![2 => Just(0u32), 2 => 1u32..5, 1 => 0u32..300]).prop_map(|(r, c, h, w)| ((r, c), ((r + h).min(1_048_575), (c + w).min(16_383))))
}

const COLNAMES: &[&str] = &["Id", "A&B", "x<y", "Col \"q\"", "Ünits", "it's", "n > 0", "Total", "c9", "a;b"];

pub fn case_strategy() -> impl Strategy<Value = Case> {
    doc_strategy().prop_flat_map(|doc| {
        let n = doc.sheets.len();
        // per sheet: merges and table descriptions relative to the sheet's used box
        let per_sheet = proptest::collection::vec(
            (
                proptest::collection::vec(region(), 0..13),
                proptest::collection::vec((0u8..4, 0u32..6, 0u32..6, 1u32..5, 1usize..9, proptest::option::of(0u32..2), proptest::option::of(0u32..2), any::<[u8; 8]>()), 0..4),
            ),
            n..=n,
        );
        (Just(doc), per_sheet).prop_map(|(mut doc, per)| {
            let mut tno = 0;
            for (sheet, (merges, tables)) in doc.sheets.iter_mut().zip(per) {
                sheet.merges = merges;
                let cells: Vec<Pos> = sheet.rows.iter().flat_map(|r| r.cells.iter().filter(|c| c.value != XVal::None).map(move |c| (r.r, c.col))).collect();
                let bb = crate::model::value::bbox(cells.iter());
                for (place, jr, jc, data_rows, ncols, hdr, tot, pick) in tables {
                    tno += 1;
                    let ((r0, c0), (r1, c1)) = bb.unwrap_or(((5, 5), (5, 5)));
                    let h = hdr.unwrap_or(1) + tot.unwrap_or(0) + data_rows;
                    let w = ncols as u32;
                    // 0 inside-ish (anchored at the used box), 1 straddling the bottom/right edge, 2 outside, 3 straddling top/left
                    let (tr, tc) = match place {
                        0 => (r0 + jr.min(r1 - r0), c0 + jc.min(c1 - c0)),
                        1 => (r1.saturating_sub(jr.min(h - 1)), c1.saturating_sub(jc.min(w - 1))),
                        2 => (r1 + 2 + jr, c1 + 2 + jc),
                        _ => (r0.saturating_sub(jr.min(h - 1)), c0.saturating_sub(jc.min(w - 1))),
                    };
                    let tr = tr.min(1_048_576 - h);
                    let tc = tc.min(16_384 - w);
                    let columns = (0..ncols).map(|k| format!("{}{}", COLNAMES[pick[k % 8] as usize % COLNAMES.len()], k)).collect();
                    sheet.tables.push(XTable { name: format!("Tbl_{tno}"), range: ((tr, tc), (tr + h - 1, tc + w - 1)), header_rows: hdr, totals_rows: tot, columns });
                }
            }
            Case { doc }
        })
    })
}

fn dims(r: (Pos, Pos)) -> Dimensions {
    Dimensions { start: r.0, end: r.1 }
}

fn check_table_data(what: &str, data: &Range<Data>, bounds: (Pos, Pos), values: &BTreeMap<Pos, Exp>) -> Result<(), String> {
    if data.start() != Some(bounds.0) || data.end() != Some(bounds.1) {
        return Err(format!("{what}: data range {:?}..{:?}, expected {:?}..{:?} (ref minus header and totals rows)", data.start(), data.end(), bounds.0, bounds.1));
    }
    for r in bounds.0 .0..=bounds.1 .0 {
        for c in bounds.0 .1..=bounds.1 .1 {
            let g = data.get_value((r, c));
            match (values.get(&(r, c)), g) {
                (Some(x), Some(d)) if x.matches(d) => {}
                (None, Some(Data::Empty)) => {}
                (x, d) => return Err(format!("{what}: data cell ({r},{c}): expected {x:?}, got {d:?}")),
            }
        }
    }
    Ok(())
}

fn oracle(case: &Case) -> Report {
    let mut rep = Report::new();
    let doc = &case.doc;
    let mut wb = match open_xlsx(encode(doc)) {
        Ok(w) => w,
        Err(e) => {
            rep.fail(e);
            return rep;
        }
    };
    // ---- merged regions, per sheet
    for (i, sheet) in doc.sheets.iter().enumerate() {
        let expected: Vec<Dimensions> = sheet.merges.iter().map(|m| dims(*m)).collect();
        for (what, got) in [
            ("worksheet_merge_cells", guard(|| wb.worksheet_merge_cells(&sheet.name))),
            ("worksheet_merge_cells_at", guard(|| wb.worksheet_merge_cells_at(i))),
        ] {
            match got {
                Ok(Some(Ok(v))) if v == expected => {}
                Ok(other) => {
                    rep.fail(format!("{what}({:?}) = {:?}, expected {:?}", sheet.name, other.map(|r| r.map_err(|e| e.to_string())), expected));
                    return rep;
                }
                Err(p) => {
                    rep.fail(format!("{what}({:?}): {p}", sheet.name));
                    return rep;
                }
            }
        }
    }
    match guard(|| wb.worksheet_merge_cells("no such sheet").is_none() && wb.worksheet_merge_cells_at(doc.sheets.len()).is_none()) {
        Ok(true) => {}
        other => {
            rep.fail(format!("merge cells of an unknown sheet: expected None, got {other:?}"));
            return rep;
        }
    }
    // ---- merged regions, workbook level
    match guard(|| wb.load_merged_regions()) {
        Ok(Ok(())) => {}
        other => {
            rep.fail(format!("load_merged_regions: {:?}", other.map(|r| r.map_err(|e| e.to_string()))));
            return rep;
        }
    }
    let expected_all: Vec<(String, String, Dimensions)> = doc.sheets.iter().enumerate().flat_map(|(i, s)| s.merges.iter().map(move |m| (s.name.clone(), sheet_path(i, s.kind), dims(*m)))).collect();
    match guard(|| wb.merged_regions().clone()) {
        Ok(v) if v == expected_all => {}
        Ok(v) => {
            rep.fail(format!("merged_regions() = {v:?}, expected {expected_all:?}"));
            return rep;
        }
        Err(p) => {
            rep.fail(format!("merged_regions(): {p}"));
            return rep;
        }
    }
    for s in &doc.sheets {
        let exp: Vec<(String, String, Dimensions)> = expected_all.iter().filter(|e| e.0 == s.name).cloned().collect();
        let got: Result<Vec<(String, String, Dimensions)>, String> = guard(|| wb.merged_regions_by_sheet(&s.name).into_iter().map(|(a, b, c)| (a.clone(), b.clone(), *c)).collect());
        if got.as_ref().ok() != Some(&exp) {
            rep.fail(format!("merged_regions_by_sheet({:?}) = {got:?}, expected {exp:?}", s.name));
            return rep;
        }
    }
    // ---- tables
    match guard(|| wb.load_tables()) {
        Ok(Ok(())) => {}
        other => {
            rep.fail(format!("load_tables: {:?}", other.map(|r| r.map_err(|e| e.to_string()))));
            return rep;
        }
    }
    let all_tables: Vec<(usize, &XTable)> = doc.sheets.iter().enumerate().flat_map(|(i, s)| s.tables.iter().map(move |t| (i, t))).collect();
    let names: Vec<String> = guard(|| wb.table_names().into_iter().cloned().collect()).unwrap_or_default();
    let exp_names: Vec<String> = all_tables.iter().map(|(_, t)| t.name.clone()).collect();
    if names != exp_names {
        rep.fail(format!("table_names() = {names:?}, expected {exp_names:?}"));
        return rep;
    }
    for (i, s) in doc.sheets.iter().enumerate() {
        let got: Vec<String> = guard(|| wb.table_names_in_sheet(&s.name).into_iter().cloned().collect()).unwrap_or_default();
        let exp: Vec<String> = all_tables.iter().filter(|(k, _)| *k == i).map(|(_, t)| t.name.clone()).collect();
        if got != exp {
            rep.fail(format!("table_names_in_sheet({:?}) = {got:?}, expected {exp:?}", s.name));
            return rep;
        }
    }
    for (si, t) in &all_tables {
        let values = expected_values(doc, *si);
        let hdr = t.header_rows.unwrap_or(1);
        let tot = t.totals_rows.unwrap_or(0);
        let bounds = ((t.range.0 .0 + hdr, t.range.0 .1), (t.range.1 .0 - tot, t.range.1 .1));
        let r = guard(|| wb.table_by_name(&t.name));
        match r {
            Ok(Ok(tb)) => {
                if tb.name() != t.name || tb.sheet_name() != doc.sheets[*si].name || tb.columns() != t.columns.as_slice() {
                    rep.fail(format!("table {:?}: name={:?} sheet={:?} columns={:?}, expected sheet {:?} columns {:?}", t.name, tb.name(), tb.sheet_name(), tb.columns(), doc.sheets[*si].name, t.columns));
                    return rep;
                }
                if let Err(e) = check_table_data(&format!("table_by_name({:?})", t.name), tb.data(), bounds, &values) {
                    rep.fail(e);
                    return rep;
                }
            }
            Ok(Err(e)) => {
                rep.fail(format!("table_by_name({:?}) failed: {e}", t.name));
                return rep;
            }
            Err(p) => {
                rep.fail(format!("table_by_name({:?}): {p}", t.name));
                return rep;
            }
        }
        let r = guard(|| {
            wb.table_by_name_ref(&t.name).map(|tb| {
                let d: &Range<DataRef> = tb.data();
                let owned: Vec<Data> = d.cells().map(|(_, _, v)| Data::from(v.clone())).collect();
                (d.start(), d.end(), owned, tb.columns().to_vec())
            })
        });
        match r {
            Ok(Ok((s, e, cells, cols))) => {
                let w = (bounds.1 .1 - bounds.0 .1 + 1) as usize;
                let mut ok = s == Some(bounds.0) && e == Some(bounds.1) && cols == t.columns;
                if ok {
                    for (k, d) in cells.iter().enumerate() {
                        let p = (bounds.0 .0 + (k / w) as u32, bounds.0 .1 + (k % w) as u32);
                        ok &= match values.get(&p) {
                            Some(x) => x.matches(d),
                            None => *d == Data::Empty,
                        };
                    }
                }
                if !ok {
                    rep.fail(format!("table_by_name_ref({:?}): bounds {s:?}..{e:?} columns {cols:?} or values differ from the model (expected bounds {bounds:?})", t.name));
                    return rep;
                }
            }
            other => {
                rep.fail(format!("table_by_name_ref({:?}): {:?}", t.name, other.map(|r| r.map(|_| ()).map_err(|e| e.to_string()))));
                return rep;
            }
        }
    }
    match guard(|| wb.table_by_name("NoSuchTable").is_err()) {
        Ok(true) => {}
        other => {
            rep.fail(format!("table_by_name of an unknown table: expected an error, got {other:?}"));
            return rep;
        }
    }
    // labels / non-trivial
    let sheets_with_regions = doc.sheets.iter().filter(|s| !s.merges.is_empty()).count();
    let wide = doc.sheets.iter().flat_map(|s| s.merges.iter()).any(|m| m.1 .1 >= 26);
    let mut table_nt = false;
    for (si, t) in &all_tables {
        let cells: Vec<Pos> = expected_values(doc, *si).keys().copied().collect();
        let bb = crate::model::value::bbox(cells.iter());
        let straddles = bb.map_or(false, |(s, e)| {
            let overlap = t.range.0 .0 <= e.0 && t.range.1 .0 >= s.0 && t.range.0 .1 <= e.1 && t.range.1 .1 >= s.1;
            let inside = t.range.0 .0 >= s.0 && t.range.1 .0 <= e.0 && t.range.0 .1 >= s.1 && t.range.1 .1 <= e.1;
            overlap && !inside
        });
        rep.label_if(straddles, "table:straddles-used-range");
        rep.label_if(bb.is_none(), "table:on-empty-sheet");
        rep.label_if(t.totals_rows == Some(1), "table:totals-row");
        rep.label_if(t.header_rows == Some(0), "table:no-header-row");
        rep.label_if(t.columns.iter().any(|c| c.contains(['&', '<', '"'])), "table:column-name-needs-escaping");
        table_nt |= straddles || t.totals_rows == Some(1);
    }
    rep.label_if(wide, "merge:column>=26");
    rep.label_if(sheets_with_regions >= 2, "merge:several-sheets");
    rep.nontrivial = sheets_with_regions >= 2 && wide && table_nt;
    rep
}

fn run(ctx: &mut Ctx) {
    let n = ctx.n(2500, 60_000);
    ctx.run("xlsx", n, case_strategy, oracle);
    let n = ctx.n(2000, 40_000);
    ctx.run("xls", n, xls_case_strategy, oracle_xls);
    ctx.assumptions.push("tables have at least one data row; table names are identifiers; table parts are referenced as ../tables/tableN.xml from the sheet's relationship part (the layout every producer writes)".into());
}

fn replay(sub: &str, case: &serde_json::Value) -> Option<Report> {
    match sub {
        "xlsx" => replay_as::<Case>(case, oracle),
        "xls" => replay_as::<XlsCase>(case, oracle_xls),
        _ => None,
    }
}

// ---------------------------------------------------------------------------------------------
// xls: MERGEDCELLS records

use crate::enc::biff8 as b8;

#[derive(Debug, Clone, Serialize, Deserialize)]
pub struct XlsCase {
    /// per sheet: the MERGEDCELLS records, each a list of regions
    pub sheets: Vec<Vec<Vec<(Pos, Pos)>>>,
    pub cfb: crate::enc::cfb::CfbLayout,
}

fn xls_region() -> impl Strategy<Value = (Pos, Pos)> {
    let row = prop_oneof![3 => 0u32..50, 1 => Just(65_535u32), 1 => 0u32..65_536];
    let col = prop_oneof![3 => 0u32..30, 1 => Just(25u32), 1 => Just(26u32), 1 => Just(255u32), 1 => 0u32..256];
    (row, col, 0u32..6, 0u32..6).prop_map(|(r, c, h, w)| ((r, c), ((r + h).min(65_535), (c + w).min(255))))
}

fn xls_case_strategy() -> impl Strategy<Value = XlsCase> {
    (proptest::collection::vec(proptest::collection::vec(proptest::collection::vec(xls_region(), 1..6), 0..4), 1..4), crate::props::c13::layout_strategy()).prop_map(|(sheets, cfb)| XlsCase { sheets, cfb })
}

fn oracle_xls(case: &XlsCase) -> Report {
    let mut rep = Report::new();
    let names = ["Sheet1", "Zwei", "S3"];
    let doc = b8::XlsDoc {
        sheets: case
            .sheets
            .iter()
            .enumerate()
            // a sheet may declare merged regions without holding any value (a formatted template)
            .map(|(i, m)| b8::BSheet { name: names[i].into(), cells: if (i + case.sheets.len()) % 3 == 2 { vec![] } else { vec![b8::BCell { row: 0, col: 0, ixfe: 0, rec: b8::BRec::Number(1.0) }] }, merges: m.clone(), dimensions: 1, junk: i as u8 * 7, ..Default::default() })
            .collect(),
        xfs: vec![0],
        cfb: case.cfb.clone(),
        ..Default::default()
    };
    let wb = match crate::props::c02::open_xls(b8::encode(&doc)) {
        Ok(w) => w,
        Err(e) => {
            rep.fail(e);
            return rep;
        }
    };
    for (i, m) in case.sheets.iter().enumerate() {
        let expected: Vec<Dimensions> = m.iter().flatten().map(|r| dims(*r)).collect();
        for (what, got) in [("worksheet_merge_cells", guard(|| wb.worksheet_merge_cells(names[i]))), ("worksheet_merge_cells_at", guard(|| wb.worksheet_merge_cells_at(i)))] {
            match got {
                Ok(Some(v)) if v == expected => {}
                other => {
                    rep.fail(format!("xls {what}({:?}) = {other:?}, expected {expected:?}", names[i]));
                    return rep;
                }
            }
        }
        rep.label_if(m.len() > 1, "xls:several-MERGEDCELLS-records");
    }
    match guard(|| (wb.worksheet_merge_cells("nope"), wb.worksheet_merge_cells_at(case.sheets.len()))) {
        Ok((None, None)) => {}
        other => rep.fail(format!("xls merge cells of an unknown sheet: {other:?}")),
    }
    let with_regions = case.sheets.iter().filter(|m| !m.is_empty()).count();
    rep.nontrivial = with_regions >= 2 && case.sheets.iter().flatten().flatten().any(|r| r.1 .1 >= 26);
    rep
}
