#!/usr/bin/env python3
"""Regenerates /verif/MANIFEST.json from the table below (single source of truth for what is claimed)."""
import json, sys

CHECKS = {
 "C05": dict(
   technique="model-based property testing (proptest): generated operation histories interpreted on Range and on a reference model, full read-API comparison after every step; thorough adds exhaustive enumeration of all histories of length <=3 over a 3x3 universe",
   text="Generated-history exploration against a reference model. Every accessor (start/end/size/rows/cells/used_cells/get/get_value/Index, forward and reverse iteration) is compared with the model after every operation, so a Range that is not a full rectangle or a set_value/range/from_sparse that moves, drops or invents a cell is observed at the step where it happens. Exploration, not proof: histories longer than 25 ops or with areas beyond ~20x20 are not generated. A separate sub-check builds long thin rectangles whose span is around and beyond the sheet limits (16383-20000 columns, 65535-1200000 rows).",
   note="Trusts the harness's reference model (a BTreeMap plus optional bounds). Coordinates < 2^31+20; constructors called within their documented preconditions only.",
   design="4/C05"),
 "C09": dict(
   technique="property-based differential testing (proptest): generated (range, header configuration, target record type) cases compared with a reference deserialiser written from the statement; metamorphic column permutation; size_hint bracket checked around every next()",
   text="Generated-input exploration with an independent reference deserialiser over 17 concrete target types (Vec<T>, tuples, BTreeMap/HashMap, two structs with Option fields) and four header configurations, at arbitrary origins. Item count and order, per-cell conversion rules, HeaderNotFound, CellError kind and absolute position, and size_hint are all asserted; conversions the statement does not fix are wildcards. Exploration only: ranges up to 8x6, a fixed menu of target types. Narrow integer targets (Vec<u32>, Vec<i32>, Vec<u8>, Vec<i16>) with out-of-range cells check the documented plain casts.",
   note="Trusts the reference conversion table in props/c09.rs (written from the statement). Header names unique after trimming; header cells are strings.",
   design="4/C09"),
 "C11": dict(
   technique="exhaustive enumeration of all 2,958,466 whole serials x 2 date systems against a harness-written civil calendar, plus property-based testing (proptest) of fractional serials with an exact-rational millisecond oracle and a monotonicity relation over generated pairs",
   text="The whole-day domain is enumerated completely in both date systems on every run (quick too); fractional parts, day/millisecond boundaries, values beyond the calendar and non-finite values are sampled (300k points quick, 40M thorough) against exact rational arithmetic on the f64 bit pattern with a stated tolerance. as_date/as_time/Data::Int/Float/as_duration and the deserialize_as_* helpers are cross-checked.",
   note="Trusts the harness's days-from-civil arithmetic (self-tested by round trip) and chrono's field accessors (used only to read calamine's answer). Serial 0, the fictitious day [60,61) and negative serials: only no-panic is asserted.",
   design="4/C11"),
 "C01": dict(
   technique="property-based round-trip/differential testing (proptest): logical workbook -> harness's own XLSX+ZIP encoder under generated physical encodings -> calamine -> compared with the model; every case is read under two independently derived encodings (metamorphic: encoding independence); exhaustive sweep of all 16384 column names through files and the cell-reference hook",
   text="Generated-input exploration with an independent encoder: position, value and type of every cell, tight bounds and used_cells are asserted through worksheet_range and worksheet_range_ref, under implicit/explicit references with filler elements, absent/exact/wrong dimension, shared/inline/rich strings, x: prefixes per part, BOM, three relationship-target spellings, part-name case, zip method/order/data descriptors. All 16384 columns are enumerated on every run.",
   note="Trusts the harness encoder (enc/xlsx.rs, enc/zipw.rs) and the mapping table in expected_cell. Conventions every producer follows are kept (fixed part names, r:id, ascending rows, <f> before <v>).",
   design="4/C01"),
 "C10": dict(
   technique="property-based testing (proptest) with a constructive grammar generator that records the class of each format string while building it, exhaustive enumeration of all strings of length <=5/6 over a 14-symbol alphabet against an independent reference tokenizer, exhaustive built-in id sweep, and generated style tables read end-to-end through files",
   text="The classifier is checked as a function of a string language (20k quick / 1M thorough grammar strings + 0.6M / 8M exhaustive short strings) and end-to-end: custom ids in any order, XFs referencing built-in and custom ids, unused XFs, cellStyleXfs and dxf decoys, numeric cells untyped / t=n / cached formula, both date systems, prefixed parts. The file-level part covers xlsx, xls (FORMAT/XF records, NUMBER/RK/MULRK/FORMULA) and xlsb (BrtFmt/BrtXF, RK/Real/FmlaNum).",
   note="Trusts the grammar generator's recorded class and the reference tokenizer (model/numfmt.rs). Locale-dependent built-in ids are only required to agree between the two tables.",
   design="4/C10"),
 "C15": dict(
   technique="property-based testing (proptest): generated formula ASTs rendered to text, shared-formula groups (column/row/block) encoded into real xlsx files; oracle = AST-level translation (only relative components move) rendered back to text; plus the same relation on the translation function through a hook with larger offsets",
   text="Exploration over an open-ended formula language: mixed/absolute/relative references at boundary columns, sheet-qualified (quoted, cell-like, non-ASCII) references, function names with digits, defined names with digits, exponent numbers, strings with cell-like text and doubled quotes; 1-4 groups per sheet with si gaps among ordinary formulas and constants; every member of the declared range and every non-member is asserted through worksheet_formula.",
   note="Trusts the harness AST renderer/shifter (model/formula.rs). Master = top-left cell of ref; si ascending; references stay inside the sheet after translation.",
   design="4/C15"),
 "C19": dict(
   technique="property-based round-trip testing (proptest): generated Unicode strings x storage forms encoded by the harness writers, exact string equality at the cell",
   text="Exploration of the string space (XML specials, edge/repeated spaces, TAB/LF/CR, combining marks, astral characters, empty, up to 32767 units) crossed with storage forms. xlsx: shared/inline/t=str, plain/rich runs/phonetic, entities/hex/decimal references/CDATA, empty shared items of four kinds before and between used items (index alignment). xlsb (BrtCellSt / BrtCellIsst with rich+phonetic / BrtFmlaString), xls (SST with runs and ExtRst, LABEL, FORMULA+STRING, 8/16-bit) and ods (text:s, text:tab, text:line-break, several paragraphs, spans) likewise; long strings (to 32767 units) in the thorough tier. A bigtable sub-check uses shared-string tables of 65537-66500 entries (indices beyond 16 bits) in xlsx, xlsb and xls; a few long-string cases (to 32767 units) run in the quick tier too.",
   note="Trusts the encoders' escaping routines. XML formats are restricted to XML 1.0 characters; _xHHHH_ escapes are not generated.",
   design="4/C19"),
 "C02": dict(
   technique="property-based round-trip/differential testing (proptest) through a harness-written BIFF8 + compound-file encoder; metamorphic relation over all valid encodings of each number (NUMBER / RK int / int/100 / float / float/100 / MULRK grouping); exhaustive enumeration of all 2^32 RK words against a reference decoder (thorough; every 1021st word in quick)",
   text="Generated workbooks with every cell record kind at boundary-heavy positions (up to row 65535 / column 255), unknown and bookkeeping records interleaved, the rows of the cell table written ascending, descending or rotated, are read back and compared with the MS-XLS semantics of each record; each case is read under two choices of encodings of the same numbers. The RK decoder is additionally enumerated over its complete 32-bit domain. Also: inline LABEL/STRING texts of 255-4000 characters, an ARRAY record between FORMULA and STRING, a date XF in the table, SST strings cut into segments of different packing in the second reading, and a 66k-entry shared-string table.",
   note="Trusts the harness BIFF8 writer (enc/biff8.rs), its reference RK decoder and the CFB writer. Cell records are written in row order; formula strings fit one STRING record.",
   design="4/C02"),
 "C04": dict(
   technique="property-based round-trip testing (proptest) through a harness-written ODS encoder; metamorphic relation: every maximal run of identical cells/rows is cut into a generated composition of repeated elements, and each grid is read under two different groupings; thorough adds exhaustive 3x3 occupancy patterns x origins x groupings",
   text="Sparse grids whose first used row/column lies anywhere in the sheet, with duplicated neighbours, covered cells, annotations, formulas and every value type; trailing empties omitted, explicit, or LibreOffice-style (repeats to 16384/1048576). Bounds, every value and the formula range are compared with the model under both groupings.",
   note="Trusts enc/ods.rs (layout of runs) and its expected-value table. Conventional prefixes, no white space between the cells of a row.",
   design="4/C04"),
 "C12": dict(
   technique="property-based round-trip testing (proptest) with a shared-string table encoder that takes an explicit CONTINUE split plan (cut positions x per-segment 8/16-bit packing); differential against the unsplit layout; thorough enumerates every single and every pair of cut positions on a fixed table",
   text="Every SST entry, LABELSST cell, sheet name, LABEL and FORMULA+STRING value must decode to the source text under generated cuts: before a string, between characters with a fresh flag byte and independent packing per segment, after the characters, at run boundaries and inside ExtRst; natural >8224-byte CONTINUEs are forced by long strings.",
   note="Trusts the SST writer in enc/biff8.rs. String headers are never split; cuts never fall inside a surrogate pair; code page 1200.",
   design="4/C12"),
 "C13": dict(
   technique="property-based differential testing (proptest) with a compound-file writer that takes the physical layout as a generated parameter (sector size, sector permutation for every chain incl. FAT/DIFAT/directory/mini-FAT/mini-stream container, free sectors, directory order, mini-sector permutation, trailing bytes); every stream is compared with its logical bytes under the generated and the canonical layout; the writer is cross-checked by an independent reader in the harness",
   text="Stream sizes are steered onto 0/1/63/64/65/4095/4096/4097 and sector multiples +-1; three >7 MB cases per quick run (24 thorough) force a DIFAT chain. Through the cfb_stream hook and end-to-end: the C02/C12 workbooks are stored under generated layouts. Further sub-checks: containers with one and with two DIFAT sectors (7 MB / 16 MB), with more than one mini-FAT sector (18-32 streams just under 4096 bytes, both sector sizes), and with an over-allocated FAT (1-8 or 40 spare FAT sectors).",
   note="Trusts enc/cfb.rs (self-checked on every case by enc::cfb::read_back; a self-check failure exits 2, never 1). Stream names unique per file.",
   design="4/C13"),
 "C17": dict(
   technique="property-based round-trip testing (proptest): generated merge regions and table parts written by the harness XLSX encoder, every getter compared with the declared geometry and the table data range with the model values",
   text="0-12 merge references per sheet anywhere up to XFD1048576, several sheets, attribution by sheet; 0-3 tables per sheet inside / straddling / outside the used range or on an empty sheet, header 0/1/absent, totals 0/1/absent, column names with XML specials; owned and borrowed table getters. xls: MERGEDCELLS records (several per sheet, up to 1026 refs) compared the same way.",
   note="Trusts enc/xlsx.rs. Tables have >= 1 data row; table parts are referenced as ../tables/tableN.xml.",
   design="4/C17"),
 "C03": dict(
   technique="property-based round-trip/differential testing (proptest) through a harness-written XLSB (BIFF12 record framing + ZIP) encoder; the model gives the expected value of every record kind; uninterpreted records (unknown ids, multi-byte ids and lengths) are interleaved; each number is stored under a generated choice of BrtCellRk / BrtCellReal / BrtFmlaNum",
   text="Generated workbooks with every cell and formula record kind under generated BrtRowHdr sequences (gaps, empty rows, boundary rows/columns up to the last row 1048575 and column 16383; uninterpreted records with 1- to 4-byte lengths, the latter >= 2 MiB), shared strings with rich/phonetic payload, uninterpreted records between, before and after cells, error-valued and string-valued formulas; bounds, every value and used_cells are compared with the model through worksheet_range and worksheet_range_ref. Exploration: sheets up to a few dozen cells, three sheets. Also BOM-like strings, fPhShow set in cell headers, and a 66k-entry shared-string table.",
   note="Trusts enc/xlsb.rs (varint framing, record layouts written from MS-XLSB) and its expected-value table. Parts use the names every producer writes; BrtWsDim present; rows ascend.",
   design="4/C03"),
 "C06": dict(
   technique="structure-aware fault-injection fuzzing plus coverage-guided fuzzing: proptest-generated fault lists applied to valid documents of 14 kinds built by the harness encoders (field-level boundary values, truncation, record length lies, token surgery on formula records, FAT/DIFAT/directory edits incl. cycles with inflated counts, XML attribute and reference edits, repeat counts, OVBA chunk edits, raw byte mutations); the same documents unfaulted; an exhaustive sweep of every formula token id x 0-11 operand bytes in xls and xlsb; thorough adds two libFuzzer targets (raw bytes; part list packed into a zip inside the target) whose artifacts are re-classified by the same oracle. Oracle = every reader and every read call returns, under fork-per-case isolation with a counting/limiting allocator (memory), thread-CPU clock and double-confirmed timeout (time), panic capture with overflow checks on; saved regression corpus of one input per historical panic signature",
   text="Each case assembles a valid file of one of 14 kinds, applies 1-3 faults aimed at a structural element (so that inputs get past the container checks), and drives the complete read API of all four readers, auto-detection and the VBA reader in a persistent worker process with debug assertions and overflow checks enabled. Verdicts: panic (signature = source line text), allocation taking the live heap beyond 256 MiB for inputs <= 1 MiB (refused by the allocator, attributed to the owner of the largest block), > 10 s CPU or no answer within the case timeout twice. Quick: 48k faulted + 12k well-formed files + 6096 token/length combinations + about 58k items of a deterministic boundary sweep (every field position near the start of every record x 10 boundary values, every record lengthened or shortened by a few bytes, every XML attribute x its menu, cut points, dropped end tags, compound-file header/FAT/directory words; all structural items and every 4th field item, everything in thorough) + 86 regression inputs; thorough: 800k + 200k + 12192 + the full sweep over two document sets + a 10-minute two-target libFuzzer campaign. Exploration: the fault menu is fixed; libFuzzer is bounded by time.",
   note="Three recorded known findings (dense Range allocation, identified by the allocating call site from_sparse / new / ods get_range) are tolerated by signature and printed as KNOWN-FINDING; any other signature is a violation. Time limits are CPU-time based with a wall-clock confirmation; a harness failure to isolate exits 2.",
   design="4/C06"),
 "C07": dict(
   technique="model-based (stateful) property testing with proptest: generated histories of read calls (values, refs, formulas, merges, tables owned and borrowed, VBA, metadata, header-row changes, unknown and near-miss names) run against one long-lived workbook and against the same bytes opened through auto-detection; oracle = the same call on a freshly opened workbook with only the header-row option replayed (first occurrence of each call/option pair), a memo for repeats, the default reads against the logical model, plus the agreement relations between access paths after every step",
   text="Histories of 5-40 calls over workbooks of all four formats built by the harness encoders, with several sheets, formulas, merges, tables and a VBA project. Each result is rendered and compared with the fresh-workbook result and with earlier identical calls; worksheet_range vs worksheet_range_ref vs worksheet_range_at vs worksheets() are compared where the statement requires; unknown names and names that differ from a sheet name only in case, padding or a dropped character must fail. Exploration: small workbooks, 24k histories quick / 60k thorough. A second sub-check writes each workbook to a scratch file under every extension alias of its format and under unknown extensions and requires open_workbook_auto(path) to choose the right reader and return the same sheets. Workbooks include chart sheets among the worksheets, sheet names whose workbook order is not their sorted order, and xls files with a VBA project.",
   note="Results are compared through Debug rendering (errors only by the fact of failing). Header rows far above the data are not generated (dense Range, see C06 known findings).",
   design="4/C07"),
 "C08": dict(
   technique="property-based metamorphic testing (proptest): one generated logical sheet encoded in all four formats by the harness encoders; for generated header rows n the read is compared with the default read (same value at every absolute position with row >= n, nothing from rows < n, start row exactly n or empty range), then the option is changed back",
   text="Sheets whose first used row lies anywhere from 0 to a few hundred, with interior gaps and a used column range not starting at A; header rows below, at, inside and beyond the data, sequences of option changes (None -> n -> m -> FirstNonEmptyRow) on one workbook. xlsx, xlsb, xls and ods in every case. Data may lie at the very end of the sheet (last row as header row); the declared used range is absent, exact, stale or too large; reads are repeated under one option; the xls reader is also opened with the option given at construction (XlsOptions).",
   note="Trusts the four encoders. Column extents are constrained only through values (eager and lazy readers pad differently).",
   design="4/C08"),
 "C14": dict(
   technique="property-based round-trip testing (proptest): generated formula ASTs encoded to BIFF8 and BIFF12 Ptg token streams by a harness-written encoder (and as text for xlsx/ods); oracle = the harness's own A1 renderer over the AST; exhaustive sweep of column lettering over all 16384 columns through a hook and through xls/xlsb files",
   text="ASTs over references (all four $ combinations, boundary rows/columns incl. IV/XFD), areas, 3-D references and areas through EXTERNSHEET/XTI indirection, ints, reals, strings (8/16-bit), bools, errors, unary/binary operators, parentheses, fixed- and variable-arity functions, defined names; formulas placed at generated cells among constants; position of every formula and emptiness of every other cell asserted in xls, xlsb, xlsx, ods.",
   note="Trusts enc/ptg.rs and model/formula.rs. Sheet names in 3-D refs are plain identifiers; operands that are operations carry explicit PtgParen.",
   design="4/C14"),
 "C16": dict(
   technique="property-based round-trip testing (proptest): generated workbook metadata (sheet order, names with XML-special / non-ASCII / astral characters, visibility, kind, defined names, date system) written by the four harness encoders and compared field by field with sheet_names / sheets_metadata / defined_names; a date-styled probe cell in every sheet checks the date-system flag",
   text="1-6 sheets per workbook, any mixture of visible / hidden / very hidden and worksheet / chart / dialog / macro sheets as far as each format expresses them, 0-5 defined names (text in xlsx/ods, absolute 3-D token references in xls/xlsb, 8- and 16-bit names), 1900 and 1904 systems with prefixed workbookPr in xlsx; sheetId numbering independent of position (descending, gaps, rotated); in every worksheet one date-styled probe cell per numeric storage kind (constant, RK, MULRK, cached formula result) must carry the workbook's date-system flag.",
   note="Trusts the encoders. Sheet names follow Excel's rules; every workbook has one visible worksheet.",
   design="4/C16"),
 "C18": dict(
   technique="property-based round-trip testing (proptest) with a harness-written MS-OVBA compressor that takes the tokenisation as a generated parameter (literal/copy choices, non-greedy matches, raw chunks, offsets and lengths at the bit-width limits per position, multi-chunk sources); oracle = the source bytes, cross-checked by the harness's reference decompressor; project level: generated dir streams (module names, offsets, code page, references) inside generated compound files inside xlsm / xlsb / xls",
   text="Decompression is inverted over 4k (quick) / 400k (thorough) containers from sources with long repeats, runs, incompressible stretches and sizes around 4096-byte multiples; the project check builds 1-5 modules with junk before the text offset, MBCS names and text in three code pages, stream names different from module names, reference records of the three kinds, and reads them through vba_project() of each format and VbaProject::new.",
   note="Trusts enc/ovba.rs (self-checked by decompress_ref on every case; self-check failures exit 2). An incompressible partial chunk longer than 3640 bytes has no exact encoding and is skipped (counted).",
   design="4/C18"),
 "C20": dict(
   technique="property-based testing (proptest), both directions: generated encrypted containers (EncryptedPackage + EncryptionInfo in generated compound-file layouts; FILEPASS of the XOR / RC4 / CryptoAPI kinds at generated positions of the globals substream; ods manifests with encryption-data on generated entries) must yield the format's password error; the same generators with the marker removed must open",
   text="Positive: xlsx/xlsb readers over compound files whose layout is drawn from the C13 generator (about 1% of the packages are 7-9 MB, so that the container needs a DIFAT sector), BIFF8 xls with FILEPASS (XOR / RC4 / two CryptoAPI versions) after BOF among generated globals records, BIFF5 Book streams with the 4-byte XOR FILEPASS, ods with manifest:encryption-data on content.xml or on other entries only. Negative: the unencrypted twins and workbooks containing the literal text 'EncryptedPackage' as cell text, sheet name, zip entry or stream name must not be reported as protected.",
   note="Encrypted payloads are random bytes (the reader must decide before parsing them).",
   design="4/C20"),
}

NOT_APPLICABLE = {
}
for i in range(1, 21):
    pid = "C%02d" % i
    if pid not in CHECKS and pid not in NOT_APPLICABLE:
        NOT_APPLICABLE[pid] = "check not built yet in this revision of /verif (planned, see DESIGN.md section 8b); nothing is claimed for it"

manifest = {
  "version": 1,
  "setup_cmd": "cd /verif/harness && CARGO_NET_OFFLINE=true cargo build --release --offline",
  "hooks": {
    "guard": "cargo feature `verif-hooks` of the calamine crate (off by default, not part of `default`)",
    "enable": "the harness crate /verif/harness depends on calamine by path (/repo) with features [\"dates\", \"verif-hooks\"]; every check command first runs `cargo build --release --offline` there, which recompiles /repo's current working tree",
    "baseline_off_cmd": "cd /repo && cargo test --workspace --no-fail-fast --offline",
    "source_commits": ["b1459e9"],
    "add_only": True,
  },
  "engines": [
    {"name": "cverif", "path": "/verif/harness", "serves_properties": sorted(CHECKS),
     "kind_free_text": "Rust binary `check` (plus the cargo-fuzz crate /verif/fuzz used by the thorough tier of C06): seeded 16-thread proptest driver (TestRunner per thread, fixed ChaCha seeds derived from VERIF_SEED), shrinking, JSON replay files, known-findings plumbing, evidence writer; independent file-format encoders and reference models per property"},
  ],
  "checks": [],
  "not_applicable": [{"property_id": k, "reason": v} for k, v in sorted(NOT_APPLICABLE.items())],
  "notes": "All checks: `./check <ID> --tier quick|thorough` (cwd /verif). VERIF_SEED seeds every generator; exit 0 = held, 1 = VIOLATION line printed, 2 = inconclusive (build failure, generator abort) and never a violation. Known findings: /verif/known_findings.json.",
}
for pid in sorted(CHECKS):
    c = CHECKS[pid]
    manifest["checks"].append({
      "property_id": pid,
      "quick_cmd": f"./check {pid} --tier quick",
      "thorough_cmd": f"./check {pid} --tier thorough",
      "evidence_file": f"/verif/evidence/{pid}.json",
      "replay_cmd_template": f"./check {pid} --replay {{path}}",
      "engine": "cverif",
      "level_claimed": {"category": "exploration", "text": c["text"], "design_ref": c["design"]},
      "level_note": c["note"],
      "technique": c["technique"],
    })
json.dump(manifest, open("/verif/MANIFEST.json", "w"), indent=1)
print("wrote MANIFEST.json with", len(manifest["checks"]), "checks,", len(manifest["not_applicable"]), "not applicable")
