#!/bin/bash
# tools/runall.sh [seed] [tier]  — every check of MANIFEST.json in turn, one summary line each
seed=${1:-0}; tier=${2:-quick}
cd /verif
fail=0
for i in $(seq -w 1 20); do
  id=C$i
  out=$(VERIF_SEED=$seed ./check $id --tier $tier 2>&1); rc=$?
  echo "$id rc=$rc $(echo "$out" | grep -v KNOWN-FINDING | tail -1)"
  if [ $rc -ne 0 ]; then fail=1; echo "$out" | grep -v KNOWN-FINDING | tail -8; fi
done
exit $fail
