import struct
from biffw import *
from cfbw import cfb
def ptgref(r,c,rowrel,colrel): return bytes([0x44])+struct.pack('<HH',r,c|(0x4000 if colrel else 0)|(0x8000 if rowrel else 0))
def ptgref3d(ixti,r,c,rowrel,colrel): return bytes([0x5A])+struct.pack('<HHH',ixti,r,c|(0x4000 if colrel else 0)|(0x8000 if rowrel else 0))
def ptgarea(r1,r2,c1,c2,rel): f=(0xC000 if rel else 0); return bytes([0x25])+struct.pack('<HHHH',r1,r2,c1|f,c2|f)
num=struct.pack('<d',1.0)
body=b''
fs=[ptgref(0,1,True,True), ptgref(0,1,False,False), ptgref(0,1,True,False), ptgref(0,1,False,True), ptgref(4,27,True,True),
    ptgref3d(0,0,0,True,True), ptgref3d(0,2,1,True,True), ptgref3d(0,2,1,False,False), ptgarea(0,4,0,0,True), ptgarea(0,4,1,2,False),
    bytes([0x17,2,0])+b'hi', bytes([0x17,2,1])+'hé'.encode('utf-16le')]
for i,f in enumerate(fs): body+=formula(i,0,num,f)
body+=number(20,3,2.5)
# externsheet: 1 xti -> supbook 0, itab 1..1
ext=rec(0x01AE,struct.pack('<HH',2,0x0401))+rec(0x0017,struct.pack('<H',1)+struct.pack('<HHH',0,1,1))
# Lbl name "nm" 8bit and wide
def lbl(name,wide,rgce):
    u=name.encode('utf-16le'); n=len(u)//2
    nb=(b'\x01'+u) if wide else (b'\x00'+bytes(u[0::2]))
    return rec(0x0018,struct.pack('<HBBHHHBBBB',0,0,n,len(rgce),0,0,0,0,0,0)+nb+rgce)
names=lbl('nm',False,bytes([0x3A])+struct.pack('<HHH',0,1,2))+lbl('wéx',True,bytes([0x3A])+struct.pack('<HHH',0,1,2))
wb=workbook([('S1',0,0,body),('Other',1,0,number(1,1,7.0)),('VH',2,2,b'')],sst=[],names=names,externsheet=ext)
for ver in (3,4):
  for pad in (0,5000):
    data=wb+ (b'' if not pad else b'')
    streams=[('Workbook',data if not pad else data+rec(0x9999,b'\0'*4000)+rec(0x9999,b'\0'*2000))]
    open(f't1_v{ver}_{pad}.xls','wb').write(cfb(streams,ver))
    print(ver,pad,len(streams[0][1]))
# FILEPASS variants
for typ in (0,1):
    fp=struct.pack('<H',typ)+(struct.pack('<HH',0x1234,0x5678) if typ==0 else struct.pack('<HH',1,1)+b'\x11'*48)
    wb2=workbook([('S1',0,0,number(0,0,1.0))],sst=[],filepass=fp)
    open(f'fp{typ}.xls','wb').write(cfb([('Workbook',wb2)],3))
