#!/usr/bin/env python3
"""seed_setup.py [--round2] ID...  — scratch worktree + task file for a seeded-breakage sub-agent (nothing from /verif but
the property text; in round 2 also one-line summaries of the changes already produced, so that new ones differ)."""
import json, subprocess, sys, os
props = {json.loads(l)['id']: json.loads(l) for l in open('/verif/properties.jsonl')}
T = '''# Task: create realistic seeded regressions in the Rust crate `calamine`

You are helping to test a verification suite (which you cannot see) by producing *seeded bugs*: small source changes that break one stated property of the crate while the crate still compiles and its existing test suite still passes.

## Workspace
- A git worktree of the crate at `{wt}/repo`. Work ONLY inside `{wt}`. Never read or write `/repo` or `/verif`.
- The machine is offline: always pass `--offline` to cargo; nothing can be downloaded.
- Never use `git stash` (the stash is shared between worktrees of one repository and other agents work in sibling worktrees); to set a change aside use `git diff > file`, `git checkout -- .`, `git apply file`.
- Always set `CARGO_TARGET_DIR={wt}/target` (e.g. `export CARGO_TARGET_DIR={wt}/target`) so build output stays in your directory.
- Baseline first: run `cd {wt}/repo && cargo test --workspace --no-fail-fast --offline 2>&1 | grep -E "^test result|FAILED|failed"` on the unchanged tree and remember which tests pass/fail (one or two tests may already fail on the unchanged tree; that is the baseline).

## The property the crate is supposed to satisfy ({pid})
**{title}**

{statement}

Domain it quantifies over: {quant}

## What to produce
Up to three *independent* mutations `m1`, `m2`, `m3` (each applies alone to the clean tree; prefer different functions / mechanisms). Each mutation must:
1. be a small change to files under `src/` only (no test, Cargo.toml, feature or public-signature changes; do not touch `src/verif_hooks.rs` or code under `#[cfg(feature = "verif-hooks")]`);
2. compile, and leave the existing test suite with exactly the baseline results (`cargo test --workspace --no-fail-fast --offline`);
3. break the property above for some *well-formed inputs inside the property's domain*, the way a real regression would (refactoring slip, off-by-one, wrong boundary, missed case, swapped fields, lost state, wrong default ...), not a blatant "always wrong" change;
4. need something specific to manifest - a particular position, size, boundary, encoding variant, option combination, ordering or history - so that a handful of example-based tests would probably miss it, yet reachable by legal inputs.

## Deliverables, per mutation, in `{wt}/out/mK/`
- `patch.diff` - output of `git -C {wt}/repo diff` for the mutation (source change only).
- `demo.rs` - a self-contained Rust program to be copied to `{wt}/repo/examples/seeded_demo.rs` and run with `cargo run --offline --example seeded_demo`. It must build its input in code (the crate's own dependencies such as `zip`, `quick-xml`, `byteorder`, `encoding_rs` may be used from an example; write temp files under `std::env::temp_dir()` if you need files) or read files you place next to it in `out/mK/` via the environment variable `DEMO_DIR`. It must print `PROPERTY HOLDS` and exit 0 on the unchanged tree, and print `PROPERTY VIOLATED: <what was observed vs expected>` and exit 1 with the mutation applied.
- `meta.json` - `{{"property": "{pid}", "summary": "<one line>", "trigger": "<the specific condition needed>", "files_changed": ["src/..."], "expected_wrong_behaviour": "<what goes wrong>", "tests_still_pass": true}}`

Verify each yourself: demo on the clean tree (holds), apply patch, build, full test suite (baseline results), demo (violated).

## Finish
Leave `{wt}/repo` clean (`git checkout -- . && git clean -fdq examples` as needed) and reply with a short summary of each mutation (what, where, trigger). Do not delete `{wt}/out`.
'''
args = sys.argv[1:]
round2 = '--round2' in args or '--round3' in args or '--round4' in args
round3 = '--round3' in args
round4 = '--round4' in args
args = [a for a in args if not a.startswith('--')]
for pid in args:
    p = props[pid]
    wt = f'/tmp/wt4/{pid}' if round4 else f'/tmp/wt3/{pid}' if round3 else (f'/tmp/wt2/{pid}' if round2 else f'/tmp/wt/{pid}')
    os.makedirs(wt + '/out', exist_ok=True)
    if not os.path.exists(wt + '/repo'):
        subprocess.check_call(['git', '-C', '/repo', 'worktree', 'add', '--detach', wt + '/repo', 'HEAD'], stdout=subprocess.DEVNULL)
    text = T.format(wt=wt, pid=pid, title=p['title'], statement=p['statement'], quant=p['quantifier']['text'])
    if round2:
        import glob
        used = []
        for m in sorted(glob.glob(f'/verif/seeded/{pid}-m*/meta.json')):
            try:
                j = json.load(open(m)); used.append(f"- {j.get('summary','')} (trigger: {j.get('trigger','')})")
            except Exception:
                pass
        text = text.replace('## Deliverables, per mutation', '## Ideas already used (produce different ones: other functions, other mechanisms, other parts of the property)\n' + '\n'.join(used) + '\n\nName your mutations ' + ('`m10`, `m11`, `m12` (directories `out/m10` ...)' if round4 else '`m7`, `m8`, `m9` (directories `out/m7` ...)' if round3 else '`m4`, `m5`, `m6` (directories `out/m4` ...)') + '.\n\n## Deliverables, per mutation')
    open(wt + '/TASK.md', 'w').write(text)
    print('ready', wt)
