import struct, random, zipfile, math
from cfbw import cfb
def bitcount(d):
    bc=4
    while (1<<bc) < d: bc+=1
    return bc
def compress_chunk(src, mode, rnd):
    """src <=4096 bytes -> (chunk bytes incl header, ntokens_in_last_group)"""
    out=bytearray(); i=0; last=0
    while i<len(src):
        flags=0; group=bytearray(); n=0
        for bit in range(8):
            if i>=len(src): break
            d=i
            cand=None
            if d>0 and mode!='lit':
                bc=bitcount(d); maxlen=(0xFFFF>>bc)+3
                # find matches
                best=None
                offs=list(range(1,d+1))
                if mode=='rand': rnd.shuffle(offs); offs=offs[:8]
                for off in offs:
                    l=0
                    while l<maxlen and i+l<len(src) and src[i+l]==src[i+l-off]: l+=1
                    if l>=3 and (best is None or l>best[1]): best=(off,l)
                if best and (mode=='greedy' or rnd.random()<0.7):
                    off,l=best
                    if mode=='rand': l=rnd.randint(3,l)
                    cand=(off,l,bc)
            if cand:
                off,l,bc=cand
                tok=((off-1)<<(16-bc))|(l-3)
                group+=struct.pack('<H',tok); flags|=(1<<bit); i+=l
            else:
                group.append(src[i]); i+=1
            n+=1
        out.append(flags); out+=group; last=n
    size=len(out)+2
    assert size-3<=0xFFF, size
    return struct.pack('<H',0xB000|(size-3))+bytes(out), last
def compress(src, mode='greedy', rnd=random.Random(1), raw_ok=True):
    out=bytearray([1]); info=[]
    for k in range(0,len(src),4096):
        ch=src[k:k+4096]
        try:
            c,last=compress_chunk(ch,mode,rnd)
            if len(c)>4098: raise AssertionError
        except AssertionError:
            assert len(ch)==4096
            c=struct.pack('<H',0x3000|0xFFF)+ch; last=-1
        out+=c; info.append(last)
    return bytes(out),info
def vrec(i,d): return struct.pack('<HI',i,len(d))+d
def dirstream(modules, refs=(), codepage=1252, compat=False):
    enc='cp%d'%codepage
    s=struct.pack('<HII',1,4,1)
    if compat: s+=struct.pack('<HII',0x4A,4,3)
    s+=struct.pack('<HII',2,4,0x409)+struct.pack('<HII',0x14,4,0x409)+struct.pack('<HIH',3,2,codepage)
    s+=vrec(4,b'VBAProject')+vrec(5,b'')+vrec(0x40,b'')+vrec(6,b'')+vrec(0x3D,b'')
    s+=struct.pack('<HII',7,4,0)+struct.pack('<HII',8,4,0)+struct.pack('<HIIH',9,4,1,2)
    s+=vrec(0x0C,b'')+vrec(0x3C,b'')
    for name,libid in refs:
        s+=vrec(0x16,name.encode(enc))+vrec(0x3E,name.encode('utf-16le'))
        body=struct.pack('<I',len(libid))+libid+struct.pack('<IH',0,0)
        s+=struct.pack('<HI',0x0D,len(body))+body
    s+=struct.pack('<HIH',0x0F,2,len(modules))+struct.pack('<HIH',0x13,2,0xFFFF)
    for name,stream,off,typ in modules:
        s+=vrec(0x19,name.encode(enc))+vrec(0x47,name.encode('utf-16le'))+vrec(0x1A,stream.encode(enc))+vrec(0x32,stream.encode('utf-16le'))
        s+=vrec(0x1C,b'')+vrec(0x48,b'')+struct.pack('<HII',0x31,4,off)+struct.pack('<HII',0x1E,4,0)+struct.pack('<HIH',0x2C,2,0xFFFF)
        s+=struct.pack('<HI',typ,0)+struct.pack('<HI',0x2B,0)
    s+=struct.pack('<HI',0x10,0)
    return s
if __name__=='__main__':
    rnd=random.Random(7)
    # find a 2-chunk source whose first chunk ends on a full group of 8 tokens, and one that does not
    found={}
    for t in range(4000):
        words=[b'Sub ',b'End ',b'Dim x As Integer\r\n',b'MsgBox "hi"\r\n',bytes([rnd.randrange(65,90)]) ,b'    ', b'abcabcabc', bytes(rnd.randrange(256) for _ in range(rnd.randrange(1,6)))]
        src=b''
        while len(src)<4096+300: src+=rnd.choice(words)
        src=src[:4096+300]
        c,info=compress(src,'greedy',rnd)
        key = (info[0]==8)
        if key not in found: found[key]=(src,c,info)
        if len(found)==2: break
    print({k:v[2] for k,v in found.items()})
    for key,(src,c,info) in found.items():
        off=rnd.randrange(0,50); prefix=bytes(rnd.randrange(256) for _ in range(off))
        d,_=compress(dirstream([('Module1','Module1',off,0x21),('ThisWorkbook','ThisWorkbook',0,0x22)],refs=[('stdole',b'*\\G{00020430-0000-0000-C000-000000000046}#2.0#0#C:\\Windows\\system32\\stdole2.tlb#OLE Automation')]),'greedy',rnd)
        small,_=compress(b'Attribute VB_Name = "ThisWorkbook"\r\n','lit',rnd)
        vba=cfb([('dir',d),('Module1',prefix+c),('ThisWorkbook',small),('PROJECT',b'ID="{0}"\r\n')],3)
        name='vba_full8.xlsm' if key else 'vba_part.xlsm'
        z=zipfile.ZipFile(name,'w',zipfile.ZIP_DEFLATED)
        NS='http://schemas.openxmlformats.org/spreadsheetml/2006/main'; RNS='http://schemas.openxmlformats.org/officeDocument/2006/relationships'
        z.writestr('xl/workbook.xml',f'<workbook xmlns="{NS}" xmlns:r="{RNS}"><sheets><sheet name="S1" sheetId="1" r:id="rId1"/></sheets></workbook>')
        z.writestr('xl/_rels/workbook.xml.rels',f'<Relationships xmlns="http://schemas.openxmlformats.org/package/2006/relationships"><Relationship Id="rId1" Type="{RNS}/worksheet" Target="worksheets/sheet1.xml"/></Relationships>')
        z.writestr('xl/worksheets/sheet1.xml',f'<worksheet xmlns="{NS}"><sheetData/></worksheet>')
        z.writestr('xl/vbaProject.bin',vba); z.close()
        open(name+'.src','wb').write(src)
