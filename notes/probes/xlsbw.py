import struct, zipfile
def vid(t): return bytes([t]) if t<0x80 else bytes([(t&0x7F)|0x80, t>>7])
def vlen(n):
    out=b''
    while True:
        b=n&0x7F; n>>=7
        if n: out+=bytes([b|0x80])
        else: out+=bytes([b]); return out
def rec(t,d=b''): return vid(t)+vlen(len(d))+d
def ws(s): u=s.encode('utf-16le'); return struct.pack('<I',len(u)//2)+u
def cellhdr(col,style=0): return struct.pack('<I',col)+struct.pack('<I',style)[:3]+b'\0'
def mk(path, rows, sst=(), fmts=(), xfs=(0,), date1904=False, sheetname='S1'):
    z=zipfile.ZipFile(path,'w',zipfile.ZIP_DEFLATED)
    wb=rec(0x83)+rec(0x99,struct.pack('<II',1 if date1904 else 0,0)+ws(''))+rec(0x8F)
    wb+=rec(0x9C,struct.pack('<II',0,1)+ws('rId1')+ws(sheetname))+rec(0x90)+rec(0x9D,b'\0'*26)+rec(0x84)
    z.writestr('xl/workbook.bin',wb)
    z.writestr('xl/_rels/workbook.bin.rels','<Relationships xmlns="http://schemas.openxmlformats.org/package/2006/relationships"><Relationship Id="rId1" Type="x" Target="worksheets/sheet1.bin"/></Relationships>')
    sh=rec(0x81)+rec(0x93,b'\0'*23)+rec(0x94,struct.pack('<IIII',0,10,0,10))+rec(0x91)
    for r,cells in rows:
        sh+=rec(0x00,struct.pack('<I',r)+b'\0'*13)
        for c in cells: sh+=c
    sh+=rec(0x92)+rec(0x82)
    z.writestr('xl/worksheets/sheet1.bin',sh)
    s=rec(0x9F,struct.pack('<II',len(sst),len(sst)))+b''.join(rec(0x13,b'\0'+ws(x)) for x in sst)+rec(0xA0)
    z.writestr('xl/sharedStrings.bin',s)
    st=rec(0x116)+rec(0x267,struct.pack('<I',len(fmts)))+b''.join(rec(0x2C,struct.pack('<H',i)+ws(f)) for i,f in fmts)+rec(0x268)
    st+=rec(0x269,struct.pack('<I',len(xfs)))+b''.join(rec(0x2F,struct.pack('<HH',0,x)+b'\0'*12) for x in xfs)+rec(0x26A)+rec(0x117)
    z.writestr('xl/styles.bin',st)
    z.close()
rgce=struct.pack('<I',3)+bytes([0x1E,1,0])+struct.pack('<I',0)
rows=[(2,[rec(2,cellhdr(1,1)+struct.pack('<I',(44197<<2)|2)),            # RK int date style
          rec(2,cellhdr(2,0)+struct.pack('<I',(44197<<2)|2)),            # RK int general
          rec(2,cellhdr(3,1)+struct.pack('<I',(4419700<<2)|3)),          # RK int x100 date
          rec(0x1234&0x3FFF, b'junk'*40),                                # unknown 2-byte id, 160 bytes
          rec(5,cellhdr(4,1)+struct.pack('<d',44197.5)),
          rec(0x0B,cellhdr(5,0)+bytes([0x07])+struct.pack('<H',0)+rgce), # BrtFmlaError
          rec(3,cellhdr(6,0)+bytes([0x2A])),
          rec(0x0A,cellhdr(7,0)+bytes([1])+struct.pack('<H',0)+rgce),
          rec(7,cellhdr(8,0)+struct.pack('<I',1)),
          rec(6,cellhdr(9,0)+ws('inl'))])]
mk('b1.xlsb',rows,sst=['zero','one'],fmts=[(164,'yyyy-mm-dd')],xfs=(0,164),date1904=True)
