//! Independent ODS (OpenDocument spreadsheet) writer: logical grid + run-length grouping knobs.

use crate::enc::xlsx::{esc_attr, esc_text};
use crate::enc::zipw::{self, ZipKnobs};
use crate::model::value::{Exp, Pos};
use serde::{Deserialize, Serialize};
use std::collections::BTreeMap;

pub const MIMETYPE: &str = "application/vnd.oasis.opendocument.spreadsheet";

#[derive(Debug, Clone, Serialize, Deserialize, PartialEq)]
pub enum TextPiece {
    /// literal characters (may contain single spaces)
    Text(String),
    /// `<text:s text:c="n"/>` (attribute omitted when n == 1 and `explicit_c` is false)
    Spaces(u32, bool),
    /// `<text:tab/>`
    Tab,
    /// `<text:line-break/>`
    LineBreak,
    /// `<text:span>` wrapping further pieces
    Span(Vec<TextPiece>),
}

#[derive(Debug, Clone, Serialize, Deserialize, PartialEq)]
pub enum OVal {
    Empty,
    /// office:value with value-type float / percentage / currency (kind 0/1/2)
    Float { lex: String, kind: u8 },
    /// office:string-value attribute (content paragraph holds a display copy)
    StrAttr(String),
    /// text content: paragraphs of pieces, joined by a newline
    StrContent(Vec<Vec<TextPiece>>),
    Bool(bool),
    Date(String),
    Time(String),
}

#[derive(Debug, Clone, Serialize, Deserialize, PartialEq)]
pub struct OCell {
    pub value: OVal,
    /// table:formula (e.g. "of:=[.A1]+1")
    pub formula: Option<String>,
    /// office:annotation inside the cell
    pub annotation: Option<String>,
    /// written as table:covered-table-cell
    pub covered: bool,
    /// character-escape style of text content (0 entities, 1 hex refs, 2 decimal refs)
    pub esc: u8,
}

impl OCell {
    pub fn empty() -> OCell {
        OCell { value: OVal::Empty, formula: None, annotation: None, covered: false, esc: 0 }
    }
    pub fn of(value: OVal) -> OCell {
        OCell { value, formula: None, annotation: None, covered: false, esc: 0 }
    }
    pub fn is_blank(&self) -> bool {
        self.value == OVal::Empty && self.formula.is_none()
    }
}

/// physical run of identical cells
#[derive(Debug, Clone, Serialize, Deserialize, PartialEq)]
pub struct OCellRun {
    pub repeat: u32,
    pub cell: OCell,
}

#[derive(Debug, Clone, Serialize, Deserialize, PartialEq)]
pub struct ORow {
    pub repeat: u32,
    pub cells: Vec<OCellRun>,
}

#[derive(Debug, Clone, Serialize, Deserialize, PartialEq, Default)]
#[serde(default)]
pub struct OSheet {
    pub name: String,
    pub hidden: bool,
    /// logical content
    pub grid: BTreeMap<String, OCell>, // key "r,c" (JSON object keys must be strings)
    /// knob bytes driving the run-length grouping
    pub grouping: Vec<u8>,
    /// 0 nothing after the last content, 1 LibreOffice-style trailing repeats, 2 a few explicit empties
    pub trailing: u8,
    /// table:table-column declarations / header-rows wrapper around the first row
    pub decorations: u8,
}

#[derive(Debug, Clone, Serialize, Deserialize, PartialEq, Default)]
#[serde(default)]
pub struct OdsDoc {
    pub sheets: Vec<OSheet>,
    /// (name, expression or range address, is_range)
    pub names: Vec<(String, String, bool)>,
    /// manifest entries that carry manifest:encryption-data (indices into the part list), for C20
    pub encrypted_entries: Vec<String>,
    pub zip: ZipKnobs,
    /// newlines between rows/tables (never inside a row: the reader rejects text there)
    pub pretty: bool,
    pub decl: bool,
}

pub fn key(p: Pos) -> String {
    format!("{},{}", p.0, p.1)
}
pub fn unkey(k: &str) -> Pos {
    let (a, b) = k.split_once(',').expect("grid key");
    (a.parse().unwrap(), b.parse().unwrap())
}

impl OSheet {
    pub fn cells(&self) -> BTreeMap<Pos, &OCell> {
        self.grid.iter().map(|(k, v)| (unkey(k), v)).collect()
    }
}

// ---------------------------------------------------------------------------------------------
// layout: logical grid -> physical rows, cutting every maximal run into a generated composition

struct Knobs<'a> {
    bytes: &'a [u8],
    i: usize,
}
impl Knobs<'_> {
    fn next(&mut self) -> u32 {
        if self.bytes.is_empty() {
            return u32::MAX; // no knobs: never cut (maximal runs)
        }
        let b = self.bytes[self.i % self.bytes.len()];
        self.i += 1;
        b as u32
    }
    /// cut a run of length k into parts
    fn compose(&mut self, mut k: u32) -> Vec<u32> {
        let mut parts = vec![];
        while k > 0 {
            let b = self.next();
            // no knobs: maximal runs; the single knob 0xFF: no repeats at all (every element explicit)
            let part = if b == u32::MAX {
                k
            } else if self.bytes == [0xFF] {
                1
            } else {
                1 + (b * 7 + 3) % k
            };
            parts.push(part);
            k -= part;
        }
        parts
    }
}

/// maximal runs of identical cells of one logical row (from column 0 to the last cell)
fn row_runs(cells: &BTreeMap<Pos, &OCell>, r: u32) -> Vec<(u32, OCell)> {
    let mut runs: Vec<(u32, OCell)> = vec![];
    let mut next = 0u32;
    let mut push = |runs: &mut Vec<(u32, OCell)>, n: u32, c: OCell| {
        if n == 0 {
            return;
        }
        match runs.last_mut() {
            Some((k, last)) if *last == c && c.annotation.is_none() => *k += n,
            _ => runs.push((n, c)),
        }
    };
    for (p, c) in cells.range((r, 0)..=(r, u32::MAX)) {
        push(&mut runs, p.1 - next, OCell::empty());
        push(&mut runs, 1, (*c).clone());
        next = p.1 + 1;
    }
    runs
}

pub fn layout(sheet: &OSheet) -> Vec<ORow> {
    let cells = sheet.cells();
    let mut knobs = Knobs { bytes: &sheet.grouping, i: 0 };
    let content_rows: Vec<u32> = {
        let mut v: Vec<u32> = cells.keys().map(|p| p.0).collect();
        v.dedup();
        v
    };
    if content_rows.is_empty() {
        return match sheet.trailing {
            0 => vec![],
            _ => vec![ORow { repeat: 1_048_576, cells: vec![OCellRun { repeat: 16_384, cell: OCell::empty() }] }],
        };
    }
    let empty_row_cells = |trailing: u8| match trailing {
        1 => vec![OCellRun { repeat: 16_384, cell: OCell::empty() }],
        _ => vec![],
    };
    let mut out = vec![];
    let mut next_row = 0u32;
    let mut idx = 0;
    while idx < content_rows.len() {
        let row_no = content_rows[idx];
        if row_no > next_row {
            for part in knobs.compose(row_no - next_row) {
                out.push(ORow { repeat: part, cells: empty_row_cells(sheet.trailing) });
            }
        }
        let runs = row_runs(&cells, row_no);
        let mut run = 1usize;
        while idx + run < content_rows.len()
            && content_rows[idx + run] == row_no + run as u32
            && runs.iter().all(|(_, c)| c.annotation.is_none())
            && row_runs(&cells, content_rows[idx + run]) == runs
        {
            run += 1;
        }
        let width: u32 = runs.iter().map(|(n, _)| *n).sum();
        for part in knobs.compose(run as u32) {
            let mut phys = vec![];
            for (k, c) in &runs {
                for p in knobs.compose(*k) {
                    phys.push(OCellRun { repeat: p, cell: c.clone() });
                }
            }
            match sheet.trailing {
                1 if width < 16_384 => phys.push(OCellRun { repeat: 16_384 - width, cell: OCell::empty() }),
                2 => {
                    phys.push(OCellRun { repeat: 1, cell: OCell::empty() });
                    phys.push(OCellRun { repeat: 2, cell: OCell::empty() });
                }
                _ => {}
            }
            out.push(ORow { repeat: part, cells: phys });
        }
        idx += run;
        next_row = row_no + run as u32;
    }
    match sheet.trailing {
        1 if next_row < 1_048_576 => out.push(ORow { repeat: 1_048_576 - next_row, cells: vec![OCellRun { repeat: 16_384, cell: OCell::empty() }] }),
        2 => {
            out.push(ORow { repeat: 1, cells: vec![] });
            out.push(ORow { repeat: 3, cells: vec![OCellRun { repeat: 2, cell: OCell::empty() }] });
        }
        _ => {}
    }
    out
}

// ---------------------------------------------------------------------------------------------
// XML

fn write_pieces(out: &mut String, pieces: &[TextPiece], esc: u8) {
    for p in pieces {
        match p {
            TextPiece::Text(t) => out.push_str(&esc_text(t, esc)),
            TextPiece::Spaces(n, explicit) => {
                if *n == 1 && !explicit {
                    out.push_str("<text:s/>");
                } else {
                    out.push_str(&format!("<text:s text:c=\"{n}\"/>"));
                }
            }
            TextPiece::Tab => out.push_str("<text:tab/>"),
            TextPiece::LineBreak => out.push_str("<text:line-break/>"),
            TextPiece::Span(inner) => {
                out.push_str("<text:span text:style-name=\"T1\">");
                write_pieces(out, inner, esc);
                out.push_str("</text:span>");
            }
        }
    }
}

pub fn pieces_text(pieces: &[TextPiece]) -> String {
    let mut s = String::new();
    for p in pieces {
        match p {
            TextPiece::Text(t) => s.push_str(t),
            TextPiece::Spaces(n, _) => s.extend(std::iter::repeat(' ').take(*n as usize)),
            TextPiece::Tab => s.push('\t'),
            TextPiece::LineBreak => s.push('\n'),
            TextPiece::Span(inner) => s.push_str(&pieces_text(inner)),
        }
    }
    s
}

pub fn content_text(paragraphs: &[Vec<TextPiece>]) -> String {
    paragraphs.iter().map(|p| pieces_text(p)).collect::<Vec<_>>().join("\n")
}

fn write_cell(out: &mut String, run: &OCellRun) {
    let c = &run.cell;
    let tag = if c.covered { "table:covered-table-cell" } else { "table:table-cell" };
    let mut attrs = String::new();
    if run.repeat != 1 {
        attrs.push_str(&format!(" table:number-columns-repeated=\"{}\"", run.repeat));
    }
    if let Some(f) = &c.formula {
        attrs.push_str(&format!(" table:formula=\"{}\"", esc_attr(f)));
    }
    let mut body = String::new();
    if let Some(a) = &c.annotation {
        body.push_str(&format!("<office:annotation><dc:date>2020-01-01T00:00:00</dc:date><text:p>{}</text:p></office:annotation>", esc_text(a, 0)));
    }
    match &c.value {
        OVal::Empty => {}
        OVal::Float { lex, kind } => {
            let ty = ["float", "percentage", "currency"][*kind as usize % 3];
            attrs.push_str(&format!(" office:value-type=\"{ty}\" office:value=\"{lex}\""));
            if *kind == 2 {
                attrs.push_str(" office:currency=\"EUR\"");
            }
            body.push_str(&format!("<text:p>{lex}</text:p>"));
        }
        OVal::StrAttr(s) => {
            attrs.push_str(&format!(" office:value-type=\"string\" office:string-value=\"{}\"", esc_attr(s)));
            body.push_str(&format!("<text:p>{}</text:p>", esc_text("shown text", 0)));
        }
        OVal::StrContent(paras) => {
            attrs.push_str(" office:value-type=\"string\"");
            for p in paras {
                body.push_str("<text:p>");
                write_pieces(&mut body, p, c.esc);
                body.push_str("</text:p>");
            }
        }
        OVal::Bool(b) => {
            attrs.push_str(&format!(" office:value-type=\"boolean\" office:boolean-value=\"{b}\""));
            body.push_str(&format!("<text:p>{}</text:p>", if *b { "TRUE" } else { "FALSE" }));
        }
        OVal::Date(d) => {
            attrs.push_str(&format!(" office:value-type=\"date\" office:date-value=\"{d}\""));
            body.push_str("<text:p>a date</text:p>");
        }
        OVal::Time(t) => {
            attrs.push_str(&format!(" office:value-type=\"time\" office:time-value=\"{t}\""));
            body.push_str("<text:p>a time</text:p>");
        }
    }
    if body.is_empty() {
        out.push_str(&format!("<{tag}{attrs}/>"));
    } else {
        out.push_str(&format!("<{tag}{attrs}>{body}</{tag}>"));
    }
}

pub fn content_xml(doc: &OdsDoc) -> String {
    let mut out = String::new();
    if doc.decl {
        out.push_str("<?xml version=\"1.0\" encoding=\"UTF-8\"?>\n");
    }
    out.push_str("<office:document-content xmlns:office=\"urn:oasis:names:tc:opendocument:xmlns:office:1.0\" xmlns:style=\"urn:oasis:names:tc:opendocument:xmlns:style:1.0\" xmlns:text=\"urn:oasis:names:tc:opendocument:xmlns:text:1.0\" xmlns:table=\"urn:oasis:names:tc:opendocument:xmlns:table:1.0\" xmlns:dc=\"http://purl.org/dc/elements/1.1/\" xmlns:of=\"urn:oasis:names:tc:opendocument:xmlns:of:1.2\" office:version=\"1.2\">");
    out.push_str("<office:automatic-styles>");
    out.push_str("<style:style style:name=\"co1\" style:family=\"table-column\"><style:table-column-properties style:column-width=\"2cm\"/></style:style>");
    out.push_str("<style:style style:name=\"ta_vis\" style:family=\"table\" style:master-page-name=\"Default\"><style:table-properties table:display=\"true\" style:writing-mode=\"lr-tb\"/></style:style>");
    out.push_str("<style:style style:name=\"ta_hid\" style:family=\"table\" style:master-page-name=\"Default\"><style:table-properties table:display=\"false\" style:writing-mode=\"lr-tb\"/></style:style>");
    out.push_str("<style:style style:name=\"T1\" style:family=\"text\"><style:text-properties/></style:style>");
    out.push_str("</office:automatic-styles>");
    out.push_str("<office:body><office:spreadsheet>");
    for (si, sheet) in doc.sheets.iter().enumerate() {
        if doc.pretty {
            out.push('\n');
        }
        // a visible sheet either names the visible style or (every third sheet) no style at all
        let style = if sheet.hidden {
            " table:style-name=\"ta_hid\""
        } else if si % 3 == 2 {
            ""
        } else {
            " table:style-name=\"ta_vis\""
        };
        out.push_str(&format!("<table:table table:name=\"{}\"{style}>", esc_attr(&sheet.name)));
        if sheet.decorations & 1 != 0 {
            out.push_str("<table:table-column table:style-name=\"co1\" table:number-columns-repeated=\"3\" table:default-cell-style-name=\"Default\"/>");
        }
        let rows = layout(sheet);
        for (ri, row) in rows.iter().enumerate() {
            if doc.pretty {
                out.push('\n');
            }
            let wrap = sheet.decorations & 2 != 0 && ri == 0;
            if wrap {
                out.push_str("<table:table-header-rows>");
            }
            let rep = if row.repeat != 1 { format!(" table:number-rows-repeated=\"{}\"", row.repeat) } else { String::new() };
            out.push_str(&format!("<table:table-row table:style-name=\"ro1\"{rep}>"));
            for run in &row.cells {
                write_cell(&mut out, run);
            }
            out.push_str("</table:table-row>");
            if wrap {
                out.push_str("</table:table-header-rows>");
            }
        }
        out.push_str("</table:table>");
    }
    if !doc.names.is_empty() {
        out.push_str("<table:named-expressions>");
        for (n, v, is_range) in &doc.names {
            if *is_range {
                out.push_str(&format!("<table:named-range table:name=\"{}\" table:base-cell-address=\"$Sheet1.$A$1\" table:cell-range-address=\"{}\"/>", esc_attr(n), esc_attr(v)));
            } else {
                out.push_str(&format!("<table:named-expression table:name=\"{}\" table:base-cell-address=\"$Sheet1.$A$1\" table:expression=\"{}\"/>", esc_attr(n), esc_attr(v)));
            }
        }
        out.push_str("</table:named-expressions>");
    }
    out.push_str("</office:spreadsheet></office:body></office:document-content>");
    out
}

pub fn manifest_xml(doc: &OdsDoc, parts: &[&str]) -> String {
    let mut m = String::from("<?xml version=\"1.0\" encoding=\"UTF-8\"?>\n<manifest:manifest xmlns:manifest=\"urn:oasis:names:tc:opendocument:xmlns:manifest:1.0\" manifest:version=\"1.2\">");
    m.push_str(&format!("<manifest:file-entry manifest:full-path=\"/\" manifest:version=\"1.2\" manifest:media-type=\"{MIMETYPE}\"/>"));
    for p in parts {
        if doc.encrypted_entries.iter().any(|e| e == p) {
            m.push_str(&format!("<manifest:file-entry manifest:full-path=\"{p}\" manifest:media-type=\"text/xml\" manifest:size=\"1234\"><manifest:encryption-data manifest:checksum-type=\"urn:oasis:names:tc:opendocument:xmlns:manifest:1.0#sha256-1k\" manifest:checksum=\"AAAA\"><manifest:algorithm manifest:algorithm-name=\"http://www.w3.org/2001/04/xmlenc#aes256-cbc\" manifest:initialisation-vector=\"AAAA\"/><manifest:key-derivation manifest:key-derivation-name=\"PBKDF2\" manifest:key-size=\"32\" manifest:iteration-count=\"100000\" manifest:salt=\"AAAA\"/><manifest:start-key-generation manifest:start-key-generation-name=\"http://www.w3.org/2000/09/xmldsig#sha256\" manifest:key-size=\"32\"/></manifest:encryption-data></manifest:file-entry>"));
        } else {
            // both spellings of an empty element occur in the wild (long form when `pretty`)
            if doc.pretty {
                m.push_str(&format!("<manifest:file-entry manifest:full-path=\"{p}\" manifest:media-type=\"text/xml\"></manifest:file-entry>"));
            } else {
                m.push_str(&format!("<manifest:file-entry manifest:full-path=\"{p}\" manifest:media-type=\"text/xml\"/>"));
            }
        }
    }
    m.push_str("</manifest:manifest>");
    m
}

pub fn encode(doc: &OdsDoc) -> Vec<u8> {
    encode_with_content(doc, content_xml(doc).into_bytes())
}

/// `content` replaces content.xml (used for encrypted packages, where it is opaque bytes)
/// the package parts in archive order (mimetype first), for the fault injector
pub fn parts(doc: &OdsDoc) -> Vec<(String, Vec<u8>)> {
    let names = ["content.xml", "styles.xml", "meta.xml", "settings.xml"];
    vec![
        ("mimetype".to_string(), MIMETYPE.as_bytes().to_vec()),
        ("content.xml".to_string(), content_xml(doc).into_bytes()),
        ("styles.xml".to_string(), b"<office:document-styles xmlns:office=\"urn:oasis:names:tc:opendocument:xmlns:office:1.0\"/>".to_vec()),
        ("META-INF/manifest.xml".to_string(), manifest_xml(doc, &names).into_bytes()),
    ]
}

/// zip parts as given (first entry stored)
pub fn pack_parts(parts: Vec<(String, Vec<u8>)>) -> Vec<u8> {
    let entries: Vec<zipw::ZipEntry> = parts
        .into_iter()
        .enumerate()
        .map(|(i, (name, data))| zipw::ZipEntry { name, data, method: if i == 0 { zipw::Method::Stored } else { zipw::Method::Deflate(6) }, data_descriptor: false })
        .collect();
    zipw::write_zip(&entries, b"")
}

pub fn encode_with_content(doc: &OdsDoc, content: Vec<u8>) -> Vec<u8> {
    let names = ["content.xml", "styles.xml", "meta.xml", "settings.xml"];
    let manifest = manifest_xml(doc, &names);
    let styles = "<?xml version=\"1.0\" encoding=\"UTF-8\"?>\n<office:document-styles xmlns:office=\"urn:oasis:names:tc:opendocument:xmlns:office:1.0\" office:version=\"1.2\"/>";
    let meta = "<?xml version=\"1.0\" encoding=\"UTF-8\"?>\n<office:document-meta xmlns:office=\"urn:oasis:names:tc:opendocument:xmlns:office:1.0\" office:version=\"1.2\"/>";
    let settings = "<?xml version=\"1.0\" encoding=\"UTF-8\"?>\n<office:document-settings xmlns:office=\"urn:oasis:names:tc:opendocument:xmlns:office:1.0\" office:version=\"1.2\"/>";
    // the mimetype entry is first and stored, as the package convention requires; the knobs act on the rest
    let mut knobs = doc.zip.clone();
    knobs.name_case = 0; // ODF part names are case sensitive
    let rest = vec![
        ("content.xml".to_string(), content),
        ("styles.xml".to_string(), styles.as_bytes().to_vec()),
        ("meta.xml".to_string(), meta.as_bytes().to_vec()),
        ("settings.xml".to_string(), settings.as_bytes().to_vec()),
        ("META-INF/manifest.xml".to_string(), manifest.into_bytes()),
    ];
    // build entries by hand so that mimetype stays first
    let mut entries = vec![zipw::ZipEntry { name: "mimetype".into(), data: MIMETYPE.as_bytes().to_vec(), method: zipw::Method::Stored, data_descriptor: false }];
    let packed_rest = {
        let mut es: Vec<zipw::ZipEntry> = rest
            .into_iter()
            .enumerate()
            .map(|(i, (name, data))| {
                let m = if knobs.methods.is_empty() { 0 } else { knobs.methods[i % knobs.methods.len()] };
                let (method, dd) = match m % 5 {
                    0 => (zipw::Method::Deflate(6), false),
                    1 => (zipw::Method::Stored, false),
                    2 => (zipw::Method::Deflate(1), false),
                    3 => (zipw::Method::Deflate(9), true),
                    _ => (zipw::Method::Deflate(0), false),
                };
                zipw::ZipEntry { name, data, method, data_descriptor: dd }
            })
            .collect();
        let n = es.len();
        for (i, k) in knobs.order.iter().enumerate() {
            es.swap(i % n, *k as usize % n);
        }
        es
    };
    entries.extend(packed_rest);
    zipw::write_zip(&entries, b"")
}

// ---------------------------------------------------------------------------------------------
// expected values

pub fn expected_cell(c: &OCell) -> Option<Exp> {
    match &c.value {
        OVal::Empty => None,
        OVal::Float { lex, .. } => Some(Exp::Float(lex.parse().expect("parseable"))),
        OVal::StrAttr(s) => Some(Exp::Str(s.clone())),
        OVal::StrContent(p) => Some(Exp::Str(content_text(p))),
        OVal::Bool(b) => Some(Exp::Bool(*b)),
        OVal::Date(d) => Some(Exp::DateTimeIso(d.clone())),
        OVal::Time(t) => Some(Exp::DurationIso(t.clone())),
    }
}

pub fn expected_values(sheet: &OSheet) -> BTreeMap<Pos, Exp> {
    sheet.cells().into_iter().filter_map(|(p, c)| expected_cell(c).map(|e| (p, e))).collect()
}

pub fn expected_formulas(sheet: &OSheet) -> BTreeMap<Pos, String> {
    sheet.cells().into_iter().filter_map(|(p, c)| c.formula.clone().filter(|f| !f.is_empty()).map(|f| (p, f))).collect()
}
