//! Formula AST, A1 renderer and shared-formula translation on the AST (used by C14 and C15).

use serde::{Deserialize, Serialize};

pub const MAX_ROW: u32 = 1_048_575;
pub const MAX_COL: u32 = 16_383;

#[derive(Debug, Clone, Serialize, Deserialize, PartialEq)]
pub struct CellRef {
    pub row: u32,
    pub col: u32,
    pub abs_row: bool,
    pub abs_col: bool,
}

#[derive(Debug, Clone, Serialize, Deserialize, PartialEq)]
pub enum Expr {
    /// optional sheet name + cell
    Ref(Option<String>, CellRef),
    Area(Option<String>, CellRef, CellRef),
    Name(String),
    /// number with its lexical form
    Num(String),
    Str(String),
    Bool(bool),
    /// index into ERRS
    Err(u8),
    Neg(Box<Expr>),
    Plus(Box<Expr>),
    Percent(Box<Expr>),
    Bin(String, Box<Expr>, Box<Expr>),
    Paren(Box<Expr>),
    Func(String, Vec<Expr>),
}

pub const ERRS: [&str; 7] = ["#NULL!", "#DIV/0!", "#VALUE!", "#REF!", "#NAME?", "#NUM!", "#N/A"];

pub fn col_letters(mut col: u32) -> String {
    let mut s = Vec::new();
    col += 1;
    while col > 0 {
        s.push(b'A' + ((col - 1) % 26) as u8);
        col = (col - 1) / 26;
    }
    s.reverse();
    String::from_utf8(s).unwrap()
}

pub fn render_cell(c: &CellRef) -> String {
    format!("{}{}{}{}", if c.abs_col { "$" } else { "" }, col_letters(c.col), if c.abs_row { "$" } else { "" }, c.row + 1)
}

/// does a sheet name need quoting in a reference? (anything but a plain identifier that cannot
/// be mistaken for a cell reference)
pub fn sheet_needs_quotes(name: &str) -> bool {
    // (letters of any script count as letters: Excel writes Übersicht!A1 without quotes)
    let plain = name.chars().all(|c| c.is_alphanumeric() || c == '_' || c == '.') && !name.chars().next().map_or(true, |c| c.is_ascii_digit());
    if !plain {
        return true;
    }
    looks_like_cell(name)
}

/// A1-style cell reference inside the sheet limits (what Excel refuses as an unquoted name)
pub fn looks_like_cell(s: &str) -> bool {
    let letters: String = s.chars().take_while(|c| c.is_ascii_alphabetic()).collect();
    let digits = &s[letters.len()..];
    if letters.is_empty() || letters.len() > 3 || digits.is_empty() || !digits.chars().all(|c| c.is_ascii_digit()) {
        return false;
    }
    let col = letters.to_ascii_uppercase().bytes().fold(0u32, |a, b| a * 26 + (b - b'A' + 1) as u32);
    let row: u64 = digits.parse().unwrap_or(u64::MAX);
    col <= 16_384 && (1..=1_048_576).contains(&row)
}

pub fn render_sheet(name: &str) -> String {
    // a leading '~' marks a name that the producer wrote without quotes although Excel itself
    // would quote it (a sheet called Q1 or FY21: other writers emit Q1!B2)
    if let Some(raw) = name.strip_prefix('~') {
        return format!("{raw}!");
    }
    if sheet_needs_quotes(name) {
        format!("'{}'!", name.replace('\'', "''"))
    } else {
        format!("{name}!")
    }
}

pub fn render(e: &Expr) -> String {
    match e {
        Expr::Ref(s, c) => format!("{}{}", s.as_deref().map_or(String::new(), render_sheet), render_cell(c)),
        Expr::Area(s, a, b) => format!("{}{}:{}", s.as_deref().map_or(String::new(), render_sheet), render_cell(a), render_cell(b)),
        Expr::Name(n) => n.clone(),
        Expr::Num(l) => l.clone(),
        Expr::Str(s) => format!("\"{}\"", s.replace('"', "\"\"")),
        Expr::Bool(b) => if *b { "TRUE" } else { "FALSE" }.to_string(),
        Expr::Err(k) => ERRS[*k as usize % 7].to_string(),
        Expr::Neg(x) => format!("-{}", render(x)),
        Expr::Plus(x) => format!("+{}", render(x)),
        Expr::Percent(x) => format!("{}%", render(x)),
        Expr::Bin(op, l, r) => format!("{}{}{}", render(l), op, render(r)),
        Expr::Paren(x) => format!("({})", render(x)),
        Expr::Func(n, args) => format!("{}({})", n, args.iter().map(render).collect::<Vec<_>>().join(",")),
    }
}

fn shift_cell(c: &CellRef, dr: i64, dc: i64) -> CellRef {
    CellRef {
        row: if c.abs_row { c.row } else { (c.row as i64 + dr) as u32 },
        col: if c.abs_col { c.col } else { (c.col as i64 + dc) as u32 },
        abs_row: c.abs_row,
        abs_col: c.abs_col,
    }
}

/// translate a formula by (rows, columns): only relative components of references move
pub fn shift(e: &Expr, dr: i64, dc: i64) -> Expr {
    match e {
        Expr::Ref(s, c) => Expr::Ref(s.clone(), shift_cell(c, dr, dc)),
        Expr::Area(s, a, b) => Expr::Area(s.clone(), shift_cell(a, dr, dc), shift_cell(b, dr, dc)),
        Expr::Neg(x) => Expr::Neg(Box::new(shift(x, dr, dc))),
        Expr::Plus(x) => Expr::Plus(Box::new(shift(x, dr, dc))),
        Expr::Percent(x) => Expr::Percent(Box::new(shift(x, dr, dc))),
        Expr::Bin(op, l, r) => Expr::Bin(op.clone(), Box::new(shift(l, dr, dc)), Box::new(shift(r, dr, dc))),
        Expr::Paren(x) => Expr::Paren(Box::new(shift(x, dr, dc))),
        Expr::Func(n, args) => Expr::Func(n.clone(), args.iter().map(|a| shift(a, dr, dc)).collect()),
        other => other.clone(),
    }
}

/// features of a formula used for labels / non-trivial rules
#[derive(Debug, Default, Clone)]
pub struct Features {
    pub mixed_ref: bool,
    pub abs_ref: bool,
    pub rel_ref: bool,
    pub sheet_ref: bool,
    pub quoted_sheet: bool,
    pub area: bool,
    pub func: bool,
    pub func_with_digits: bool,
    pub cell_like_name: bool,
    pub cell_like_string: bool,
    pub non_ascii: bool,
    pub exp_number: bool,
    pub wide_col: bool,
}

pub fn features(e: &Expr, f: &mut Features) {
    let mut cell = |c: &CellRef, f: &mut Features| {
        if c.abs_row != c.abs_col {
            f.mixed_ref = true;
        } else if c.abs_row {
            f.abs_ref = true;
        } else {
            f.rel_ref = true;
        }
        if c.col >= 26 {
            f.wide_col = true;
        }
    };
    match e {
        Expr::Ref(s, c) => {
            cell(c, f);
            if let Some(s) = s {
                f.sheet_ref = true;
                f.quoted_sheet |= sheet_needs_quotes(s);
                f.non_ascii |= !s.is_ascii();
            }
        }
        Expr::Area(s, a, b) => {
            f.area = true;
            cell(a, f);
            cell(b, f);
            if let Some(s) = s {
                f.sheet_ref = true;
                f.quoted_sheet |= sheet_needs_quotes(s);
                f.non_ascii |= !s.is_ascii();
            }
        }
        Expr::Name(n) => f.cell_like_name |= n.chars().any(|c| c.is_ascii_digit()),
        Expr::Num(l) => f.exp_number |= l.contains('E'),
        Expr::Str(s) => {
            f.non_ascii |= !s.is_ascii();
            // contains something a naive scanner would take for a cell
            let mut tok = String::new();
            for ch in s.chars().chain(std::iter::once(' ')) {
                if ch.is_ascii_alphanumeric() {
                    tok.push(ch);
                } else {
                    f.cell_like_string |= looks_like_cell(&tok);
                    tok.clear();
                }
            }
        }
        Expr::Neg(x) | Expr::Plus(x) | Expr::Percent(x) | Expr::Paren(x) => features(x, f),
        Expr::Bin(_, l, r) => {
            features(l, f);
            features(r, f);
        }
        Expr::Func(n, args) => {
            f.func = true;
            f.func_with_digits |= n.chars().any(|c| c.is_ascii_digit());
            for a in args {
                features(a, f);
            }
        }
        _ => {}
    }
}
