#!/bin/bash
# tools/seed_all.sh [tier] [glob] [outfile] — kept seeded changes against the check of their property; one line each in the outfile
tier=${1:-quick}; pat=${2:-C*-m*}; outf=${3:-RESULTS.tsv}
cd /verif
out=seeded/$outf
: > $out.tmp
for d in seeded/$pat; do
  name=$(basename $d); id=${name%%-*}
  r=$(tools/seed_try.sh $d/patch.diff $id $tier 0 2>&1)
  verdict=$(echo "$r" | tail -1 | awk '{print $1}')
  sub=$(echo "$r" | grep -m1 "sub-check:" | sed 's/.*sub-check: //')
  echo -e "$name\t$id\t$tier\t$verdict\t$sub" | tee -a $out.tmp
done
mv $out.tmp $out
git -C /repo status --short | head -3
