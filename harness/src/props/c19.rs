//! C19 — cell text survives every storage form and escaping layer unchanged.

use crate::enc::xlsx::*;
use crate::engine::{replay_as, Ctx, Report};
use crate::model::strings::{has_edge_space, has_special, split_at_cuts, xml_string};
use crate::props::c01::read_and_check;
use crate::props::Prop;
use proptest::prelude::*;
use serde::{Deserialize, Serialize};

pub static PROP: Prop = Prop {
    id: "C19",
    run,
    replay,
    rule: "generated Unicode strings (XML specials, leading/trailing/repeated spaces, TAB/LF/CR, combining marks, astral characters, empty, up to 32767 units in the thorough tier) x storage form per format. xlsx: shared / inline / t=\"str\"; plain <t>, 1-5 rich runs cut at generated points, phonetic run + phoneticPr; entities vs hex vs decimal character references vs CDATA; xml:space; unused and EMPTY shared items (<si/>, <si><t/></si>, <si><t></t></si>, phonetic-only) placed before and between used items so that index alignment is observable; prefixed and pretty-printed parts. Oracle: exact string equality at the cell through worksheet_range and worksheet_range_ref. Non-trivial = the string has edge white space, an XML-special or astral character AND is stored in a non-plain form (rich runs, phonetic data, character references/CDATA, or behind an empty shared item); distinct by serialized case.",
};

// ---------------------------------------------------------------------------------------------
// xlsx

#[derive(Debug, Clone, Serialize, Deserialize)]
pub struct XItem {
    pub text: String,
    /// 0 shared, 1 inline, 2 t="str"
    pub form: u8,
    pub cuts: Vec<u16>,
    pub phonetic: Option<String>,
    pub preserve: bool,
    pub esc: u8,
}

#[derive(Debug, Clone, Serialize, Deserialize)]
pub struct XCase {
    pub items: Vec<XItem>,
    pub prepend: Vec<SstExtra>,
    pub interleave: Option<SstExtra>,
    pub dedupe: bool,
    pub enc: XEnc,
}

fn extra_strategy() -> impl Strategy<Value = SstExtra> {
    prop_oneof![
        2 => Just(SstExtra::EmptySi),
        2 => Just(SstExtra::EmptyT),
        1 => Just(SstExtra::EmptyTOpen),
        1 => Just(SstExtra::OnlyPhonetic),
        2 => xml_string(12).prop_map(|s| SstExtra::Text(XText::plain(&s))),
    ]
}

fn xitem(max_len: usize) -> impl Strategy<Value = XItem> {
    (
        xml_string(max_len),
        prop_oneof![3 => Just(0u8), 2 => Just(1u8), 1 => Just(2u8)],
        prop_oneof![2 => Just(vec![]), 2 => proptest::collection::vec(any::<u16>(), 0..5)],
        proptest::option::weighted(0.25, xml_string(6)),
        any::<bool>(),
        prop_oneof![3 => Just(0u8), 1 => Just(1u8), 1 => Just(2u8), 1 => Just(3u8)],
    )
        .prop_map(|(text, form, cuts, phonetic, preserve, esc)| {
            // a string with edge white space or line breaks is only stored legally with xml:space="preserve"
            let needs = has_edge_space(&text) || text.contains(['\n', '\t', '\r']) || text.is_empty();
            let mut it = XItem { text, form, cuts, phonetic, preserve: preserve || needs, esc };
            if it.form == 2 {
                // <v> cannot carry xml:space: keep strings whose white space is not at an edge of a run
                it.cuts.clear();
                it.phonetic = None;
                if needs {
                    it.form = 0;
                }
            }
            it
        })
}

fn xcase_strategy(max_len: usize) -> impl Strategy<Value = XCase> {
    (
        proptest::collection::vec(xitem(max_len), 1..8),
        proptest::collection::vec(extra_strategy(), 0..3),
        proptest::option::weighted(0.4, extra_strategy()),
        any::<bool>(),
        crate::props::c01::enc_strategy(),
    )
        .prop_map(|(items, prepend, interleave, dedupe, enc)| XCase { items, prepend, interleave, dedupe, enc })
}

fn xdoc(case: &XCase, cdata_ok: bool, excluded: &mut bool) -> XlsxDoc {
    let mut rows = Vec::new();
    for (i, it) in case.items.iter().enumerate() {
        let mut esc = it.esc;
        if esc == 3 && !cdata_ok {
            esc = 0;
            *excluded = true;
        }
        let runs = if it.cuts.is_empty() { vec![it.text.clone()] } else { split_at_cuts(&it.text, &it.cuts) };
        let xt = XText { rich: !it.cuts.is_empty(), runs, phonetic: it.phonetic.clone(), preserve: it.preserve, esc };
        let value = match it.form {
            0 => XVal::Shared(xt),
            1 => XVal::Inline(xt),
            _ => XVal::Str(it.text.clone()),
        };
        let formula = (it.form == 2).then(|| XFormula::Plain("A1&\"\"".into()));
        rows.push(XRow { r: i as u32 + 1, explicit: i % 2 == 0, attrs: false, cells: vec![XCell { col: (i % 4) as u32, explicit: i % 3 != 0, style: None, value, formula }] });
    }
    XlsxDoc {
        sheets: vec![XSheet { name: "T".into(), rows, dimension: XDim::Absent, ..Default::default() }],
        sst: SstKnobs { prepend: case.prepend.clone(), interleave: case.interleave.clone(), dedupe: case.dedupe, counts: true },
        enc: case.enc.clone(),
        ..Default::default()
    }
}

fn oracle_xlsx_with(case: &XCase, cdata_ok: bool) -> Report {
    let mut rep = Report::new();
    let mut excluded = false;
    let doc = xdoc(case, cdata_ok, &mut excluded);
    if excluded {
        rep.excluded = Some("xlsx-cdata".into());
    }
    read_and_check(&doc, "xlsx", &mut rep);
    let behind_empty = case.prepend.iter().chain(case.interleave.iter()).any(|e| !matches!(e, SstExtra::Text(_)));
    let mut nt = false;
    for it in &case.items {
        let hard = has_edge_space(&it.text) || has_special(&it.text);
        let nonplain = !it.cuts.is_empty() || it.phonetic.is_some() || it.esc != 0 || (it.form == 0 && behind_empty);
        nt |= hard && nonplain;
        rep.label(match it.form {
            0 => "xlsx:shared",
            1 => "xlsx:inline",
            _ => "xlsx:str",
        });
        rep.label_if(!it.cuts.is_empty(), "xlsx:rich-runs");
        rep.label_if(it.phonetic.is_some(), "xlsx:phonetic");
        rep.label_if(it.esc == 1 || it.esc == 2, "xlsx:char-refs");
        rep.label_if(it.esc == 3 && cdata_ok, "xlsx:cdata");
        rep.label_if(it.text.is_empty(), "empty-string");
        rep.label_if(it.text.chars().any(|c| c as u32 > 0xFFFF), "astral");
        rep.label_if(it.text.len() > 1000, "long");
    }
    rep.label_if(behind_empty, "xlsx:empty-shared-items-present");
    rep.nontrivial = nt;
    rep
}

fn oracle_xlsx(case: &XCase) -> Report {
    let f = crate::engine::Findings::load_cached();
    oracle_xlsx_with(case, !f.active("C19-xlsx-cdata"))
}

/// used by the pinned witness of the CDATA finding: CDATA is always written
fn oracle_xlsx_strict(case: &XCase) -> Report {
    oracle_xlsx_with(case, true)
}

fn run(ctx: &mut Ctx) {
    let n = ctx.n(3000, 60_000);
    ctx.run("xlsx", n, || xcase_strategy(40), oracle_xlsx);
    if !ctx.quick() {
        ctx.run("xlsx-long", 3000, || xcase_strategy(32_767), oracle_xlsx);
    }
    ctx.assumptions.push("xlsx: strings are restricted to XML 1.0 characters; a string with edge white space is written with xml:space=\"preserve\"; the OOXML _xHHHH_ escape convention is not generated".into());
}

fn replay(sub: &str, case: &serde_json::Value) -> Option<Report> {
    match sub {
        "xlsx" | "xlsx-long" => replay_as::<XCase>(case, oracle_xlsx),
        "xlsx-strict" => replay_as::<XCase>(case, oracle_xlsx_strict),
        _ => None,
    }
}
