use calamine::*;
fn main() {
    let path = std::env::args().nth(1).unwrap();
    let hdr = std::env::args().nth(2);
    match open_workbook_auto(&path) {
        Err(e) => println!("OPEN ERR {:?}", e),
        Ok(mut wb) => {
            if let Some(h) = hdr { wb.with_header_row(HeaderRow::Row(h.parse().unwrap())); }
            println!("sheets {:?}", wb.sheets_metadata());
            println!("names {:?}", wb.defined_names());
            for n in wb.sheet_names() {
                match wb.worksheet_range(&n) {
                    Ok(r) => { println!("[{n}] start={:?} end={:?}", r.start(), r.end()); for (i,j,v) in r.used_cells() { println!("   ({i},{j}) {:?}", v); } }
                    Err(e) => println!("[{n}] RANGE ERR {:?}", e),
                }
                match wb.worksheet_formula(&n) {
                    Ok(r) => { println!("[{n}] F start={:?} end={:?}", r.start(), r.end()); for (i,j,v) in r.used_cells() { println!("   F({i},{j}) {:?}", v); } }
                    Err(e) => println!("[{n}] FORMULA ERR {:?}", e),
                }
            }
        }
    }
}
