//! C14 — formulas are reported at their cell with the A1 text the file encodes.

use crate::enc::ptg::{self, Biff, FUNCS};
use crate::enc::{biff8 as b8, ods as od, xlsb as bb, xlsx as xx};
use crate::engine::{guard, replay_as, Ctx, Report};
use crate::model::formula::{col_letters, features, render, CellRef, Expr, Features};
use crate::model::value::{check_formula_range, Pos};
use crate::props::Prop;
use calamine::Reader;
use proptest::prelude::*;
use serde::{Deserialize, Serialize};
use std::collections::BTreeMap;

pub static PROP: Prop = Prop {
    id: "C14",
    run,
    replay,
    rule: "formula ASTs over cell/area references (4 absolute/relative combinations per corner, rows and columns boundary-heavy: A, Z, AA, IV, XFD), 3-D references to three other sheets through an XTI table that is not the identity, defined names, integer/real/string/bool/error literals, unary + - %, all 12 binary operators, parentheses, 21 fixed-arity and 12 variable-arity functions with 1-6 arguments, SUM as PtgAttrSum; encoded to BIFF8 rgce (xls), BIFF12 rgce (xlsb), <f> text (xlsx) and table:formula (ods), placed at arbitrary cells among constants. Oracle: worksheet_formula holds the harness renderer's text at exactly the formula cells (range = their bounding box). Non-trivial = a reference with column >= 26 or a mixed reference or a 3-D reference, and >= 1 function; distinct by serialized case. All 16384 column names are enumerated through the lettering hook on every run.",
};

#[derive(Debug, Clone, Serialize, Deserialize)]
pub struct Case {
    /// formula cells of the main sheet
    pub formulas: Vec<(Pos, Expr)>,
    pub consts: Vec<Pos>,
    /// coordinates may exceed the BIFF8 grid (then the xls encoding is skipped)
    pub wide: bool,
    pub class_knob: u8,
    pub cfb: crate::enc::cfb::CfbLayout,
}

const SHEETS: [&str; 4] = ["Main", "Data", "Other", "S3"];
const NAMES: [&str; 3] = ["Total", "Rate_1", "MyName"];

fn cell_ref(wide: bool) -> impl Strategy<Value = CellRef> {
    let (maxr, maxc) = if wide { (1_048_575u32, 16_383u32) } else { (65_535, 255) };
    let row = prop_oneof![3 => 0u32..100, 1 => Just(0u32), 1 => Just(maxr), 1 => Just(65_535u32.min(maxr)), 1 => 0..=maxr];
    let col = prop_oneof![3 => 0u32..30, 1 => Just(25u32), 1 => Just(26u32), 1 => Just(27u32), 1 => Just(255u32), 1 => Just(maxc), 1 => Just(701u32.min(maxc)), 1 => Just(702u32.min(maxc)), 1 => 0..=maxc];
    (row, col, any::<bool>(), any::<bool>()).prop_map(|(row, col, abs_row, abs_col)| CellRef { row, col, abs_row, abs_col })
}

fn leaf(wide: bool) -> impl Strategy<Value = Expr> {
    let sheet = prop_oneof![3 => Just(None), 1 => Just(Some("Data".to_string())), 1 => Just(Some("Other".to_string())), 1 => Just(Some("S3".to_string()))];
    let (maxr, maxc) = if wide { (1_048_575u32, 16_383u32) } else { (65_535, 255) };
    prop_oneof![
        6 => (sheet.clone(), cell_ref(wide)).prop_map(|(s, c)| Expr::Ref(s, c)),
        3 => (sheet, cell_ref(wide), 0u32..6, 0u32..6, any::<bool>(), any::<bool>()).prop_map(move |(s, a, dr, dc, abs_row, abs_col)| {
            let b = CellRef { row: (a.row + dr).min(maxr), col: (a.col + dc).min(maxc), abs_row, abs_col };
            Expr::Area(s, a, b)
        }),
        1 => proptest::sample::select(NAMES.to_vec()).prop_map(|n| Expr::Name(n.to_string())),
        3 => proptest::sample::select(vec!["0", "1", "7", "255", "65535", "0.5", "1.25", "100.5", "65536", "1000000", "2.5E-3"]).prop_map(|s| Expr::Num(s.to_string())),
        2 => proptest::sample::select(vec!["", "a", "hello world", "A1", "é"]).prop_map(|s| Expr::Str(s.to_string())),
        1 => any::<bool>().prop_map(Expr::Bool),
        1 => (0u8..7).prop_map(Expr::Err),
    ]
}

fn wrap(e: Expr) -> Expr {
    // operands that are themselves operations get explicit parentheses, as writers emit them
    match e {
        Expr::Bin(..) | Expr::Neg(_) | Expr::Plus(_) | Expr::Percent(_) => Expr::Paren(Box::new(e)),
        e => e,
    }
}

fn expr(wide: bool) -> impl Strategy<Value = Expr> {
    leaf(wide).prop_recursive(3, 14, 6, |inner| {
        prop_oneof![
            5 => (proptest::sample::select(vec!["+", "-", "*", "/", "^", "&", "=", "<>", "<=", ">=", "<", ">"]), inner.clone(), inner.clone()).prop_map(|(op, l, r)| Expr::Bin(op.to_string(), Box::new(wrap(l)), Box::new(wrap(r)))),
            1 => inner.clone().prop_map(|x| Expr::Neg(Box::new(wrap(x)))),
            1 => inner.clone().prop_map(|x| Expr::Plus(Box::new(wrap(x)))),
            1 => inner.clone().prop_map(|x| Expr::Percent(Box::new(wrap(x)))),
            1 => inner.clone().prop_map(|x| Expr::Paren(Box::new(x))),
            5 => (0..FUNCS.len(), proptest::collection::vec(inner, 6)).prop_map(|(k, mut args)| {
                let (name, _, arity) = FUNCS[k];
                let n = match arity {
                    Some(a) => a as usize,
                    None => 1 + args.len() % 6,
                };
                let n = if arity.is_none() { 1 + (k * 7 + args.len()) % 6 } else { n };
                args.truncate(n);
                Expr::Func(name.to_string(), args)
            }),
        ]
    })
}

fn case_strategy() -> impl Strategy<Value = Case> {
    any::<bool>().prop_flat_map(|wide| {
        let (maxr, maxc) = if wide { (1_048_575u32, 16_383u32) } else { (65_535, 255) };
        let pos = (prop_oneof![3 => 0u32..30, 1 => Just(maxr), 1 => 0..=maxr], prop_oneof![3 => 0u32..12, 1 => Just(maxc), 1 => Just(26u32), 1 => 0..=maxc]);
        // keep the bounding box of formula cells small: one anchor, small offsets
        (pos, proptest::collection::btree_map((0u32..12, 0u32..8), expr(wide), 1..8), proptest::collection::btree_set((0u32..12, 0u32..8), 0..5), any::<u8>(), crate::props::c13::layout_strategy()).prop_map(move |((r0, c0), fs, cs, class_knob, cfb)| {
            // the window (12 x 8) may end exactly on the last row / column of the grid
            let r0 = r0.min(maxr - 11);
            let c0 = c0.min(maxc - 7);
            let formulas: Vec<(Pos, Expr)> = fs.into_iter().map(|((r, c), e)| ((r0 + r, c0 + c), e)).collect();
            let consts = cs.into_iter().map(|(r, c)| (r0 + r, c0 + c)).filter(|p| !formulas.iter().any(|(q, _)| q == p)).collect();
            Case { formulas, consts, wide, class_knob, cfb }
        })
    })
}

fn ixti_of(sheet: &str) -> u16 {
    // XTI table: entry k -> sheet 3-k
    3 - SHEETS.iter().position(|s| *s == sheet).expect("sheet") as u16
}

fn name_index(n: &str) -> u32 {
    NAMES.iter().position(|x| *x == n).expect("name") as u32 + 1
}

fn rgce(e: &Expr, biff: Biff, knob: u8) -> Vec<u8> {
    let ctx = ptg::Ctx { ixti: &ixti_of, name_index: &name_index, class_knob: knob };
    let mut out = vec![];
    if knob & 0x40 != 0 {
        out.extend_from_slice(&[0x19, 0x01, 0, 0]); // PtgAttrSemi (volatile), no text
    }
    ptg::encode(e, biff, &ctx, &mut out);
    out
}

fn expected(case: &Case, tokens: bool) -> BTreeMap<Pos, String> {
    case.formulas.iter().map(|(p, e)| (*p, if tokens { ptg::render_tokens(e) } else { render(e) })).collect()
}

fn check<R: Reader<std::io::Cursor<Vec<u8>>>>(wb: &mut R, exp: &BTreeMap<Pos, String>, what: &str, rep: &mut Report)
where
    R::Error: std::fmt::Debug,
{
    match guard(|| wb.worksheet_formula("Main")) {
        Ok(Ok(r)) => {
            if let Err(e) = check_formula_range(&r, exp, what) {
                rep.fail(e);
            }
        }
        Ok(Err(e)) => rep.fail(format!("{what}: worksheet_formula failed: {e:?}")),
        Err(p) => rep.fail(format!("{what}: worksheet_formula: {p}")),
    }
}

pub fn xls_doc(case: &Case) -> b8::XlsDoc {
    let name_rgce8 = |k: usize| {
        let mut v = vec![0x3A];
        v.extend((k as u16).to_le_bytes());
        v.extend(0u16.to_le_bytes());
        v.extend(0u16.to_le_bytes());
        v
    };
    {
        // the cached result of a formula can be of any type: the formula text must not depend on it
        let cached = |i: usize| match (i + case.class_knob as usize) % 5 {
            0 => b8::FVal::Num(0.0),
            1 => b8::FVal::Str("r".into(), i % 2 == 0),
            2 => b8::FVal::Bool(true),
            3 => b8::FVal::Err(0x07),
            _ => b8::FVal::EmptyStr,
        };
        let mut cells: Vec<b8::BCell> = case.formulas.iter().enumerate().map(|(i, (p, e))| b8::BCell { row: p.0 as u16, col: p.1 as u16, ixfe: 0, rec: b8::BRec::Formula { value: cached(i), rgce: rgce(e, Biff::B8, case.class_knob) } }).collect();
        cells.extend(case.consts.iter().map(|p| b8::BCell { row: p.0 as u16, col: p.1 as u16, ixfe: 0, rec: b8::BRec::Number(7.0) }));
        cells.sort_by_key(|c| (c.row, c.col));
        let other = |n: &str| b8::BSheet { name: n.into(), cells: vec![b8::BCell { row: 0, col: 0, ixfe: 0, rec: b8::BRec::Number(1.0) }], ..Default::default() };
        let doc = b8::XlsDoc {
            sheets: vec![b8::BSheet { name: "Main".into(), cells, dimensions: 1, ..Default::default() }, other("Data"), other("Other"), other("S3")],
            xfs: vec![0],
            names: NAMES.iter().enumerate().map(|(k, n)| b8::BName { name: n.to_string(), wide: false, rgce: name_rgce8(k) }).collect(),
            xtis: vec![(3, 3), (2, 2), (1, 1), (0, 0)],
            cfb: case.cfb.clone(),
            ..Default::default()
        };
        doc
    }
}

pub fn xlsb_doc(case: &Case) -> bb::XlsbDoc {
let mut rows: BTreeMap<u32, Vec<bb::BbCell>> = BTreeMap::new();
    for (i, (p, e)) in case.formulas.iter().enumerate() {
        let r = rgce(e, Biff::B12, case.class_knob);
        let rec = match (i + case.class_knob as usize) % 4 {
            0 => bb::BbRec::FmlaNum(0.0, r),
            1 => bb::BbRec::FmlaString("r".into(), r),
            2 => bb::BbRec::FmlaBool(true, r),
            _ => bb::BbRec::FmlaError(0x07, r),
        };
        rows.entry(p.0).or_default().push(bb::BbCell { col: p.1, style: 0, rec });
    }
    for p in &case.consts {
        rows.entry(p.0).or_default().push(bb::BbCell { col: p.1, style: 0, rec: bb::BbRec::Real(7.0) });
    }
    let rows = rows
        .into_iter()
        .map(|(r, mut cells)| {
            cells.sort_by_key(|c| c.col);
            bb::BbRow { r, before: vec![], cells }
        })
        .collect();
    let other = |n: &str| bb::BbSheet { name: n.into(), rows: vec![bb::BbRow { r: 0, before: vec![], cells: vec![bb::BbCell { col: 0, style: 0, rec: bb::BbRec::Real(1.0) }] }], ..Default::default() };
    let name_rgce12 = |k: usize| {
        let mut v = vec![0x3A];
        v.extend((k as u16).to_le_bytes());
        v.extend(0u32.to_le_bytes());
        v.extend(0u16.to_le_bytes());
        v
    };
    let doc = bb::XlsbDoc {
        sheets: vec![bb::BbSheet { name: "Main".into(), rows, ..Default::default() }, other("Data"), other("Other"), other("S3")],
        names: NAMES.iter().enumerate().map(|(k, n)| (n.to_string(), name_rgce12(k))).collect(),
        xtis: vec![(3, 3), (2, 2), (1, 1), (0, 0)],
        ..Default::default()
    };
    doc
}

pub fn xlsx_doc(case: &Case) -> xx::XlsxDoc {
let mut rows: BTreeMap<u32, Vec<xx::XCell>> = BTreeMap::new();
    // cell and row references are written or left implicit (where the implied cursor is right)
    let (row_refs, cell_refs) = (case.class_knob & 0x20 == 0, case.class_knob & 0x40 == 0);
    for (i, (p, e)) in case.formulas.iter().enumerate() {
        let value = match (i + case.class_knob as usize) % 4 {
            0 => xx::XVal::Num { lex: "0".into(), typed: false },
            1 => xx::XVal::Str("r".into()),
            2 => xx::XVal::Bool(true),
            _ => xx::XVal::Err(1),
        };
        rows.entry(p.0).or_default().push(xx::XCell { col: p.1, explicit: cell_refs, style: None, value, formula: Some(xx::XFormula::Plain(render(e))) });
    }
    for p in &case.consts {
        rows.entry(p.0).or_default().push(xx::XCell { col: p.1, explicit: cell_refs, style: None, value: xx::XVal::Num { lex: "7".into(), typed: false }, formula: None });
    }
    let rows = rows
        .into_iter()
        .map(|(r, mut cells)| {
            cells.sort_by_key(|c| c.col);
            xx::XRow { r, explicit: row_refs, attrs: false, cells }
        })
        .collect();
    // the worksheet part may bind the SpreadsheetML namespace to a prefix (x:c, x:f, x:v)
    let enc = xx::XEnc { prefix_sheet: case.class_knob & 0x80 != 0, prefix_workbook: case.class_knob & 0x08 != 0, ..Default::default() };
    let doc = xx::XlsxDoc { sheets: vec![xx::XSheet { name: "Main".into(), rows, ..Default::default() }], enc, ..Default::default() };
    doc
}

pub fn strategy() -> impl Strategy<Value = Case> {
    case_strategy()
}

fn oracle(case: &Case) -> Report {
    let mut rep = Report::new();
    // ---- xls
    if !case.wide {
        let doc = xls_doc(case);
        match crate::props::c02::open_xls(b8::encode(&doc)) {
            Ok(mut wb) => check(&mut wb, &expected(case, true), "xls", &mut rep),
            Err(e) => rep.fail(format!("xls: {e}")),
        }
        if rep.failed() {
            return rep;
        }
    }
    // ---- xlsb
    {
        let doc = xlsb_doc(case);
        match crate::props::c03::open_xlsb(bb::encode(&doc)) {
            Ok(mut wb) => check(&mut wb, &expected(case, true), "xlsb", &mut rep),
            Err(e) => rep.fail(format!("xlsb: {e}")),
        }
        if rep.failed() {
            return rep;
        }
    }
    // ---- xlsx and ods store text
    {
        let doc = xlsx_doc(case);
        match crate::props::c01::open_xlsx(xx::encode(&doc)) {
            Ok(mut wb) => check(&mut wb, &expected(case, false), "xlsx", &mut rep),
            Err(e) => rep.fail(format!("xlsx: {e}")),
        }
        if rep.failed() {
            return rep;
        }
    }
    if case.formulas.iter().all(|(p, _)| p.0 < 1_048_576 && p.1 < 16_384) {
        let mut grid = BTreeMap::new();
        let mut exp = BTreeMap::new();
        for (i, (p, e)) in case.formulas.iter().enumerate() {
            let text = format!("of:={}", render(e));
            exp.insert(*p, text.clone());
            // some producers leave the calculation to the consumer: a formula without cached value
            let value = if (i + case.class_knob as usize) % 4 == 2 { od::OVal::Empty } else { od::OVal::Float { lex: "0".into(), kind: 0 } };
            grid.insert(od::key(*p), od::OCell { value, formula: Some(text), annotation: None, covered: false, esc: 0 });
        }
        for p in &case.consts {
            grid.insert(od::key(*p), od::OCell::of(od::OVal::Float { lex: "7".into(), kind: 0 }));
        }
        let doc = od::OdsDoc { sheets: vec![od::OSheet { name: "Main".into(), grid, ..Default::default() }], ..Default::default() };
        match crate::props::c04::open_ods(od::encode(&doc)) {
            Ok(mut wb) => check(&mut wb, &exp, "ods", &mut rep),
            Err(e) => rep.fail(format!("ods: {e}")),
        }
    }
    let mut nt = false;
    for (_, e) in &case.formulas {
        let mut f = Features::default();
        features(e, &mut f);
        rep.label_if(f.wide_col, "reference:column>=26");
        rep.label_if(f.mixed_ref, "reference:mixed");
        rep.label_if(f.abs_ref, "reference:absolute");
        rep.label_if(f.rel_ref, "reference:relative");
        rep.label_if(f.sheet_ref, "reference:3-D");
        rep.label_if(f.area, "reference:area");
        rep.label_if(f.func, "function");
        nt |= (f.wide_col || f.mixed_ref || f.sheet_ref) && f.func;
    }
    rep.label(if case.wide { "grid:xlsx-size" } else { "grid:biff8-size" });
    rep.nontrivial = nt;
    rep
}

// ---------------------------------------------------------------------------------------------
// exhaustive column lettering

#[derive(Debug, Clone, Serialize, Deserialize)]
pub struct Col {
    pub col: u32,
}

fn oracle_col(c: &Col) -> Report {
    let mut rep = Report::new();
    match guard(|| calamine::verif_hooks::push_column(c.col)) {
        Ok(s) if s == col_letters(c.col) => {}
        Ok(s) => rep.fail(format!("column {} is lettered {s:?}, expected {:?}", c.col, col_letters(c.col))),
        Err(p) => rep.fail(format!("column {}: {p}", c.col)),
    }
    rep.nontrivial = c.col >= 26;
    rep
}

fn column_sweep(ctx: &mut Ctx) {
    let mut fail = None;
    for col in 0..16_384u32 {
        let r = oracle_col(&Col { col });
        if let (Some(m), true) = (r.verdict, fail.is_none()) {
            fail = Some((Col { col }, m));
        }
    }
    ctx.record_sweep("column-lettering", 16_384, 16_384 - 26, BTreeMap::new(), vec![serde_json::json!({"col": 26, "expected": "AA"}), serde_json::json!({"col": 16383, "expected": "XFD"})], true, "every column 0..16383 through the lettering hook against bijective base 26");
    if let Some((c, m)) = fail {
        ctx.report_violation("column", &c, &m);
    }
}

fn run(ctx: &mut Ctx) {
    column_sweep(ctx);
    let n = ctx.n(2500, 80_000);
    ctx.run("formulas", n, case_strategy, oracle);
    ctx.assumptions.push("sheet names in 3-D references and defined names are plain identifiers (no quoting rule involved); string literals contain no double quote; real literals have short exact decimal expansions; operands that are operations carry explicit PtgParen tokens".into());
}

fn replay(sub: &str, case: &serde_json::Value) -> Option<Report> {
    match sub {
        "formulas" => replay_as::<Case>(case, oracle),
        "column" => replay_as::<Col>(case, oracle_col),
        _ => None,
    }
}
