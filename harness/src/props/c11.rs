//! C11 — serial date-times convert to the right calendar date, time and duration.
//!
//! Oracle: exact rational arithmetic on the f64 serial (mantissa * 2^e) and a civil calendar
//! written for the harness; chrono is used only to read the fields of calamine's answer.

use crate::engine::{guard, replay_as, Ctx, Report};
use crate::model::civil::{days_from_civil, epoch_1899_12_30};
use crate::props::Prop;
use calamine::{Data, DataType, ExcelDateTime, ExcelDateTimeType};
use chrono::{Datelike, Timelike};
use proptest::prelude::*;
use serde::{Deserialize, Serialize};
use std::collections::BTreeMap;

pub static PROP: Prop = Prop {
    id: "C11",
    run,
    replay,
    rule: "every whole serial 0..=2958465 in both date systems (exhaustive), plus generated serials d + k/86400000 +- {0, 0.5ms -+ eps} around day and millisecond boundaries, uniform doubles, values beyond the calendar, negative/huge/inf/NaN; adjacent and random pairs for monotonicity. Expected value = exact rational product of the double and 86400000 with the 1900/1904 offsets, mapped through a harness-written civil calendar. Non-trivial = serial within 1 ms of a day boundary, in 59..61, or >= 2958465; distinct by (bits, system).",
};

const MS_PER_DAY: i128 = 86_400_000;
pub const MAX_SERIAL: u32 = 2_958_465;

#[derive(Debug, Clone, Serialize, Deserialize)]
pub struct Point {
    /// f64 bit pattern of the serial (exact, also for NaN/inf)
    pub bits: u64,
    pub is_1904: bool,
    /// human readable copy of the value
    pub approx: String,
}

fn point(v: f64, is_1904: bool) -> Point {
    Point { bits: v.to_bits(), is_1904, approx: format!("{v:e}") }
}

#[derive(Debug, Clone, Serialize, Deserialize)]
pub struct Pair {
    pub a: u64,
    pub b: u64,
    pub is_1904: bool,
    pub approx: String,
}

/// decompose a finite f64 into (num, k) with value = num / 2^k, k in 0..=78 (low bits of
/// values < 2^-25 days are dropped: error < 1e-15 ms)
fn rational(v: f64) -> (i128, u32) {
    let bits = v.to_bits();
    let sign: i128 = if bits >> 63 == 1 { -1 } else { 1 };
    let exp = ((bits >> 52) & 0x7ff) as i32;
    let frac = (bits & ((1u64 << 52) - 1)) as i128;
    let (m, e) = if exp == 0 { (frac, -1074) } else { (frac | (1i128 << 52), exp - 1075) };
    if e >= 0 {
        (sign * (m << e.min(60)), 0)
    } else {
        let k = (-e) as u32;
        if k > 78 {
            (sign * (m >> (k - 78).min(127)), 78)
        } else {
            (sign * m, k)
        }
    }
}

fn ulp(x: f64) -> f64 {
    let x = x.abs();
    if !x.is_finite() {
        return f64::INFINITY;
    }
    let next = f64::from_bits(x.to_bits() + 1);
    next - x
}

/// milliseconds since 1899-12-30T00:00 of a chrono date-time, computed with the harness calendar
fn ms_since_epoch(dt: &chrono::NaiveDateTime) -> Result<i128, String> {
    let days = days_from_civil(dt.year() as i64, dt.month(), dt.day()) - epoch_1899_12_30();
    let ns = dt.nanosecond();
    if ns % 1_000_000 != 0 {
        return Err(format!("result {dt} is not rounded to the millisecond"));
    }
    let ms_of_day = (dt.hour() as i128 * 3600 + dt.minute() as i128 * 60 + dt.second() as i128) * 1000 + (ns / 1_000_000) as i128;
    Ok(days as i128 * MS_PER_DAY + ms_of_day)
}

/// the largest serial for which chrono can certainly represent the result, and the smallest
/// for which it certainly cannot (NaiveDate::MAX is year 262142)
const CERTAINLY_REPRESENTABLE: f64 = 9.0e7;
const CERTAINLY_TOO_LARGE: f64 = 1.0e8;

fn oracle_point(p: &Point) -> Report {
    let mut rep = Report::new();
    let v = f64::from_bits(p.bits);
    let is_1904 = p.is_1904;
    let edt = ExcelDateTime::new(v, ExcelDateTimeType::DateTime, is_1904);

    // ---- as_datetime: never panics
    let got = match guard(|| edt.as_datetime()) {
        Ok(g) => g,
        Err(e) => {
            rep.fail(format!("as_datetime({v:e}, 1904={is_1904}): {e}"));
            return rep;
        }
    };
    let off: i128 = if is_1904 { 1462 } else if v < 60.0 { 1 } else { 0 };
    if !v.is_finite() {
        rep.label("non-finite");
        rep.nontrivial = true;
        if let Some(d) = got {
            rep.fail(format!("as_datetime of {v} returns the date {d}; a non-finite serial has no date"));
            return rep;
        }
    } else if v < 0.0 {
        rep.label("negative");
        // outside the supported span: only "no panic" is asserted
    } else if v >= CERTAINLY_TOO_LARGE {
        rep.label("beyond-calendar");
        rep.nontrivial = true;
        if let Some(d) = got {
            rep.fail(format!("as_datetime of {v:e} (beyond the representable calendar) returns {d}"));
            return rep;
        }
    } else if v > CERTAINLY_REPRESENTABLE {
        rep.label("near-calendar-limit(unasserted)");
    } else if !is_1904 && (60.0..61.0).contains(&v) {
        rep.label("fictitious-day(unasserted)");
        rep.nontrivial = true;
    } else {
        // supported span and its linear extension
        let Some(dt) = got else {
            rep.fail(format!("as_datetime({v:e}, 1904={is_1904}) = None inside the representable calendar"));
            return rep;
        };
        let res_ms = match ms_since_epoch(&dt) {
            Ok(x) => x,
            Err(e) => {
                rep.fail(format!("as_datetime({v:e}, 1904={is_1904}): {e}"));
                return rep;
            }
        };
        let (num, k) = rational(v);
        // | res_ms * 2^k - (num + off * 2^k) * 86400000 |  <=  tol * 2^k
        let lhs = (res_ms << k) - (num + (off << k)) * MS_PER_DAY;
        let adj = v + off as f64;
        let tol_ms = 0.5 + ulp(adj * 86_400_000.0) + ulp(adj) * 86_400_000.0;
        let tol_scaled = (tol_ms * (2f64).powi(k as i32)) as i128 + 1;
        if lhs.abs() > tol_scaled {
            let err_ms = lhs as f64 / (2f64).powi(k as i32);
            rep.fail(format!(
                "as_datetime({v:?}, 1904={is_1904}) = {dt}: {err_ms:.6} ms away from the exact value (serial + {off}) days after 1899-12-30 (tolerance {tol_ms:.6} ms)"
            ));
            return rep;
        }
        let frac_ms = (v.fract() * 86_400_000.0).abs();
        let near_boundary = frac_ms < 1.0 || frac_ms > 86_399_999.0;
        rep.label_if(near_boundary, "near-day-boundary");
        rep.label_if((59.0..62.0).contains(&v), "around-1900-02-29");
        rep.label_if(v >= MAX_SERIAL as f64, "at-or-beyond-9999-12-31");
        rep.nontrivial |= near_boundary || (59.0..62.0).contains(&v) || v >= MAX_SERIAL as f64;
    }

    // ---- trait-level conversions are the components of as_datetime
    let cell = Data::DateTime(edt);
    let r = guard(|| (cell.as_datetime(), cell.as_date(), cell.as_time()));
    match r {
        Err(e) => {
            rep.fail(format!("Data::DateTime({v:e}).as_date/as_time/as_datetime: {e}"));
            return rep;
        }
        Ok((d, date, time)) => {
            if d != got || date != got.map(|x| x.date()) || time != got.map(|x| x.time()) {
                rep.fail(format!(
                    "Data::DateTime({v:e},1904={is_1904}): as_datetime={d:?} as_date={date:?} as_time={time:?} but ExcelDateTime::as_datetime={got:?}"
                ));
                return rep;
            }
        }
    }
    // ---- plain Float (and Int for whole values) convert like 1900-system date-times
    if !is_1904 {
        let f = Data::Float(v);
        match guard(|| (f.as_datetime(), f.as_date(), f.as_time())) {
            Err(e) => {
                rep.fail(format!("Data::Float({v:e}).as_datetime: {e}"));
                return rep;
            }
            Ok((d, date, time)) => {
                if d != got || date != got.map(|x| x.date()) || time != got.map(|x| x.time()) {
                    rep.fail(format!("Data::Float({v:e}).as_datetime = {d:?}, 1900-system ExcelDateTime gives {got:?}"));
                    return rep;
                }
            }
        }
        if v.fract() == 0.0 && v.abs() < 1e15 {
            let i = Data::Int(v as i64);
            match guard(|| i.as_datetime()) {
                Err(e) => {
                    rep.fail(format!("Data::Int({v}).as_datetime: {e}"));
                    return rep;
                }
                Ok(d) => {
                    if d != got {
                        rep.fail(format!("Data::Int({v}).as_datetime = {d:?}, 1900-system ExcelDateTime gives {got:?}"));
                        return rep;
                    }
                }
            }
        }
    }

    // ---- the format kind (date-time vs elapsed time) does not change the calendar conversion
    let as_delta = ExcelDateTime::new(v, ExcelDateTimeType::TimeDelta, is_1904);
    match guard(|| as_delta.as_datetime()) {
        Err(e) => {
            rep.fail(format!("as_datetime({v:e}) on an elapsed-time cell: {e}"));
            return rep;
        }
        Ok(d) if d != got => {
            rep.fail(format!("as_datetime({v:?}, 1904={is_1904}) = {d:?} on an elapsed-time (TimeDelta) cell but {got:?} on a date-time cell"));
            return rep;
        }
        Ok(_) => {}
    }

    // ---- duration = serial * 24h rounded to the millisecond
    let dur = ExcelDateTime::new(v, ExcelDateTimeType::TimeDelta, is_1904);
    match guard(|| (dur.as_duration(), Data::DateTime(dur).as_duration())) {
        Err(e) => {
            rep.fail(format!("as_duration({v:e}): {e}"));
            return rep;
        }
        Ok((d1, d2)) => {
            if d1 != d2 {
                rep.fail(format!("ExcelDateTime::as_duration = {d1:?} but Data::as_duration = {d2:?}"));
                return rep;
            }
            if !v.is_finite() {
                if let Some(d) = d1 {
                    rep.fail(format!("as_duration of {v} returns {d:?}"));
                    return rep;
                }
            } else if let Some(d) = d1 {
                let ms = d.num_milliseconds() as i128;
                if v.abs() < 1.0e11 {
                    let (num, k) = rational(v);
                    let lhs = (ms << k) - num * MS_PER_DAY;
                    let tol_ms = 0.5 + ulp(v * 86_400_000.0);
                    let tol_scaled = (tol_ms * (2f64).powi(k as i32)) as i128 + 1;
                    if lhs.abs() > tol_scaled || d.subsec_nanos() % 1_000_000 != 0 {
                        rep.fail(format!("as_duration({v:?}) = {d:?} ({ms} ms) is not serial * 24h rounded to the millisecond"));
                        return rep;
                    }
                } else if v.abs() >= 1.0e12 {
                    // |serial * 86400000| > 8.6e19 > i64::MAX milliseconds: no correct Some exists
                    rep.fail(format!("as_duration({v:e}) = {d:?}: the product does not fit, a saturated value is a wrong duration"));
                    return rep;
                }
            } else if v.abs() < 1.0e11 {
                rep.fail(format!("as_duration({v:?}) = None for a representable duration"));
                return rep;
            }
        }
    }
    rep
}

fn oracle_pair(p: &Pair) -> Report {
    let mut rep = Report::new();
    let (a, b) = (f64::from_bits(p.a), f64::from_bits(p.b));
    let (a, b) = if a <= b { (a, b) } else { (b, a) };
    // the fictitious day [60,61) of the 1900 system is mapped onto 1900-02-28, so it is not ordered
    // after the serials below 60 (the statement steps around serial 60); inside [60,61) and
    // towards serials >= 61 the order is kept
    let fict = |v: f64| !p.is_1904 && (60.0..61.0).contains(&v);
    let excluded = fict(b) && a < 60.0;
    if !(a.is_finite() && b.is_finite()) || a < 0.0 || b > CERTAINLY_REPRESENTABLE || excluded || a == b {
        rep.label("pair-outside-relation");
        return rep;
    }
    let f = |v: f64| ExcelDateTime::new(v, ExcelDateTimeType::DateTime, p.is_1904).as_datetime();
    match guard(|| (f(a), f(b))) {
        Err(e) => rep.fail(format!("as_datetime: {e}")),
        Ok((Some(x), Some(y))) => {
            if x > y {
                rep.fail(format!("not monotone: serial {a:?} -> {x} but larger serial {b:?} -> {y} (1904={})", p.is_1904));
            }
            rep.nontrivial = (b - a) < 2e-8 || (a < 60.0 && b >= 61.0);
            rep.label_if((b - a) < 2e-8, "adjacent");
            rep.label_if(a < 60.0 && b >= 61.0, "across-1900-02-29");
        }
        Ok(other) => rep.fail(format!("as_datetime inside the calendar returned None: {other:?}")),
    }
    rep
}

// ---------------------------------------------------------------------------------------------
// generators

fn day_strategy() -> impl Strategy<Value = u32> {
    prop_oneof![
        3 => 0u32..64,
        1 => 1455u32..1470,
        2 => (MAX_SERIAL - 3)..(MAX_SERIAL + 3),
        2 => 36000u32..47000,
        2 => 0u32..=MAX_SERIAL,
    ]
}

fn frac_ms_strategy() -> impl Strategy<Value = f64> {
    // k ms +- {0, 0.5 ms -+ eps}
    let k = prop_oneof![
        3 => prop_oneof![Just(0u32), Just(1), Just(499), Just(500), Just(999), Just(1000), Just(43_200_000), Just(86_399_000), Just(86_399_998), Just(86_399_999)],
        2 => 0u32..86_400_000,
    ];
    let delta = prop_oneof![
        3 => Just(0.0f64),
        1 => Just(0.5 - 1e-4),
        1 => Just(0.5 + 1e-4),
        1 => Just(-0.5 + 1e-4),
        1 => Just(0.4999),
        1 => -0.5f64..0.5,
    ];
    (k, delta).prop_map(|(k, d)| (k as f64 + d) / 86_400_000.0)
}

fn point_strategy() -> impl Strategy<Value = Point> {
    let serial = prop_oneof![
        6 => (day_strategy(), frac_ms_strategy()).prop_map(|(d, f)| (d as f64 + f).max(0.0)),
        2 => (0.0f64..2_958_466.0),
        1 => (2_958_466.0f64..9.0e7),
        1 => prop_oneof![Just(1.0e8), Just(-1.0e8), Just(1.0e10), Just(-1.0e9), Just(1.06e11), 9.6e7f64..1.0e11,
                         Just(1.0e9), Just(1e15), Just(1e20), Just(1e300), Just(f64::MAX), Just(f64::INFINITY), Just(f64::NEG_INFINITY), Just(f64::NAN),
                         Just(-1e20), Just(-1e300), Just(-1.0), Just(-0.5), Just(-1e-300), Just(f64::MIN_POSITIVE), Just(5e-324), Just(-2958465.0), Just(-9.3e18 / 86_400_000.0), Just(9.3e18 / 86_400_000.0)],
        1 => any::<f64>(),
    ];
    (serial, any::<bool>()).prop_map(|(v, s)| point(v, s))
}

fn pair_strategy() -> impl Strategy<Value = Pair> {
    let base = (day_strategy(), frac_ms_strategy()).prop_map(|(d, f)| (d as f64 + f).max(0.0));
    let other = prop_oneof![
        3 => (0u64..4).prop_map(|n| (n, 0.0f64)),          // n ulps above
        2 => (0.0f64..2e-8).prop_map(|d| (0u64, d)),
        2 => (0.0f64..3.0).prop_map(|d| (0u64, d)),
    ];
    (base, other, any::<bool>()).prop_map(|(a, (ulps, d), s)| {
        let b = f64::from_bits((a + d).to_bits() + ulps);
        Pair { a: a.to_bits(), b: b.to_bits(), is_1904: s, approx: format!("{a:?} vs {b:?}") }
    })
}

// ---------------------------------------------------------------------------------------------
// exhaustive whole-day sweep: independent expected *date* via civil_from_days

fn sweep_days(ctx: &mut Ctx) {
    use crate::model::civil::civil_from_days;
    let threads = ctx.threads as u32;
    let results: Vec<(u64, u64, Option<(Point, String)>)> = std::thread::scope(|sc| {
        let hs: Vec<_> = (0..threads)
            .map(|t| {
                sc.spawn(move || {
                    let mut evals = 0u64;
                    let mut nt = 0u64;
                    let mut fail: Option<(Point, String)> = None;
                    let mut s = t;
                    while s <= MAX_SERIAL {
                        for is_1904 in [false, true] {
                            evals += 1;
                            // expected civil date, written from the statement
                            let expected: Option<(i64, u32, u32)> = if is_1904 {
                                Some(civil_from_days(days_from_civil(1904, 1, 1) + s as i64))
                            } else if (1..=59).contains(&s) {
                                Some(civil_from_days(days_from_civil(1900, 1, 1) + s as i64 - 1))
                            } else if s >= 61 {
                                Some(civil_from_days(days_from_civil(1900, 3, 1) + s as i64 - 61))
                            } else {
                                None // serial 0 and the fictitious serial 60: no calendar day is claimed
                            };
                            let edt = ExcelDateTime::new(s as f64, ExcelDateTimeType::DateTime, is_1904);
                            let got = guard(|| edt.as_datetime());
                            let bad = match (&got, expected) {
                                (Err(e), _) => Some(e.clone()),
                                (Ok(None), _) => Some("None".to_string()),
                                (Ok(Some(dt)), Some((y, m, d))) => {
                                    if (dt.year() as i64, dt.month(), dt.day()) != (y, m, d) || dt.time() != chrono::NaiveTime::MIN {
                                        Some(format!("{dt}, expected {y:04}-{m:02}-{d:02} 00:00:00"))
                                    } else {
                                        None
                                    }
                                }
                                (Ok(Some(_)), None) => None,
                            };
                            if (58..=62).contains(&s) || s >= MAX_SERIAL - 1 || s <= 1 {
                                nt += 1;
                            }
                            if let (Some(b), true) = (bad, fail.is_none()) {
                                fail = Some((point(s as f64, is_1904), format!("whole serial {s} (1904={is_1904}) converts to {b}")));
                            }
                        }
                        s += threads;
                    }
                    (evals, nt, fail)
                })
            })
            .collect();
        hs.into_iter().map(|h| h.join().unwrap()).collect()
    });
    let mut evals = 0;
    let mut nt = 0;
    let mut fail = None;
    for (e, n, f) in results {
        evals += e;
        nt += n;
        if fail.is_none() {
            fail = f;
        }
    }
    let mut labels = BTreeMap::new();
    labels.insert("whole-days-both-systems".to_string(), evals);
    ctx.record_sweep(
        "day-sweep",
        evals,
        nt,
        labels,
        vec![serde_json::json!({"serial": 59, "system": 1900, "expected": "1900-02-28"}), serde_json::json!({"serial": 61, "system": 1900, "expected": "1900-03-01"}), serde_json::json!({"serial": 0, "system": 1904, "expected": "1904-01-01"}), serde_json::json!({"serial": 2958465, "system": 1900, "expected": "9999-12-31"})],
        true,
        "every whole serial 0..=2958465 x {1900,1904}: calendar day from a harness-written civil_from_days; the few serials at 0,1,58..62 and the last two days are counted as the non-trivial ones",
    );
    if let Some((p, m)) = fail {
        ctx.report_violation("point", &p, &m);
    }
}

fn helpers_check(ctx: &mut Ctx) {
    // deserialize_as_* helpers agree with the trait conversions on plain numeric cells
    use calamine::ToCellDeserializer;
    let mut evals = 0u64;
    let mut fail: Option<(Point, String)> = None;
    let vals = [0.0, 1.0, 59.0, 60.5, 61.0, 25569.645833333332, 44484.7916666667, 2958465.99999, 1e8, -1.0];
    for v in vals {
        for cell in [Data::Float(v), Data::Int(v as i64), Data::String("x".into()), Data::Empty] {
            evals += 1;
            let r = guard(|| {
                let a = calamine::deserialize_as_datetime_or_none(cell.to_cell_deserializer((0, 0))).unwrap();
                let b = calamine::deserialize_as_date_or_none(cell.to_cell_deserializer((0, 0))).unwrap();
                let c = calamine::deserialize_as_time_or_none(cell.to_cell_deserializer((0, 0))).unwrap();
                let d = calamine::deserialize_as_datetime_or_string(cell.to_cell_deserializer((0, 0))).unwrap();
                (a, b, c, d)
            });
            let exp = guard(|| (cell.as_datetime(), cell.as_date(), cell.as_time(), cell.as_datetime().ok_or_else(|| cell.to_string())));
            let bad = match (r, exp) {
                (Err(e), _) | (_, Err(e)) => Some(e),
                (Ok(got), Ok(exp)) if got != exp => Some(format!("helpers give {got:?}, trait conversions give {exp:?}")),
                _ => None,
            };
            if let (Some(b), true) = (bad, fail.is_none()) {
                fail = Some((point(v, false), format!("deserialize_as_* on {cell:?}: {b}")));
            }
        }
    }
    ctx.record_sweep("helpers", evals, 0, BTreeMap::new(), vec![], true, "deserialize_as_{date,time,datetime}_or_{none,string} on Float/Int/String/Empty cells equal the DataType conversions");
    if let Some((p, m)) = fail {
        ctx.report_violation("point", &p, &m);
    }
}

fn run(ctx: &mut Ctx) {
    sweep_days(ctx);
    helpers_check(ctx);
    let n = ctx.n(300_000, 40_000_000);
    ctx.run_fast("point", n, point_strategy, oracle_point);
    let n = ctx.n(100_000, 10_000_000);
    ctx.run_fast("pair", n, pair_strategy, oracle_pair);
    ctx.assumptions.push("time-of-day tolerance: |result - exact(serial+offset)*86400000| <= 0.5 ms + one ulp of the f64 product + one ulp of the offset-adjusted serial".into());
    ctx.assumptions.push("serial 0 (1900 system), the fictitious day [60,61) and negative serials: only absence of panics is asserted; (9e7,1e8) near chrono's last year is not asserted".into());
}

fn replay(sub: &str, case: &serde_json::Value) -> Option<Report> {
    match sub {
        "point" => replay_as::<Point>(case, oracle_point),
        "pair" => replay_as::<Pair>(case, oracle_pair),
        _ => None,
    }
}
