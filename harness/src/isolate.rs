//! Per-case process isolation by fork(): the child runs one case and reports through a pipe; an
//! abort (allocation failure), a crash or a hang kills only the child. Used by C06, where inputs
//! are hostile by design.

use crate::alloc::MemStats;
use std::io::Read;
use std::os::fd::FromRawFd;
use std::time::{Duration, Instant};

#[derive(Debug, Clone)]
pub enum Outcome {
    /// the closure returned; payload = what it wrote
    Completed(Vec<u8>),
    /// killed by a signal; if the allocator refused a request first: (requested bytes, live bytes with it, innermost calamine function)
    Died { signal: i32, refused: Option<(u64, u64, String)> },
    Timeout,
    /// fork/pipe failure (harness problem)
    Failed(String),
}

static mut REPORT_FD: i32 = -1;

/// called by the allocator (in the forked child) when it refuses a request: best effort report
pub fn report_refused(size: usize, live: usize) {
    let fd = unsafe { REPORT_FD };
    if fd < 0 {
        return;
    }
    unsafe { REPORT_FD = -1 };
    // the process is about to abort: capturing a backtrace here is acceptable
    let bt = std::backtrace::Backtrace::force_capture().to_string();
    // blame the owner of the largest block requested so far (the one that made the heap big), or,
    // when everything was small, whoever asked last
    let big = crate::alloc::big_request_func();
    let func = if !big.is_empty() { big } else { crate::engine::innermost_calamine_frame(&bt).unwrap_or_else(|| "<no calamine frame>".into()) };
    let msg = format!("\u{1}REFUSED {size} {live} {func}\n");
    unsafe {
        libc::write(fd, msg.as_ptr() as *const libc::c_void, msg.len());
    }
}

/// run `f` in a forked child; `f` returns the bytes to hand back
pub fn isolated(timeout: Duration, f: impl FnOnce() -> Vec<u8>) -> Outcome {
    let mut fds = [0i32; 2];
    if unsafe { libc::pipe(fds.as_mut_ptr()) } != 0 {
        return Outcome::Failed("pipe".into());
    }
    let pid = unsafe { libc::fork() };
    if pid < 0 {
        unsafe {
            libc::close(fds[0]);
            libc::close(fds[1]);
        }
        return Outcome::Failed("fork".into());
    }
    if pid == 0 {
        // child: only this thread exists
        unsafe {
            libc::close(fds[0]);
            REPORT_FD = fds[1];
            // no core dumps, keep quiet
            let lim = libc::rlimit { rlim_cur: 0, rlim_max: 0 };
            libc::setrlimit(libc::RLIMIT_CORE, &lim);
            let devnull = libc::open(b"/dev/null\0".as_ptr() as *const libc::c_char, libc::O_WRONLY);
            if devnull >= 0 {
                libc::dup2(devnull, 2);
            }
        }
        let out = f();
        unsafe {
            let mut off = 0;
            while off < out.len() {
                let n = libc::write(fds[1], out[off..].as_ptr() as *const libc::c_void, out.len() - off);
                if n <= 0 {
                    break;
                }
                off += n as usize;
            }
            libc::_exit(0);
        }
    }
    // parent
    unsafe { libc::close(fds[1]) };
    let mut file = unsafe { std::fs::File::from_raw_fd(fds[0]) };
    // read in a helper thread-less way: make the pipe non-blocking and poll together with waitpid
    unsafe {
        let flags = libc::fcntl(fds[0], libc::F_GETFL);
        libc::fcntl(fds[0], libc::F_SETFL, flags | libc::O_NONBLOCK);
    }
    let mut buf = Vec::new();
    let mut chunk = [0u8; 65536];
    let started = Instant::now();
    let mut status = 0i32;
    let mut exited = false;
    loop {
        match file.read(&mut chunk) {
            Ok(0) => {
                if exited {
                    break;
                }
            }
            Ok(n) => {
                buf.extend_from_slice(&chunk[..n]);
                continue;
            }
            Err(e) if e.kind() == std::io::ErrorKind::WouldBlock => {}
            Err(_) => {}
        }
        if !exited {
            let r = unsafe { libc::waitpid(pid, &mut status, libc::WNOHANG) };
            if r == pid {
                exited = true;
                continue; // drain the pipe
            }
            if started.elapsed() > timeout {
                unsafe {
                    libc::kill(pid, libc::SIGKILL);
                    libc::waitpid(pid, &mut status, 0);
                }
                return Outcome::Timeout;
            }
            std::thread::sleep(Duration::from_micros(200));
        } else {
            break;
        }
    }
    if libc::WIFEXITED(status) && libc::WEXITSTATUS(status) == 0 {
        return Outcome::Completed(buf);
    }
    let signal = if libc::WIFSIGNALED(status) { libc::WTERMSIG(status) } else { -libc::WEXITSTATUS(status) };
    let text = String::from_utf8_lossy(&buf);
    let refused = text.lines().find_map(|l| {
        let l = l.trim_start_matches('\u{1}');
        let rest = l.strip_prefix("REFUSED ")?;
        let (size, rest) = rest.split_once(' ')?;
        let (live, func) = rest.split_once(' ')?;
        Some((size.parse().ok()?, live.parse().ok()?, func.to_string()))
    });
    Outcome::Died { signal, refused }
}

pub fn encode_stats(opened: u8, panic: Option<&str>, mem: MemStats, cpu_ms: u64, big_func: &str) -> Vec<u8> {
    serde_json::to_vec(&serde_json::json!({"opened": opened, "panic": panic, "peak": mem.peak, "max_request": mem.max_request, "cpu_ms": cpu_ms, "big_func": big_func})).unwrap_or_default()
}
