//! Number-format language: a constructive generator that records the class of the string while
//! building it, and an independent reference tokenizer used for exhaustive short strings.

use proptest::prelude::*;
use serde::{Deserialize, Serialize};

pub const OTHER: u8 = 0;
pub const DATETIME: u8 = 1;
pub const ELAPSED: u8 = 2;

#[derive(Debug, Clone, Serialize, Deserialize, PartialEq)]
pub struct Fmt {
    pub code: String,
    /// 0 other, 1 date/time, 2 elapsed time — recorded by construction
    pub class: u8,
    /// the first section has a literal/escape/bracket piece that contains a date letter
    pub tricky: bool,
    pub sections: u8,
}

const DATE_LETTERS: &str = "dmhysDMHYS";

fn has_date_letter(s: &str) -> bool {
    s.chars().any(|c| DATE_LETTERS.contains(c) || c == 'a' || c == 'A' || c == 'p' || c == 'P')
}

/// a piece that never counts as a date token; bool = contains a date letter (tricky)
fn literal_piece() -> impl Strategy<Value = (String, bool)> {
    prop_oneof![
        // quoted text (anything but a quote), deliberately rich in date letters and structural characters
        4 => "[dmyhsDMYHS AaPp;\\[\\]_\\\\#0@.:/-]{0,6}".prop_map(|t| (format!("\"{t}\""), has_date_letter(&t) || t.contains([';', '[', ']', '_', '\\']))),
        3 => proptest::sample::select(vec!['d', 'm', 'y', 'h', 's', 'D', 'M', 'Y', 'H', 'S', 'a', 'A', 'p', '"', ';', '[', ']', '\\', '_', ' ', '-', 'x', '0']).prop_map(|c| (format!("\\{c}"), true)),
        2 => proptest::sample::select(vec!['d', 'm', 'y', 'h', 's', 'M', 'a', ';', '[', ']', '(', ')', ' ', '-', '0']).prop_map(|c| (format!("_{c}"), true)),
        3 => proptest::sample::select(vec![" ", "-", "+", "$", "(", ")", ":", "/", "!", "^", "&", "'", "~", "{", "}", "<", ">", "=", ",", "."]).prop_map(|s| (s.to_string(), false)),
        1 => proptest::sample::select(vec!["* ", "*-", "*0"]).prop_map(|s| (s.to_string(), false)),
    ]
}

fn bracket_prefix() -> impl Strategy<Value = (String, bool)> {
    proptest::sample::select(vec![
        "[Red]", "[Black]", "[Blue]", "[Cyan]", "[Green]", "[Magenta]", "[White]", "[Yellow]", "[Color5]", "[Color 12]", "[Silver]", "[RED]", "[>=100]", "[<0]", "[=0]", "[<>5]", "[<=-1.5]",
        "[$-409]", "[$-F800]", "[$-F400]", "[$€-407]", "[$USD]", "[$-x-sysdate]", "[$-x-systime]", "[$$-409]", "[$-1010409]", "[DBNum1]", "[ENG]",
    ])
    .prop_map(|s| (s.to_string(), has_date_letter(&s[1..s.len() - 1])))
}

fn numeric_piece() -> impl Strategy<Value = String> {
    proptest::sample::select(vec!["0", "#", "?", "0.00", "#,##0", "0%", "0.0E+00", "##0.0E+0", "# ?/?", "# ??/??", "General", "@", "000-00-0000", "#,##0.00", ",", "."]).prop_map(|s| s.to_string())
}

fn date_token() -> impl Strategy<Value = String> {
    proptest::sample::select(vec![
        "d", "dd", "ddd", "dddd", "m", "mm", "mmm", "mmmm", "mmmmm", "yy", "yyyy", "h", "hh", "s", "ss", "AM/PM", "am/pm", "A/P", "a/p", "D", "MM", "YYYY", "H", "SS", "Dd", "hH", "ss.000", "ss.0", "yyyy-mm-dd", "h:mm:ss", "mm:ss.0",
    ])
    .prop_map(|s| s.to_string())
}

fn elapsed_token() -> impl Strategy<Value = String> {
    proptest::sample::select(vec!["[h]", "[hh]", "[m]", "[mm]", "[s]", "[ss]", "[H]", "[MM]", "[S]", "[hhh]", "[Hh]"]).prop_map(|s| s.to_string())
}

/// one section: (text, class, tricky)
fn section() -> impl Strategy<Value = (String, u8, bool)> {
    let prefixes = || proptest::collection::vec(bracket_prefix(), 0..3);
    let lits = || proptest::collection::vec(literal_piece(), 0..3);
    let numeric = (prefixes(), proptest::collection::vec(prop_oneof![2 => numeric_piece().prop_map(|s| (s, false)), 1 => literal_piece()], 0..5)).prop_map(|(p, body)| {
        let mut s = String::new();
        let mut tricky = false;
        let mut general = false;
        for (t, k) in p.into_iter().chain(body) {
            // `General` stands alone in real formats: after it only quoted/escaped literals follow
            if general && !(t.starts_with('"') || t.starts_with('\\') || t.starts_with('_')) {
                continue;
            }
            general |= t == "General";
            s.push_str(&t);
            tricky |= k;
        }
        (s, OTHER, tricky)
    });
    let date = (prefixes(), lits(), proptest::collection::vec((date_token(), lits()), 1..4)).prop_map(|(p, lead, toks)| {
        let mut s = String::new();
        let mut tricky = false;
        for (t, k) in p.into_iter().chain(lead) {
            s.push_str(&t);
            tricky |= k;
        }
        for (tok, lits) in toks {
            s.push_str(&tok);
            for (t, _) in lits {
                s.push_str(&t);
            }
        }
        (s, DATETIME, tricky)
    });
    let elapsed = (prefixes(), lits(), elapsed_token(), proptest::collection::vec(prop_oneof![Just(":mm"), Just(":ss"), Just(".00"), Just(":mm:ss"), Just(" "), Just("\\ "), Just("\"h\"")], 0..3)).prop_map(|(p, lead, tok, tail)| {
        let mut s = String::new();
        let mut tricky = false;
        for (t, k) in p.into_iter().chain(lead) {
            s.push_str(&t);
            tricky |= k;
        }
        s.push_str(&tok);
        for t in tail {
            s.push_str(t);
        }
        (s, ELAPSED, tricky)
    });
    prop_oneof![3 => numeric, 4 => date, 2 => elapsed]
}

pub fn fmt_strategy() -> impl Strategy<Value = Fmt> {
    (section(), proptest::collection::vec(section(), 0..4)).prop_map(|(first, rest)| {
        let mut code = first.0.clone();
        for (s, _, _) in &rest {
            code.push(';');
            code.push_str(s);
        }
        Fmt { code, class: first.1, tricky: first.2, sections: 1 + rest.len() as u8 }
    })
}

// ---------------------------------------------------------------------------------------------
// reference tokenizer for arbitrary short strings

#[derive(Debug, Clone, Copy, PartialEq)]
pub enum RefClass {
    Class(u8),
    /// not a string of the grammar (unterminated quote/bracket, bare letters, nested brackets, ...): not judged
    IllFormed,
}

/// Classify the first section of `s` by the spreadsheet number-format grammar.
pub fn reference_class(s: &str) -> RefClass {
    let cs: Vec<char> = s.chars().collect();
    let mut i = 0;
    let mut date = false;
    let mut elapsed = false;
    while i < cs.len() {
        let c = cs[i];
        match c {
            ';' => break,
            '"' => {
                // literal until the next quote, nothing inside is special
                match cs[i + 1..].iter().position(|x| *x == '"') {
                    Some(k) => i += k + 2,
                    None => return RefClass::IllFormed,
                }
                continue;
            }
            '\\' | '_' | '*' => {
                if i + 1 >= cs.len() {
                    return RefClass::IllFormed;
                }
                if c == '*' && (DATE_LETTERS.contains(cs[i + 1]) || "aApP\"\\_[];".contains(cs[i + 1])) {
                    return RefClass::IllFormed; // fill characters are not part of the claimed grammar here
                }
                i += 2;
                continue;
            }
            '[' => {
                let Some(k) = cs[i + 1..].iter().position(|x| *x == ']') else { return RefClass::IllFormed };
                let content: String = cs[i + 1..i + 1 + k].iter().collect();
                if content.contains(['[', '"', '\\', '_', ';', '*']) || content.is_empty() {
                    return RefClass::IllFormed;
                }
                let lower = content.to_ascii_lowercase();
                let uniform = |ch: char| lower.chars().all(|x| x == ch);
                if uniform('h') || uniform('m') || uniform('s') {
                    if date {
                        return RefClass::IllFormed; // calendar tokens mixed with an elapsed token: not judged
                    }
                    elapsed = true;
                } else if lower.chars().all(|x| "dmyhs".contains(x)) {
                    return RefClass::IllFormed; // e.g. [d], [hm]: not tokens of the grammar
                }
                i += k + 2;
                continue;
            }
            ']' => return RefClass::IllFormed,
            'a' | 'A' => {
                let rest: String = cs[i..].iter().collect::<String>().to_ascii_uppercase();
                if rest.starts_with("AM/PM") {
                    date = true;
                    i += 5;
                } else if rest.starts_with("A/P") {
                    date = true;
                    i += 3;
                } else {
                    return RefClass::IllFormed;
                }
                continue;
            }
            'p' | 'P' => return RefClass::IllFormed,
            c if DATE_LETTERS.contains(c) => date = true,
            c if c.is_ascii_alphabetic() => return RefClass::IllFormed, // bare letters need quoting (General, E+ are not in the short alphabet)
            _ => {}
        }
        i += 1;
    }
    RefClass::Class(if elapsed { ELAPSED } else if date { DATETIME } else { OTHER })
}

pub fn builtin_class(id: u32) -> Option<u8> {
    match id {
        0..=13 | 37..=44 | 48 | 49 => Some(OTHER),
        14..=22 | 45 | 47 => Some(DATETIME),
        46 => Some(ELAPSED),
        _ => None, // locale dependent / unassigned: not judged
    }
}

#[cfg(test)]
mod tests {
    use super::*;
    #[test]
    fn reference() {
        assert_eq!(reference_class("[h]:mm"), RefClass::Class(ELAPSED));
        assert_eq!(reference_class("\"d\"0"), RefClass::Class(OTHER));
        assert_eq!(reference_class("0;d"), RefClass::Class(OTHER));
        assert_eq!(reference_class("\"_\"d"), RefClass::Class(DATETIME));
        assert_eq!(reference_class("[Red]d"), RefClass::Class(DATETIME));
        assert_eq!(reference_class("\\d"), RefClass::Class(OTHER));
        assert_eq!(reference_class("\"abc"), RefClass::IllFormed);
    }
}
