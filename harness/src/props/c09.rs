//! C09 — serde deserialization maps rows to records faithfully.
//!
//! Generated case = (range at any origin, header configuration, target record shape). The
//! oracle is a reference deserialiser written from the statement; conversions the statement
//! does not fix (e.g. Bool -> i64, DateTime -> String) are wildcards, never asserted.

use crate::engine::{guard, replay_as, Ctx, Report};
use crate::props::Prop;
use calamine::{CellErrorType, Data, DeError, ExcelDateTime, ExcelDateTimeType, Range, RangeDeserializerBuilder};
use proptest::prelude::*;
use serde::{Deserialize, Serialize};
use std::collections::{BTreeMap, HashMap};

pub static PROP: Prop = Prop {
    id: "C09",
    run,
    replay,
    rule: "Range<Data> at any origin (<= 8 rows x 6 columns) with unique header names (padded with spaces) and body cells of every Data variant incl. numeric/boolean strings and error cells x header configuration {none, all, with_headers(subset in any order, possibly padded or missing), with_deserialize_headers::<Struct>} x target {Vec<T>, tuples, BTreeMap/HashMap, structs with Option fields}; compared with a reference deserialiser; size_hint checked before and after every next(); map/struct targets re-run on a column permutation. Non-trivial = origin != (0,0) and >= 2 body rows and (an Option hit by Empty, an error cell, or a custom header selection); distinct by serialized case.",
};

// ---------------------------------------------------------------------------------------------
// case

#[derive(Debug, Clone, Serialize, Deserialize, PartialEq)]
pub enum CellV {
    Empty,
    Int(i64),
    Float(f64),
    Str(String),
    Bool(bool),
    /// index into ERR_KINDS
    Err(u8),
    DateTime(f64),
    Iso(String),
    DurIso(String),
}

fn err_kind(i: u8) -> CellErrorType {
    match i % 8 {
        0 => CellErrorType::Div0,
        1 => CellErrorType::NA,
        2 => CellErrorType::Name,
        3 => CellErrorType::Null,
        4 => CellErrorType::Num,
        5 => CellErrorType::Ref,
        6 => CellErrorType::Value,
        _ => CellErrorType::GettingData,
    }
}

fn to_data(c: &CellV) -> Data {
    match c {
        CellV::Empty => Data::Empty,
        CellV::Int(i) => Data::Int(*i),
        CellV::Float(f) => Data::Float(*f),
        CellV::Str(s) => Data::String(s.clone()),
        CellV::Bool(b) => Data::Bool(*b),
        CellV::Err(k) => Data::Error(err_kind(*k)),
        CellV::DateTime(f) => Data::DateTime(ExcelDateTime::new(*f, ExcelDateTimeType::DateTime, false)),
        CellV::Iso(s) => Data::DateTimeIso(s.clone()),
        CellV::DurIso(s) => Data::DurationIso(s.clone()),
    }
}

#[derive(Debug, Clone, Serialize, Deserialize, PartialEq)]
pub enum HeaderCfg {
    None,
    All,
    /// names as passed to with_headers (may be padded, may name a missing header)
    Custom(Vec<String>),
    /// with_deserialize_headers::<the target struct>()
    OfStruct,
}

#[derive(Debug, Clone, Copy, Serialize, Deserialize, PartialEq)]
pub enum Target {
    VecData,
    VecString,
    VecOptString,
    VecI64,
    VecU32,
    VecI32,
    VecU8,
    VecI16,
    VecOptI64,
    VecF64,
    VecOptF64,
    VecBool,
    VecOptBool,
    Tuple2,
    Tuple3,
    Tuple4,
    MapData,
    HashMapData,
    MapString,
    StructA,
    StructB,
}

#[derive(Debug, Clone, Serialize, Deserialize)]
pub struct Case {
    pub origin: (u32, u32),
    /// header row cells (first row of the range), one per column
    pub header: Vec<CellV>,
    /// body rows, each `header.len()` cells
    pub body: Vec<Vec<CellV>>,
    /// true: the range is Range::empty() (header/body ignored)
    pub empty_range: bool,
    pub cfg: HeaderCfg,
    pub target: Target,
    /// permutation seed for the metamorphic column permutation
    pub perm: Vec<u8>,
}

// target record types ---------------------------------------------------------------------------

#[derive(Debug, Deserialize, PartialEq)]
struct StructA {
    alpha: i64,
    beta: Option<String>,
    gamma: f64,
}

#[derive(Debug, Deserialize, PartialEq)]
struct StructB {
    delta: String,
    alpha: Option<f64>,
    eps: Option<bool>,
}

const STRUCT_A_FIELDS: &[(&str, Ty)] = &[("alpha", Ty::I64), ("beta", Ty::OptString), ("gamma", Ty::F64)];
const STRUCT_B_FIELDS: &[(&str, Ty)] = &[("delta", Ty::String), ("alpha", Ty::OptF64), ("eps", Ty::OptBool)];

#[derive(Debug, Clone, Copy, PartialEq)]
enum Ty {
    Data,
    String,
    OptString,
    I64,
    OptI64,
    F64,
    OptF64,
    Bool,
    OptBool,
    /// narrower integer targets: conversions are plain `as` casts of the cell's i64 / f64
    U32,
    I32,
    U8,
    I16,
}

// canonical values ------------------------------------------------------------------------------

/// what calamine returned, in canonical form
#[derive(Debug, Clone, PartialEq)]
enum J {
    Null,
    B(bool),
    I(i64),
    F(u64),
    S(String),
    D(String), // Debug form of a Data value
    Seq(Vec<J>),
    Map(BTreeMap<String, J>),
}

/// what the reference expects; Any = not fixed by the statement
#[derive(Debug, Clone, PartialEq)]
enum E {
    Any,
    Null,
    B(bool),
    I(i64),
    F(f64),
    S(String),
    D(Data),
    Seq(Vec<E>),
    Map(BTreeMap<String, E>),
}

fn matches(e: &E, j: &J) -> bool {
    match (e, j) {
        (E::Any, _) => true,
        (E::Null, J::Null) => true,
        (E::B(a), J::B(b)) => a == b,
        (E::I(a), J::I(b)) => a == b,
        (E::F(a), J::F(b)) => a.to_bits() == *b || (a.is_nan() && f64::from_bits(*b).is_nan()) || *a == f64::from_bits(*b),
        (E::S(a), J::S(b)) => a == b,
        (E::D(a), J::D(b)) => &format!("{a:?}") == b,
        (E::Seq(a), J::Seq(b)) => a.len() == b.len() && a.iter().zip(b).all(|(x, y)| matches(x, y)),
        (E::Map(a), J::Map(b)) => a.len() == b.len() && a.iter().all(|(k, x)| b.get(k).map_or(false, |y| matches(x, y))),
        _ => false,
    }
}

trait Canon {
    fn canon(&self) -> J;
}
impl Canon for i64 {
    fn canon(&self) -> J {
        J::I(*self)
    }
}
impl Canon for u32 {
    fn canon(&self) -> J {
        J::I(*self as i64)
    }
}
impl Canon for i32 {
    fn canon(&self) -> J {
        J::I(*self as i64)
    }
}
impl Canon for u8 {
    fn canon(&self) -> J {
        J::I(*self as i64)
    }
}
impl Canon for i16 {
    fn canon(&self) -> J {
        J::I(*self as i64)
    }
}
impl Canon for f64 {
    fn canon(&self) -> J {
        J::F(self.to_bits())
    }
}
impl Canon for bool {
    fn canon(&self) -> J {
        J::B(*self)
    }
}
impl Canon for String {
    fn canon(&self) -> J {
        J::S(self.clone())
    }
}
impl Canon for Data {
    fn canon(&self) -> J {
        J::D(format!("{self:?}"))
    }
}
impl<T: Canon> Canon for Option<T> {
    fn canon(&self) -> J {
        match self {
            None => J::Null,
            Some(v) => v.canon(),
        }
    }
}
impl<T: Canon> Canon for Vec<T> {
    fn canon(&self) -> J {
        J::Seq(self.iter().map(|v| v.canon()).collect())
    }
}
impl<T: Canon> Canon for BTreeMap<String, T> {
    fn canon(&self) -> J {
        J::Map(self.iter().map(|(k, v)| (k.clone(), v.canon())).collect())
    }
}
impl<T: Canon> Canon for HashMap<String, T> {
    fn canon(&self) -> J {
        J::Map(self.iter().map(|(k, v)| (k.clone(), v.canon())).collect())
    }
}
impl<A: Canon, B: Canon> Canon for (A, B) {
    fn canon(&self) -> J {
        J::Seq(vec![self.0.canon(), self.1.canon()])
    }
}
impl<A: Canon, B: Canon, C: Canon> Canon for (A, B, C) {
    fn canon(&self) -> J {
        J::Seq(vec![self.0.canon(), self.1.canon(), self.2.canon()])
    }
}
impl<A: Canon, B: Canon, C: Canon, D: Canon> Canon for (A, B, C, D) {
    fn canon(&self) -> J {
        J::Seq(vec![self.0.canon(), self.1.canon(), self.2.canon(), self.3.canon()])
    }
}
impl Canon for StructA {
    fn canon(&self) -> J {
        let mut m = BTreeMap::new();
        m.insert("alpha".to_string(), self.alpha.canon());
        m.insert("beta".to_string(), self.beta.canon());
        m.insert("gamma".to_string(), self.gamma.canon());
        J::Map(m)
    }
}
impl Canon for StructB {
    fn canon(&self) -> J {
        let mut m = BTreeMap::new();
        m.insert("delta".to_string(), self.delta.canon());
        m.insert("alpha".to_string(), self.alpha.canon());
        m.insert("eps".to_string(), self.eps.canon());
        J::Map(m)
    }
}

// reference conversions ---------------------------------------------------------------------------

/// outcome of converting one cell to one target type according to the statement
#[derive(Debug, Clone)]
enum Conv {
    Val(E),
    /// no correct value exists (e.g. "abc" -> f64): the record must fail
    MustErr,
    /// error cell: the record must fail with CellError{kind, pos}
    CellErr(u8),
    /// not fixed by the statement: anything but a panic
    Unspec,
}

fn convert(c: &CellV, ty: Ty) -> Conv {
    if let CellV::Err(k) = c {
        return Conv::CellErr(*k);
    }
    match ty {
        Ty::Data => Conv::Val(match c {
            // through deserialize_any: DateTime arrives as its serial, ISO strings as strings
            CellV::DateTime(f) => E::D(Data::Float(*f)),
            CellV::Iso(s) | CellV::DurIso(s) => E::D(Data::String(s.clone())),
            other => E::D(to_data(other)),
        }),
        Ty::OptString | Ty::OptI64 | Ty::OptF64 | Ty::OptBool => {
            if *c == CellV::Empty {
                Conv::Val(E::Null)
            } else {
                convert(
                    c,
                    match ty {
                        Ty::OptString => Ty::String,
                        Ty::OptI64 => Ty::I64,
                        Ty::OptF64 => Ty::F64,
                        _ => Ty::Bool,
                    },
                )
            }
        }
        Ty::String => match c {
            CellV::Str(s) => Conv::Val(E::S(s.clone())),
            CellV::Empty => Conv::Val(E::S(String::new())),
            CellV::Int(i) => Conv::Val(E::S(i.to_string())),
            CellV::Float(f) => Conv::Val(E::S(f.to_string())),
            CellV::Bool(b) => Conv::Val(E::S(b.to_string())),
            CellV::Iso(s) | CellV::DurIso(s) => Conv::Val(E::S(s.clone())),
            _ => Conv::Unspec,
        },
        Ty::I64 => match c {
            CellV::Int(i) => Conv::Val(E::I(*i)),
            CellV::Float(f) => Conv::Val(E::I(*f as i64)),
            CellV::Str(s) => match s.parse::<i64>() {
                Ok(v) => Conv::Val(E::I(v)),
                Err(_) if s.trim().parse::<f64>().is_ok() => Conv::Unspec,
                Err(_) => Conv::MustErr,
            },
            _ => Conv::Unspec,
        },
        Ty::U32 | Ty::I32 | Ty::U8 | Ty::I16 => {
            // the documented rule is the plain numeric cast of the stored i64 / f64
            let from_i = |i: i64| match ty {
                Ty::U32 => i as u32 as i64,
                Ty::I32 => i as i32 as i64,
                Ty::U8 => i as u8 as i64,
                _ => i as i16 as i64,
            };
            let from_f = |f: f64| match ty {
                Ty::U32 => f as u32 as i64,
                Ty::I32 => f as i32 as i64,
                Ty::U8 => f as u8 as i64,
                _ => f as i16 as i64,
            };
            match c {
                CellV::Int(i) => Conv::Val(E::I(from_i(*i))),
                CellV::Float(f) => Conv::Val(E::I(from_f(*f))),
                CellV::Str(s) => {
                    let parsed = match ty {
                        Ty::U32 => s.parse::<u32>().ok().map(|v| v as i64),
                        Ty::I32 => s.parse::<i32>().ok().map(|v| v as i64),
                        Ty::U8 => s.parse::<u8>().ok().map(|v| v as i64),
                        _ => s.parse::<i16>().ok().map(|v| v as i64),
                    };
                    match parsed {
                        Some(v) => Conv::Val(E::I(v)),
                        None if s.trim().parse::<f64>().is_ok() => Conv::Unspec,
                        None => Conv::MustErr,
                    }
                }
                _ => Conv::Unspec,
            }
        }
        Ty::F64 => match c {
            CellV::Int(i) => Conv::Val(E::F(*i as f64)),
            CellV::Float(f) => Conv::Val(E::F(*f)),
            CellV::Str(s) => match s.parse::<f64>() {
                Ok(v) => Conv::Val(E::F(v)),
                Err(_) if s.trim().parse::<f64>().is_ok() => Conv::Unspec,
                Err(_) => Conv::MustErr,
            },
            _ => Conv::Unspec,
        },
        Ty::Bool => match c {
            CellV::Bool(b) => Conv::Val(E::B(*b)),
            CellV::Empty => Conv::Val(E::B(false)),
            CellV::Str(s) => match s.as_str() {
                "TRUE" | "true" | "True" => Conv::Val(E::B(true)),
                "FALSE" | "false" | "False" => Conv::Val(E::B(false)),
                _ => Conv::Unspec,
            },
            CellV::Int(i) => Conv::Val(E::B(*i != 0)),
            CellV::Float(f) => Conv::Val(E::B(*f != 0.0)),
            _ => Conv::Unspec,
        },
    }
}

/// header cell -> header name (the header row is read as strings)
fn header_name(c: &CellV) -> Option<String> {
    match convert(c, Ty::String) {
        Conv::Val(E::S(s)) => Some(s),
        _ => None,
    }
}

#[derive(Debug, Clone)]
enum RowExp {
    Ok(E),
    /// must be Err; allowed: any of these cell errors, or a Custom error if `custom`
    Fail { cell_errors: Vec<(u8, (u32, u32))>, custom: bool, ok_allowed: Option<E> },
}

struct Acc {
    cell_errors: Vec<(u8, (u32, u32))>,
    must: bool,
    unspec: bool,
}

impl Acc {
    fn new() -> Acc {
        Acc { cell_errors: vec![], must: false, unspec: false }
    }
    fn take(&mut self, c: Conv, pos: (u32, u32)) -> E {
        match c {
            Conv::Val(e) => e,
            Conv::MustErr => {
                self.must = true;
                E::Any
            }
            Conv::CellErr(k) => {
                self.cell_errors.push((k, pos));
                E::Any
            }
            Conv::Unspec => {
                self.unspec = true;
                E::Any
            }
        }
    }
    fn finish(self, value: E) -> RowExp {
        if self.cell_errors.is_empty() && !self.must && !self.unspec {
            RowExp::Ok(value)
        } else {
            let ok_allowed = if self.cell_errors.is_empty() && !self.must { Some(value) } else { None };
            RowExp::Fail { cell_errors: self.cell_errors, custom: self.must || self.unspec, ok_allowed }
        }
    }
}

fn positional_types(t: Target, n: usize) -> Option<Vec<Ty>> {
    Some(match t {
        Target::VecData => vec![Ty::Data; n],
        Target::VecString => vec![Ty::String; n],
        Target::VecOptString => vec![Ty::OptString; n],
        Target::VecI64 => vec![Ty::I64; n],
        Target::VecU32 => vec![Ty::U32; n],
        Target::VecI32 => vec![Ty::I32; n],
        Target::VecU8 => vec![Ty::U8; n],
        Target::VecI16 => vec![Ty::I16; n],
        Target::VecOptI64 => vec![Ty::OptI64; n],
        Target::VecF64 => vec![Ty::F64; n],
        Target::VecOptF64 => vec![Ty::OptF64; n],
        Target::VecBool => vec![Ty::Bool; n],
        Target::VecOptBool => vec![Ty::OptBool; n],
        Target::Tuple2 => vec![Ty::I64, Ty::String],
        Target::Tuple3 => vec![Ty::OptF64, Ty::Bool, Ty::Data],
        Target::Tuple4 => vec![Ty::String, Ty::OptI64, Ty::F64, Ty::OptBool],
        _ => return None,
    })
}

/// expected outcome of the whole deserialisation
#[derive(Debug)]
enum Expected {
    /// from_range itself fails with HeaderNotFound(name)
    HeaderNotFound(String),
    /// construction outcome not fixed (e.g. a tuple wider than the selection): skip
    Skip(&'static str),
    Rows(Vec<RowExp>),
}

fn expected(case: &Case) -> Expected {
    if case.empty_range {
        return Expected::Rows(vec![]);
    }
    let width = case.header.len();
    let (r0, c0) = case.origin;
    // all rows of the range
    let mut rows: Vec<&Vec<CellV>> = vec![&case.header];
    rows.extend(case.body.iter());
    let has_header = case.cfg != HeaderCfg::None;
    let names: Vec<Option<String>> = case.header.iter().map(header_name).collect();
    if has_header && names.iter().any(|n| n.is_none()) {
        return Expected::Skip("header row with a cell whose string form is not fixed");
    }
    let names: Vec<String> = names.into_iter().map(|n| n.unwrap_or_default()).collect();
    // selected columns, in order
    let selection: Vec<usize> = match &case.cfg {
        HeaderCfg::None | HeaderCfg::All => (0..width).collect(),
        HeaderCfg::Custom(sel) => {
            let mut v = vec![];
            for s in sel {
                match names.iter().position(|n| n.trim() == s.trim()) {
                    Some(i) => v.push(i),
                    None => return Expected::HeaderNotFound(s.trim().to_string()),
                }
            }
            v
        }
        HeaderCfg::OfStruct => {
            let fields = match case.target {
                Target::StructA => STRUCT_A_FIELDS,
                Target::StructB => STRUCT_B_FIELDS,
                _ => return Expected::Skip("OfStruct needs a struct target"),
            };
            let mut v = vec![];
            for (f, _) in fields {
                match names.iter().position(|n| n.trim() == *f) {
                    Some(i) => v.push(i),
                    None => return Expected::HeaderNotFound(f.to_string()),
                }
            }
            v
        }
    };
    let first_body = usize::from(has_header);
    let mut out = vec![];
    for (ri, row) in rows.iter().enumerate().skip(first_body) {
        let abs_row = r0 + ri as u32;
        let pos = |col: usize| (abs_row, c0 + col as u32);
        let mut acc = Acc::new();
        let value = if let Some(types) = positional_types(case.target, selection.len()) {
            if types.len() > selection.len() {
                return Expected::Skip("tuple wider than the selected columns");
            }
            // a tuple reads its arity, a Vec reads everything
            let mut seq = vec![];
            for (k, ty) in types.iter().enumerate() {
                let col = selection[k];
                seq.push(acc.take(convert(&row[col], *ty), pos(col)));
            }
            E::Seq(seq)
        } else {
            if !has_header {
                return Expected::Skip("map/struct target without headers");
            }
            match case.target {
                Target::MapData | Target::HashMapData | Target::MapString => {
                    let ty = if case.target == Target::MapString { Ty::String } else { Ty::Data };
                    let mut m = BTreeMap::new();
                    for &col in &selection {
                        if row[col] == CellV::Empty {
                            continue; // empty cells are absent
                        }
                        let e = acc.take(convert(&row[col], ty), pos(col));
                        m.insert(names[col].clone(), e);
                    }
                    E::Map(m)
                }
                Target::StructA | Target::StructB => {
                    let fields = if case.target == Target::StructA { STRUCT_A_FIELDS } else { STRUCT_B_FIELDS };
                    let mut m = BTreeMap::new();
                    // every selected non-empty cell is visited (unknown columns are ignored, but an
                    // error cell still fails its record)
                    for &col in &selection {
                        if row[col] == CellV::Empty {
                            continue;
                        }
                        // field lookup is by exact header text
                        match fields.iter().find(|(f, _)| *f == names[col]) {
                            Some((f, ty)) => {
                                let e = acc.take(convert(&row[col], *ty), pos(col));
                                m.insert(f.to_string(), e);
                            }
                            None => {
                                if let CellV::Err(k) = &row[col] {
                                    acc.cell_errors.push((*k, pos(col)));
                                }
                            }
                        }
                    }
                    for (f, ty) in fields {
                        if !m.contains_key(*f) {
                            match ty {
                                Ty::OptString | Ty::OptI64 | Ty::OptF64 | Ty::OptBool => {
                                    m.insert(f.to_string(), E::Null);
                                }
                                _ => {
                                    acc.must = true; // missing required field
                                    m.insert(f.to_string(), E::Any);
                                }
                            }
                        }
                    }
                    E::Map(m)
                }
                _ => unreachable!(),
            }
        };
        out.push(acc.finish(value));
    }
    Expected::Rows(out)
}

// running calamine -------------------------------------------------------------------------------

#[derive(Debug)]
enum Got {
    BuildErr(String, Option<String>), // debug text, HeaderNotFound name
    Rows { items: Vec<Result<J, GotErr>>, hint_problem: Option<String> },
}

#[derive(Debug, Clone, PartialEq)]
enum GotErr {
    Cell(String, (u32, u32)),
    Custom(String),
    Other(String),
}

fn build_range(case: &Case, perm: Option<&[usize]>) -> Range<Data> {
    if case.empty_range {
        return Range::empty();
    }
    let (r0, c0) = case.origin;
    let w = case.header.len() as u32;
    let h = 1 + case.body.len() as u32;
    let mut r = Range::new((r0, c0), (r0 + h - 1, c0 + w - 1));
    let mut put = |ri: usize, row: &Vec<CellV>| {
        for (ci, c) in row.iter().enumerate() {
            let dst = perm.map_or(ci, |p| p[ci]);
            r.set_value((r0 + ri as u32, c0 + dst as u32), to_data(c));
        }
    };
    put(0, &case.header);
    for (i, row) in case.body.iter().enumerate() {
        put(i + 1, row);
    }
    r
}

fn drive<D: serde::de::DeserializeOwned + Canon>(case: &Case, range: &Range<Data>, total_rows: usize) -> Got {
    let built = match &case.cfg {
        HeaderCfg::None => RangeDeserializerBuilder::new().has_headers(false).from_range::<_, D>(range),
        HeaderCfg::All => RangeDeserializerBuilder::new().has_headers(true).from_range::<_, D>(range),
        HeaderCfg::Custom(sel) => RangeDeserializerBuilder::with_headers(sel.as_slice()).from_range::<_, D>(range),
        HeaderCfg::OfStruct => RangeDeserializerBuilder::with_deserialize_headers::<D>().from_range::<_, D>(range),
    };
    let mut it = match built {
        Ok(it) => it,
        Err(e) => {
            let name = if let DeError::HeaderNotFound(n) = &e { Some(n.clone()) } else { None };
            return Got::BuildErr(format!("{e:?}"), name);
        }
    };
    let has_header = case.cfg != HeaderCfg::None;
    let mut remaining = total_rows.saturating_sub(usize::from(has_header));
    let mut hint_problem = None;
    let mut items = vec![];
    let mut check_hint = |it: &calamine::RangeDeserializer<'_, Data, D>, remaining: usize, when: &str| {
        let (lo, hi) = it.size_hint();
        if lo > remaining || hi.map_or(false, |h| h < remaining) {
            Some(format!("size_hint() = ({lo}, {hi:?}) {when}, but {remaining} items are still to come"))
        } else {
            None
        }
    };
    if let Some(p) = check_hint(&it, remaining, "before the first next()") {
        hint_problem.get_or_insert(p);
    }
    let mut guard_count = 0;
    loop {
        guard_count += 1;
        if guard_count > 1000 {
            break;
        }
        match it.next() {
            None => break,
            Some(item) => {
                remaining = remaining.saturating_sub(1);
                items.push(match item {
                    Ok(v) => Ok(v.canon()),
                    Err(DeError::CellError { err, pos }) => Err(GotErr::Cell(format!("{err:?}"), pos)),
                    Err(DeError::Custom(s)) => Err(GotErr::Custom(s)),
                    Err(e) => Err(GotErr::Other(format!("{e:?}"))),
                });
                if let Some(p) = check_hint(&it, remaining, &format!("after {} call(s) of next()", items.len())) {
                    hint_problem.get_or_insert(p);
                }
            }
        }
    }
    Got::Rows { items, hint_problem }
}

fn run_target(case: &Case, range: &Range<Data>, total_rows: usize) -> Got {
    match case.target {
        Target::VecData => drive::<Vec<Data>>(case, range, total_rows),
        Target::VecString => drive::<Vec<String>>(case, range, total_rows),
        Target::VecOptString => drive::<Vec<Option<String>>>(case, range, total_rows),
        Target::VecI64 => drive::<Vec<i64>>(case, range, total_rows),
        Target::VecU32 => drive::<Vec<u32>>(case, range, total_rows),
        Target::VecI32 => drive::<Vec<i32>>(case, range, total_rows),
        Target::VecU8 => drive::<Vec<u8>>(case, range, total_rows),
        Target::VecI16 => drive::<Vec<i16>>(case, range, total_rows),
        Target::VecOptI64 => drive::<Vec<Option<i64>>>(case, range, total_rows),
        Target::VecF64 => drive::<Vec<f64>>(case, range, total_rows),
        Target::VecOptF64 => drive::<Vec<Option<f64>>>(case, range, total_rows),
        Target::VecBool => drive::<Vec<bool>>(case, range, total_rows),
        Target::VecOptBool => drive::<Vec<Option<bool>>>(case, range, total_rows),
        Target::Tuple2 => drive::<(i64, String)>(case, range, total_rows),
        Target::Tuple3 => drive::<(Option<f64>, bool, Data)>(case, range, total_rows),
        Target::Tuple4 => drive::<(String, Option<i64>, f64, Option<bool>)>(case, range, total_rows),
        Target::MapData => drive::<BTreeMap<String, Data>>(case, range, total_rows),
        Target::HashMapData => drive::<HashMap<String, Data>>(case, range, total_rows),
        Target::MapString => drive::<BTreeMap<String, String>>(case, range, total_rows),
        Target::StructA => drive::<StructA>(case, range, total_rows),
        Target::StructB => drive::<StructB>(case, range, total_rows),
    }
}

fn compare(exp: &Expected, got: &Got, what: &str, rep: &mut Report) {
    match (exp, got) {
        (Expected::Skip(_), _) => {}
        (Expected::HeaderNotFound(n), Got::BuildErr(_, Some(g))) if n == g => {}
        (Expected::HeaderNotFound(n), g) => rep.fail(format!("{what}: expected HeaderNotFound({n:?}) at construction, got {}", short(g))),
        (Expected::Rows(_), Got::BuildErr(d, _)) => rep.fail(format!("{what}: from_range failed with {d}")),
        (Expected::Rows(rows), Got::Rows { items, hint_problem }) => {
            if rows.len() != items.len() {
                rep.fail(format!("{what}: {} records expected (one per row after the header), the iterator yielded {}", rows.len(), items.len()));
                return;
            }
            for (i, (e, g)) in rows.iter().zip(items).enumerate() {
                let ok = match (e, g) {
                    (RowExp::Ok(e), Ok(j)) => matches(e, j),
                    (RowExp::Ok(_), Err(_)) => false,
                    (RowExp::Fail { ok_allowed, .. }, Ok(j)) => ok_allowed.as_ref().map_or(false, |e| matches(e, j)),
                    (RowExp::Fail { cell_errors, custom, .. }, Err(ge)) => match ge {
                        GotErr::Cell(kind, pos) => cell_errors.iter().any(|(k, p)| format!("{:?}", err_kind(*k)) == *kind && p == pos),
                        GotErr::Custom(_) => *custom,
                        GotErr::Other(_) => false,
                    },
                };
                if !ok {
                    rep.fail(format!("{what}: record {i}: expected {e:?}, got {g:?}"));
                    return;
                }
            }
            if let Some(p) = hint_problem {
                rep.fail(format!("{what}: {p}"));
            }
        }
    }
}

fn short(g: &Got) -> String {
    let s = format!("{g:?}");
    if s.len() > 300 {
        format!("{}…", &s[..s.char_indices().take(300).last().map(|x| x.0).unwrap_or(0)])
    } else {
        s
    }
}

fn oracle(case: &Case) -> Report {
    let mut rep = Report::new();
    let width = case.header.len();
    if !case.empty_range && (width == 0 || case.body.iter().any(|r| r.len() != width)) {
        rep.fail("malformed case (row widths differ)");
        return rep;
    }
    let total_rows = if case.empty_range { 0 } else { 1 + case.body.len() };
    let exp = expected(case);
    rep.label(format!("cfg:{}", match &case.cfg {
        HeaderCfg::None => "none",
        HeaderCfg::All => "all",
        HeaderCfg::Custom(_) => "custom",
        HeaderCfg::OfStruct => "of-struct",
    }));
    rep.label(format!("target:{:?}", case.target));
    match &exp {
        Expected::Skip(why) => {
            rep.label(format!("skip:{why}"));
            // still must not panic
            let range = build_range(case, None);
            if let Err(p) = guard(|| run_target(case, &range, total_rows)) {
                rep.fail(format!("deserialize: {p}"));
            }
            return rep;
        }
        Expected::HeaderNotFound(_) => rep.label("header-not-found"),
        Expected::Rows(rows) => {
            let any_err = rows.iter().any(|r| matches!(r, RowExp::Fail { cell_errors, .. } if !cell_errors.is_empty()));
            rep.label_if(any_err, "error-cell");
            rep.label_if(case.empty_range, "empty-range");
        }
    }
    let range = build_range(case, None);
    let got = match guard(|| run_target(case, &range, total_rows)) {
        Ok(g) => g,
        Err(p) => {
            rep.fail(format!("deserialize: {p}"));
            return rep;
        }
    };
    compare(&exp, &got, "original column order", &mut rep);
    if rep.failed() {
        return rep;
    }
    // metamorphic: permuting the columns of the whole range leaves name-bound results unchanged
    let name_bound = matches!(case.target, Target::MapData | Target::HashMapData | Target::MapString | Target::StructA | Target::StructB) || matches!(case.cfg, HeaderCfg::Custom(_));
    if name_bound && !case.empty_range && width > 1 {
        let mut perm: Vec<usize> = (0..width).collect();
        for (i, k) in case.perm.iter().enumerate() {
            let a = i % width;
            let b = *k as usize % width;
            perm.swap(a, b);
        }
        if perm.iter().enumerate().any(|(i, p)| i != *p) {
            rep.label("column-permutation");
            // expected for the permuted case: positions of cell errors move with their column
            let mut pc = case.clone();
            let mut header = case.header.clone();
            for (ci, c) in case.header.iter().enumerate() {
                header[perm[ci]] = c.clone();
            }
            pc.header = header;
            pc.body = case
                .body
                .iter()
                .map(|row| {
                    let mut r2 = row.clone();
                    for (ci, c) in row.iter().enumerate() {
                        r2[perm[ci]] = c.clone();
                    }
                    r2
                })
                .collect();
            let exp2 = expected(&pc);
            let range2 = build_range(case, Some(&perm));
            match guard(|| run_target(case, &range2, total_rows)) {
                Ok(g2) => {
                    compare(&exp2, &g2, "after a column permutation", &mut rep);
                    if !rep.failed() {
                        // successful records must be identical to the unpermuted ones
                        if let (Got::Rows { items: a, .. }, Got::Rows { items: b, .. }) = (&got, &g2) {
                            for (i, (x, y)) in a.iter().zip(b).enumerate() {
                                if let (Ok(x), Ok(y)) = (x, y) {
                                    if x != y {
                                        rep.fail(format!("record {i} changes under a column permutation: {x:?} vs {y:?}"));
                                        break;
                                    }
                                }
                            }
                        }
                    }
                }
                Err(p) => rep.fail(format!("deserialize (permuted columns): {p}")),
            }
        }
    }
    // non-trivial rule
    let opt_hit = case.body.iter().flatten().any(|c| *c == CellV::Empty)
        && matches!(
            case.target,
            Target::VecOptString | Target::VecOptI64 | Target::VecOptF64 | Target::VecOptBool | Target::Tuple3 | Target::Tuple4 | Target::StructA | Target::StructB | Target::MapData | Target::HashMapData | Target::MapString
        );
    let has_err = case.body.iter().flatten().any(|c| matches!(c, CellV::Err(_)));
    let custom = matches!(case.cfg, HeaderCfg::Custom(_) | HeaderCfg::OfStruct);
    rep.label_if(opt_hit, "option-or-absent-hit-by-empty");
    rep.nontrivial = !case.empty_range && case.origin != (0, 0) && case.body.len() >= 2 && (opt_hit || has_err || custom);
    rep
}

// ---------------------------------------------------------------------------------------------
// generator

const POOL: &[&str] = &["alpha", "beta", "gamma", "delta", "eps", "zeta", "Name", "n 1", "x"];

fn cell_for(ty_hint: u8) -> BoxedStrategy<CellV> {
    // ty_hint biases the column towards values that convert for a type, so that whole records succeed often
    let int = prop_oneof![Just(0i64), Just(1), Just(-1), -1000i64..1000, any::<i64>(), Just(2_147_483_648), Just(4_000_000_000), Just(4_294_967_295), Just(255), Just(256), Just(32_768), Just(-32_769)].prop_map(CellV::Int);
    let float = prop_oneof![Just(0.0f64), Just(1.5), Just(-2.25), Just(1e10), Just(3.0), -1e6f64..1e6, Just(1e300), Just(-0.0), Just(0.5), Just(-0.25), Just(1e-9), Just(0.999), -1.0f64..1.0, Just(3e9), Just(2147483648.0), Just(-1.0), Just(300.0)].prop_map(CellV::Float);
    let numstr = prop_oneof![Just("42"), Just("-7"), Just("3.5"), Just("1e3"), Just("0"), Just(" 5"), Just("007"), Just("+8")].prop_map(|s| CellV::Str(s.to_string()));
    let boolstr = prop_oneof![Just("TRUE"), Just("true"), Just("True"), Just("FALSE"), Just("false"), Just("False"), Just("yes"), Just("tRUE")].prop_map(|s| CellV::Str(s.to_string()));
    let text = "[a-zA-Z é]{0,6}".prop_map(CellV::Str);
    let boolean = any::<bool>().prop_map(CellV::Bool);
    let err = (0u8..8).prop_map(CellV::Err);
    let dt = prop_oneof![Just(44197.0f64), Just(0.5), Just(0.0)].prop_map(CellV::DateTime);
    let iso = prop_oneof![Just("2021-01-01"), Just("2021-01-01T10:00:00")].prop_map(|s| CellV::Iso(s.to_string()));
    let dur = Just(CellV::DurIso("PT10H10M10S".to_string()));
    match ty_hint % 5 {
        0 => prop_oneof![6 => int, 3 => float, 2 => numstr, 2 => Just(CellV::Empty), 1 => err, 1 => text].boxed(),
        1 => prop_oneof![6 => float, 3 => int, 2 => numstr, 2 => Just(CellV::Empty), 1 => err].boxed(),
        2 => prop_oneof![5 => text, 2 => numstr, 2 => boolstr, 2 => Just(CellV::Empty), 1 => err, 1 => int, 1 => iso].boxed(),
        3 => prop_oneof![5 => boolean, 3 => boolstr, 2 => int, 2 => Just(CellV::Empty), 1 => err, 1 => float].boxed(),
        _ => prop_oneof![2 => int, 2 => float, 2 => text, 1 => numstr, 1 => boolstr, 2 => boolean, 2 => Just(CellV::Empty), 1 => err, 1 => dt, 1 => iso, 1 => dur].boxed(),
    }
}

fn target_strategy() -> impl Strategy<Value = Target> {
    prop_oneof![
        3 => Just(Target::VecData),
        1 => Just(Target::VecString),
        1 => Just(Target::VecOptString),
        1 => Just(Target::VecI64),
        1 => prop_oneof![Just(Target::VecU32), Just(Target::VecI32), Just(Target::VecU8), Just(Target::VecI16)],
        1 => Just(Target::VecOptI64),
        1 => Just(Target::VecF64),
        1 => Just(Target::VecOptF64),
        1 => Just(Target::VecBool),
        1 => Just(Target::VecOptBool),
        1 => Just(Target::Tuple2),
        1 => Just(Target::Tuple3),
        1 => Just(Target::Tuple4),
        2 => Just(Target::MapData),
        1 => Just(Target::HashMapData),
        1 => Just(Target::MapString),
        3 => Just(Target::StructA),
        3 => Just(Target::StructB),
    ]
}

fn hint_for(target: Target, name: &str, col: usize) -> u8 {
    match target {
        Target::VecI64 | Target::VecOptI64 | Target::VecU32 | Target::VecI32 | Target::VecU8 | Target::VecI16 => 0,
        Target::VecF64 | Target::VecOptF64 => 1,
        Target::VecString | Target::VecOptString | Target::MapString => 2,
        Target::VecBool | Target::VecOptBool => 3,
        Target::Tuple2 => [0, 2][col.min(1)],
        Target::Tuple3 => [1, 3, 4][col.min(2)],
        Target::Tuple4 => [2, 0, 1, 3][col.min(3)],
        Target::StructA => match name {
            "alpha" => 0,
            "beta" => 2,
            "gamma" => 1,
            _ => 4,
        },
        Target::StructB => match name {
            "delta" => 2,
            "alpha" => 1,
            "eps" => 3,
            _ => 4,
        },
        _ => 4,
    }
}

fn case_strategy() -> impl Strategy<Value = Case> {
    let origin = (
        prop_oneof![Just(0u32), Just(1), Just(7), Just(1_048_570), 0u32..100],
        prop_oneof![Just(0u32), Just(1), Just(25), Just(16_380), 0u32..60],
    );
    (origin, target_strategy(), 1usize..=6, 0usize..=7, proptest::sample::subsequence(POOL.to_vec(), 6), any::<[u8; 6]>(), 0u8..100)
        .prop_flat_map(|(origin, target, width, height, names, shuffle, knobs)| {
            // header names: a random arrangement of pool names; struct targets get their fields first
            let mut names: Vec<String> = names.iter().map(|s| s.to_string()).collect();
            let wanted: &[&str] = match target {
                Target::StructA => &["alpha", "beta", "gamma"],
                Target::StructB => &["delta", "alpha", "eps"],
                _ => &[],
            };
            // usually make sure the struct's fields exist (sometimes leave one out)
            let drop_one = knobs % 10 == 0;
            let mut front: Vec<String> = wanted.iter().map(|s| s.to_string()).collect();
            if drop_one && !front.is_empty() {
                front.remove((knobs as usize / 10) % front.len());
            }
            names.retain(|n| !wanted.contains(&n.as_str()));
            front.extend(names);
            let width = if wanted.is_empty() { width } else { width.max(3) };
            let min_w = match target {
                Target::Tuple2 => 2,
                Target::Tuple3 => 3,
                Target::Tuple4 => 4,
                _ => 1,
            };
            let width = width.max(min_w).min(front.len());
            let mut cols: Vec<String> = front.into_iter().take(width).collect();
            // shuffle the columns (tuples are positional: keep their order meaningful anyway)
            for (i, k) in shuffle.iter().enumerate() {
                let a = i % width;
                let b = *k as usize % width;
                cols.swap(a, b);
            }
            // padding is generated only where names are matched after trimming (header selection with
            // positional targets); map keys / struct fields use the header text as it is
            let name_keyed = matches!(target, Target::StructA | Target::StructB | Target::MapData | Target::HashMapData | Target::MapString);
            // a column whose header cell is blank (empty or white space only) somewhere among the
            // named ones: selections by name must still hit the right columns
            const BLANK: &str = "\u{0}blank";
            if !name_keyed && knobs % 4 == 1 {
                cols.insert((knobs as usize / 4) % (cols.len() + 1), BLANK.to_string());
            }
            let header: Vec<BoxedStrategy<CellV>> = cols
                .iter()
                .map(|n| {
                    let n = n.clone();
                    if n == BLANK {
                        return prop_oneof![Just(CellV::Empty), Just(CellV::Str("  ".into())), Just(CellV::Str(String::new()))].boxed();
                    }
                    prop_oneof![
                        6 => Just(CellV::Str(n.clone())),
                        2 => Just(CellV::Str(if name_keyed { n.clone() } else { format!(" {n}  ") })),
                    ]
                    .boxed()
                })
                .collect();
            let body_cols: Vec<BoxedStrategy<CellV>> = cols.iter().enumerate().map(|(i, n)| cell_for(hint_for(target, n, i))).collect();
            let body = proptest::collection::vec(body_cols, height..=height);
            let cfg = {
                let cols2: Vec<String> = cols.iter().filter(|c| *c != BLANK).cloned().collect();
                let is_struct = matches!(target, Target::StructA | Target::StructB);
                let is_map = matches!(target, Target::MapData | Target::HashMapData | Target::MapString);
                let custom = (proptest::sample::subsequence(cols2.clone(), 0..=cols2.len()), any::<[u8; 4]>(), 0u8..12).prop_map(move |(mut sel, sh, miss)| {
                    for (i, k) in sh.iter().enumerate() {
                        if !sel.is_empty() {
                            let a = i % sel.len();
                            let b = *k as usize % sel.len();
                            sel.swap(a, b);
                        }
                    }
                    if miss == 0 {
                        sel.push("nosuch".to_string());
                    }
                    if miss == 1 && !sel.is_empty() {
                        sel[0] = format!("  {} ", sel[0]);
                    }
                    HeaderCfg::Custom(sel)
                });
                if is_struct {
                    prop_oneof![3 => Just(HeaderCfg::All), 3 => Just(HeaderCfg::OfStruct), 1 => custom].boxed()
                } else if is_map {
                    prop_oneof![3 => Just(HeaderCfg::All), 2 => custom].boxed()
                } else {
                    prop_oneof![3 => Just(HeaderCfg::None), 3 => Just(HeaderCfg::All), 3 => custom].boxed()
                }
            };
            (Just(origin), Just(target), header, body, cfg, any::<[u8; 4]>(), 0u8..40)
        })
        .prop_map(|(origin, target, header, body, cfg, perm, e)| Case { origin, header, body, empty_range: e == 0, cfg, target, perm: perm.to_vec() })
}

fn run(ctx: &mut Ctx) {
    let n = ctx.n(6000, 600_000);
    ctx.run_fast("deserialize", n, case_strategy, oracle);
    ctx.assumptions.push("conversions the statement does not list (Bool->number, DateTime/ISO->number or bool, Empty->number, strings that are numeric only after trimming) are wildcards: only absence of panics is checked".into());
    ctx.assumptions.push("header names are unique after trimming; header cells are strings".into());
    ctx.assumptions.push("a record with several failing cells may report any one of them".into());
}

fn replay(sub: &str, case: &serde_json::Value) -> Option<Report> {
    match sub {
        "deserialize" => replay_as::<Case>(case, oracle),
        _ => None,
    }
}
