// logical models and reference implementations
pub mod civil;
