#!/usr/bin/env python3
"""Validate MANIFEST.json and every evidence file against the given schemas (run with python3-vt)."""
import json, glob, sys
import jsonschema
ok = True
def check(path, schema):
    global ok
    try:
        jsonschema.validate(json.load(open(path)), json.load(open(schema)))
        print("ok  ", path)
    except Exception as e:
        ok = False
        print("FAIL", path, str(e)[:300])
check("/verif/MANIFEST.json", "/root/.vp/MANIFEST.schema.json")
for p in sorted(glob.glob("/verif/evidence/*.json")):
    check(p, "/root/.vp/EVIDENCE.schema.json")
sys.exit(0 if ok else 1)
