//! C04 — ODS: cells read back at their position; repeat counts expand faithfully.

use crate::enc::ods::*;
use crate::enc::zipw::ZipKnobs;
use crate::engine::{guard, replay_as, Ctx, Report};
use crate::model::value::{check_formula_range, check_range, Pos};
use crate::props::Prop;
use calamine::{Ods, Reader};
use proptest::prelude::*;
use serde::{Deserialize, Serialize};
use std::collections::BTreeMap;
use std::io::Cursor;

pub static PROP: Prop = Prop {
    id: "C04",
    run,
    replay,
    rule: "sparse grid (window <= 30x30, first used row/column anywhere in 0..1048575 x 0..16383, neighbouring cells and rows duplicated on purpose; float/percentage/currency/string (attribute or text:p)/boolean/date/time values, formulas, covered cells, annotations) x run-length grouping: every maximal run of identical cells or rows (including empty ones) is cut into a generated composition k=k1+..+km of repeated elements; trailing empties omitted, explicit, or LibreOffice-style (repeats up to 16384 / 1048576). Each grid is read under its generated grouping AND under a second grouping (maximal runs / no repeats at all / another composition); both must equal the model (tight bounds, every value, formulas). Non-trivial = a repeat > 1 on a non-empty run or an interior empty run, and first used column > A; distinct by serialized case. Thorough adds every 3x3 occupancy pattern x origins {0,1,2}^2 x 6 groupings.",
};

#[derive(Debug, Clone, Serialize, Deserialize)]
pub struct Case {
    pub doc: OdsDoc,
    /// second grouping of the same grids: 0 maximal runs, 1 no repeats, else knob seed
    pub alt: u8,
}

pub fn open_ods(bytes: Vec<u8>) -> Result<Ods<Cursor<Vec<u8>>>, String> {
    match guard(|| Ods::new(Cursor::new(bytes))) {
        Ok(Ok(x)) => Ok(x),
        Ok(Err(e)) => Err(format!("Ods::new failed on a well-formed spreadsheet: {e:?}")),
        Err(p) => Err(format!("Ods::new: {p}")),
    }
}

fn value_pool() -> impl Strategy<Value = OVal> {
    prop_oneof![
        4 => prop_oneof![Just("1"), Just("2.5"), Just("-3"), Just("1E3"), Just("0.1")].prop_map(|s| OVal::Float { lex: s.to_string(), kind: 0 }),
        1 => Just(OVal::Float { lex: "0.5".into(), kind: 1 }),
        1 => Just(OVal::Float { lex: "12.3".into(), kind: 2 }),
        2 => prop_oneof![Just("a"), Just("b c"), Just("x&y")].prop_map(|s| OVal::StrAttr(s.to_string())),
        2 => prop_oneof![Just("a"), Just("hello"), Just("<t>")].prop_map(|s| OVal::StrContent(vec![vec![TextPiece::Text(s.to_string())]])),
        1 => any::<bool>().prop_map(OVal::Bool),
        1 => Just(OVal::Date("2021-03-04".into())),
        1 => Just(OVal::Date("2021-03-04T10:20:30".into())),
        1 => Just(OVal::Time("PT10H10M10S".into())),
    ]
}

fn cell_strategy() -> impl Strategy<Value = OCell> {
    (value_pool(), proptest::option::weighted(0.15, prop_oneof![Just("of:=[.A1]+1"), Just("of:=SUM([.B2:.C3])")]), proptest::option::weighted(0.05, Just("note".to_string())), prop::bool::weighted(0.05)).prop_map(|(value, formula, annotation, covered)| OCell {
        value,
        formula: formula.map(|s| s.to_string()),
        annotation,
        covered,
        esc: 0,
    })
}

pub fn sheet_strategy(name: String) -> impl Strategy<Value = OSheet> {
    let origin = (
        prop_oneof![3 => Just(0u32), 2 => 1u32..5, 1 => Just(65_536u32), 1 => Just(1_048_540u32), 1 => 0u32..1_048_540],
        prop_oneof![3 => Just(0u32), 3 => 1u32..5, 1 => Just(1023u32), 1 => Just(16_350u32), 1 => 0u32..16_350],
    );
    (origin, 1u32..30, 1u32..30).prop_flat_map(move |((r0, c0), h, w)| {
        let name = name.clone();
        // the two "far" origins put the window flush against the last row / column of the sheet
        let r0 = if r0 == 1_048_540 { 1_048_576 - h } else { r0 };
        let c0 = if c0 == 16_350 { 16_384 - w } else { c0 };
        // a few distinct cells, placed many times: neighbours are often identical
        (
            proptest::collection::vec(cell_strategy(), 1..4),
            proptest::collection::btree_map((0..h, 0..w), 0usize..4, 0..40),
            proptest::collection::vec((0..h, 0..h), 0..4), // copy row a onto row b
            proptest::collection::vec(any::<u8>(), 0..12),
            0u8..3,
            0u8..4,
            any::<bool>(),
        )
            .prop_map(move |(pool, placed, copies, grouping, trailing, decorations, hidden)| {
                let mut grid: BTreeMap<Pos, OCell> = BTreeMap::new();
                for ((dr, dc), k) in placed {
                    grid.insert((r0 + dr, c0 + dc), pool[k % pool.len()].clone());
                }
                for (a, b) in copies {
                    let src: Vec<(u32, OCell)> = grid.range((r0 + a, 0)..=(r0 + a, u32::MAX)).map(|(p, c)| (p.1, c.clone())).collect();
                    let dst: Vec<Pos> = grid.range((r0 + b, 0)..=(r0 + b, u32::MAX)).map(|(p, _)| *p).collect();
                    for p in dst {
                        grid.remove(&p);
                    }
                    for (c, cell) in src {
                        grid.insert((r0 + b, c), cell);
                    }
                }
                OSheet { name: name.clone(), hidden, grid: grid.into_iter().map(|(p, c)| (key(p), c)).collect(), grouping, trailing, decorations }
            })
    })
}

pub fn case_strategy() -> impl Strategy<Value = Case> {
    let zip = (proptest::collection::vec(0u8..5, 0..4), proptest::collection::vec(any::<u8>(), 0..4)).prop_map(|(methods, order)| ZipKnobs { methods, order, name_case: 0, comment: false });
    (1usize..3, any::<u8>(), any::<bool>(), any::<bool>(), zip).prop_flat_map(|(n, alt, pretty, decl, zip)| {
        let names = ["Sheet1", "Zwei & 2"];
        let sheets: Vec<_> = (0..n).map(|i| sheet_strategy(names[i].to_string()).boxed()).collect();
        (sheets, Just(alt), Just(pretty), Just(decl), Just(zip)).prop_map(|(sheets, alt, pretty, decl, zip)| Case { doc: OdsDoc { sheets, names: vec![], encrypted_entries: vec![], zip, pretty, decl }, alt })
    })
}

pub fn read_and_check(doc: &OdsDoc, what: &str, rep: &mut Report) {
    let mut wb = match open_ods(encode(doc)) {
        Ok(w) => w,
        Err(e) => {
            rep.fail(format!("{what}: {e}"));
            return;
        }
    };
    for sheet in &doc.sheets {
        let expected = expected_values(sheet);
        match guard(|| wb.worksheet_range(&sheet.name)) {
            Ok(Ok(r)) => {
                if let Err(e) = check_range(&r, &expected, &format!("{what}: worksheet_range({:?})", sheet.name)) {
                    rep.fail(e);
                    return;
                }
            }
            other => {
                rep.fail(format!("{what}: worksheet_range({:?}): {:?}", sheet.name, other.map(|r| r.map(|_| ()).map_err(|e| e.to_string()))));
                return;
            }
        }
        let formulas = expected_formulas(sheet);
        match guard(|| wb.worksheet_formula(&sheet.name)) {
            Ok(Ok(r)) => {
                if let Err(e) = check_formula_range(&r, &formulas, &format!("{what}: worksheet_formula({:?})", sheet.name)) {
                    rep.fail(e);
                    return;
                }
            }
            other => {
                rep.fail(format!("{what}: worksheet_formula({:?}): {:?}", sheet.name, other.map(|r| r.map(|_| ()).map_err(|e| e.to_string()))));
                return;
            }
        }
    }
}

fn regroup(doc: &OdsDoc, alt: u8) -> OdsDoc {
    let mut d = doc.clone();
    for s in &mut d.sheets {
        s.grouping = match alt {
            0 => vec![],
            1 => vec![0xFF],
            k => (0..7u8).map(|i| k.wrapping_mul(31).wrapping_add(i.wrapping_mul(17))).collect(),
        };
        s.trailing = (alt / 3) % 3;
        s.decorations = alt % 4;
    }
    d
}

fn classify(doc: &OdsDoc, rep: &mut Report) -> bool {
    let mut nt = false;
    for s in &doc.sheets {
        let rows = layout(s);
        let values = expected_values(s);
        let first_col = values.keys().map(|p| p.1).min();
        let first_row = values.keys().map(|p| p.0).min();
        let last_row = values.keys().map(|p| p.0).max();
        let mut r = 0u32;
        let mut repeat_nonempty = false;
        let mut interior_empty_run = false;
        for row in &rows {
            let nonempty = row.cells.iter().any(|c| !c.cell.is_blank());
            if nonempty && (row.repeat > 1 || row.cells.iter().any(|c| c.repeat > 1 && !c.cell.is_blank())) {
                repeat_nonempty = true;
            }
            if !nonempty && row.repeat >= 1 {
                if let (Some(a), Some(b)) = (first_row, last_row) {
                    if r > a && r < b {
                        interior_empty_run = true;
                    }
                }
            }
            r = r.saturating_add(row.repeat);
        }
        rep.label_if(repeat_nonempty, "repeat>1-on-non-empty");
        rep.label_if(interior_empty_run, "interior-empty-row-run");
        rep.label_if(first_col.map_or(false, |c| c > 0), "first-column>A");
        rep.label_if(first_row.map_or(false, |c| c > 0), "first-row>1");
        rep.label(match s.trailing {
            0 => "trailing:omitted",
            1 => "trailing:libreoffice-repeats",
            _ => "trailing:explicit",
        });
        rep.label_if(s.grid.values().any(|c| c.covered), "covered-cell");
        rep.label_if(s.grid.values().any(|c| c.annotation.is_some()), "annotation");
        nt |= (repeat_nonempty || interior_empty_run) && first_col.map_or(false, |c| c > 0);
    }
    nt
}

fn oracle(case: &Case) -> Report {
    let mut rep = Report::new();
    let nt = classify(&case.doc, &mut rep);
    read_and_check(&case.doc, "generated grouping", &mut rep);
    if rep.failed() {
        return rep;
    }
    let alt = regroup(&case.doc, case.alt);
    read_and_check(&alt, "second grouping of the same grid", &mut rep);
    rep.nontrivial = nt;
    rep
}

// ---------------------------------------------------------------------------------------------
// systematic small grids

#[derive(Debug, Clone, Serialize, Deserialize)]
pub struct Small {
    pub pattern: u16,
    pub origin: Pos,
    pub distinct: bool,
    pub grouping: Vec<u8>,
    pub trailing: u8,
}

fn small_doc(s: &Small) -> OdsDoc {
    let mut grid = BTreeMap::new();
    for i in 0..9u32 {
        if s.pattern >> i & 1 == 1 {
            let v = if s.distinct { format!("{}", i + 1) } else { "7".to_string() };
            grid.insert(key((s.origin.0 + i / 3, s.origin.1 + i % 3)), OCell::of(OVal::Float { lex: v, kind: 0 }));
        }
    }
    OdsDoc { sheets: vec![OSheet { name: "S".into(), grid, grouping: s.grouping.clone(), trailing: s.trailing, ..Default::default() }], ..Default::default() }
}

fn oracle_small(s: &Small) -> Report {
    let mut rep = Report::new();
    read_and_check(&small_doc(s), "small grid", &mut rep);
    rep.nontrivial = s.origin.1 > 0 && s.pattern.count_ones() >= 2;
    rep
}

fn small_sweep(ctx: &mut Ctx) {
    let groupings: Vec<Vec<u8>> = vec![vec![], vec![0xFF], vec![0], vec![1, 2, 3], vec![9, 4], vec![200, 13, 77]];
    let mut all = vec![];
    for pattern in 0..512u16 {
        for or in 0..3u32 {
            for oc in 0..3u32 {
                for (gi, g) in groupings.iter().enumerate() {
                    all.push(Small { pattern, origin: (or, oc), distinct: (pattern as usize + gi) % 2 == 0, grouping: g.clone(), trailing: (gi % 3) as u8 });
                }
            }
        }
    }
    let threads = ctx.threads;
    let res: Vec<(u64, Option<(Small, String)>)> = std::thread::scope(|sc| {
        let hs: Vec<_> = (0..threads)
            .map(|t| {
                let all = &all;
                sc.spawn(move || {
                    let mut nt = 0u64;
                    let mut fail = None;
                    for (i, s) in all.iter().enumerate() {
                        if i % threads != t {
                            continue;
                        }
                        let r = oracle_small(s);
                        if r.nontrivial {
                            nt += 1;
                        }
                        if let (Some(m), true) = (r.verdict, fail.is_none()) {
                            fail = Some((s.clone(), m));
                        }
                    }
                    (nt, fail)
                })
            })
            .collect();
        hs.into_iter().map(|h| h.join().unwrap()).collect()
    });
    let nt: u64 = res.iter().map(|r| r.0).sum();
    ctx.record_sweep("small-grids", all.len() as u64, nt, BTreeMap::new(), vec![serde_json::to_value(&all[1000]).unwrap()], true, "all 512 occupancy patterns of a 3x3 block x 9 origins x 6 groupings (maximal runs, no repeats, four compositions)");
    if let Some((s, m)) = res.into_iter().find_map(|r| r.1) {
        ctx.report_violation("small", &s, &m);
    }
}

fn run(ctx: &mut Ctx) {
    let n = ctx.n(1500, 60_000);
    ctx.run("grid", n, case_strategy, oracle);
    if !ctx.quick() {
        small_sweep(ctx);
    }
    ctx.assumptions.push("content.xml uses the conventional prefixes (table:, office:, text:) and has no white space between the cells of a row (the reader matches qualified names and rejects text there; every producer writes it this way)".into());
    ctx.assumptions.push("bounding boxes stay <= 30x30; leading empty rows/columns are written as repeated elements".into());
}

fn replay(sub: &str, case: &serde_json::Value) -> Option<Report> {
    match sub {
        "grid" => replay_as::<Case>(case, oracle),
        "small" => replay_as::<Small>(case, oracle_small),
        _ => None,
    }
}
