import struct
from cfbw import cfb
def rec(t,d=b''): 
    assert len(d)<=8224
    return struct.pack('<HH',t,len(d))+d
def xlstr(s, wide=None, lenbytes=2):
    # XLUnicodeString / Short
    u=s.encode('utf-16le')
    if wide is None: wide = any(ord(c)>255 for c in s) or any(0xD800<=x<=0xDFFF for x in struct.unpack('<%dH'%(len(u)//2),u))
    n=len(u)//2
    hdr=struct.pack('<H',n) if lenbytes==2 else bytes([n])
    if wide: return hdr+b'\x01'+u
    return hdr+b'\x00'+bytes(u[0::2])
def bof(dt): return rec(0x0809, struct.pack('<HHHHII',0x0600,dt,0x0DBB,0x07CC,0,0x06000000))
def workbook(sheets, sst=(), formats=(), xfs=(0,), date1904=False, globals_extra=b'', names=b'', externsheet=b'', filepass=None):
    """sheets: list of (name, hidden, dt, recordsbytes)"""
    def globs(offsets):
        g=bof(5)
        if filepass is not None: g+=rec(0x002F,filepass)
        g+=rec(0x0042,struct.pack('<H',1200))
        g+=rec(0x0022,struct.pack('<H',1 if date1904 else 0))
        for idx,f in formats: g+=rec(0x041E, struct.pack('<H',idx)+xlstr(f))
        for x in xfs: g+=rec(0x00E0, struct.pack('<HH',0,x)+b'\0'*16)
        for (n,h,dt,_),off in zip(sheets,offsets): g+=rec(0x0085, struct.pack('<I',off)+bytes([h,dt])+xlstr(n,lenbytes=1))
        g+=externsheet+names
        if sst is not None:
            body=struct.pack('<II',len(sst),len(sst))+b''.join(xlstr(s) for s in sst)
            g+=rec(0x00FC,body)
        g+=globals_extra
        g+=rec(0x000A)
        return g
    g0=globs([0]*len(sheets)); off=len(g0); offs=[]
    subs=[]
    for n,h,dt,body in sheets:
        sub=bof(0x10)+body+rec(0x000A)
        offs.append(off); off+=len(sub); subs.append(sub)
    return globs(offs)+b''.join(subs)
def number(r,c,x,xf=0): return rec(0x0203,struct.pack('<HHHd',r,c,xf,x))
def rk(r,c,rkv,xf=0): return rec(0x027E,struct.pack('<HHHI',r,c,xf,rkv))
def formula(r,c,val,rgce,xf=0): return rec(0x0006,struct.pack('<HHH',r,c,xf)+val+struct.pack('<HI',0,0)+struct.pack('<H',len(rgce))+rgce)
