// independent encoders
pub mod zipw;
pub mod xlsx;
pub mod ods;
pub mod cfb;
pub mod biff8;
pub mod xlsb;
pub mod ovba;
