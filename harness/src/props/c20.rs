//! C20 — encrypted workbooks are reported as password protected, and only those.

use crate::enc::cfb::{write_cfb, CfbLayout, CfbStream};
use crate::enc::{biff8 as b8, ods as od, xlsb as bb, xlsx as xx};
use crate::engine::{guard, replay_as, Ctx, Report};
use crate::props::c13::{layout_strategy, pseudo_bytes};
use crate::props::Prop;
use calamine::{Ods, OdsError, Reader, Xls, XlsError, Xlsb, XlsbError, Xlsx, XlsxError};
use proptest::prelude::*;
use serde::{Deserialize, Serialize};
use std::io::Cursor;

pub static PROP: Prop = Prop {
    id: "C20",
    run,
    replay,
    rule: "positive cases: (a) OOXML packages: compound files from the C13 writer (every layout knob) holding EncryptionInfo (standard / agile XML / random bytes) and EncryptedPackage (sizes 0, 1, 4095, 4096, 4097, up to 200 KiB of pseudo-random ciphertext), optionally the DataSpaces storages, opened as Xlsx and as Xlsb; (b) BIFF8 workbook streams whose globals carry FILEPASS (XOR obfuscation, RC4, RC4 CryptoAPI) directly after BOF or after INTERFACEHDR / WRITEPROTECT, followed by ordinary records, under any container layout; (c) ods packages whose manifest declares manifest:encryption-data on 1..4 entries with opaque content.xml. Expected: exactly the reader's Password variant. Negative cases: unencrypted workbooks of all four formats carrying decoys (cell text and sheet names 'EncryptedPackage', a zip entry of that name, compound-file streams with similar names, a manifest entry whose path contains 'encryption-data'); expected: the workbook opens and the Password variant never appears. Non-trivial = positive with a fragmented or mini-stream layout or FILEPASS not directly after BOF; negative with a decoy; distinct by serialized case.",
};

#[derive(Debug, Clone, Serialize, Deserialize)]
pub enum Case {
    Ooxml { info: u8, package_len: u32, seed: u32, dataspaces: bool, layout: CfbLayout },
    Biff { kind: u8, before: u8, layout: CfbLayout, wide_name: bool },
    Ods { encrypted: Vec<u8>, seed: u32 },
    /// BIFF5/BIFF7 workbook ("Book" stream) whose FILEPASS is the 4-byte XOR form (key, hash)
    Biff5 { before: u8, key: u16, hash: u16, layout: CfbLayout },
    NegXlsx { decoy: u8 },
    NegXlsb { decoy: u8 },
    NegXls { decoy: u8, layout: CfbLayout },
    NegOds { decoy: u8 },
}

fn case_strategy() -> impl Strategy<Value = Case> {
    // about one package in a hundred is large enough to need more than 109 FAT sectors (a DIFAT sector)
    let plen = prop_oneof![40 => proptest::sample::select(vec![0u32, 1, 8, 4095, 4096, 4097, 8192]), 40 => 0u32..10_000, 20 => 0u32..200_000, 1 => 7_000_000u32..9_000_000];
    prop_oneof![
        4 => (0u8..3, plen, any::<u32>(), any::<bool>(), layout_strategy()).prop_map(|(info, package_len, seed, dataspaces, layout)| Case::Ooxml { info, package_len, seed, dataspaces, layout }),
        4 => (0u8..4, 0u8..3, layout_strategy(), any::<bool>()).prop_map(|(kind, before, layout, wide_name)| Case::Biff { kind, before, layout, wide_name }),
        1 => (0u8..3, any::<u16>(), any::<u16>(), layout_strategy()).prop_map(|(before, key, hash, layout)| Case::Biff5 { before, key, hash, layout }),
        3 => (proptest::collection::vec(0u8..4, 1..5), any::<u32>()).prop_map(|(encrypted, seed)| Case::Ods { encrypted, seed }),
        1 => (0u8..4).prop_map(|decoy| Case::NegXlsx { decoy }),
        1 => (0u8..4).prop_map(|decoy| Case::NegXlsb { decoy }),
        1 => (0u8..4, layout_strategy()).prop_map(|(decoy, layout)| Case::NegXls { decoy, layout }),
        1 => (0u8..4).prop_map(|decoy| Case::NegOds { decoy }),
    ]
}

fn encryption_info(kind: u8, seed: u32) -> Vec<u8> {
    match kind {
        0 => {
            // standard encryption: version 4.2, flags, header size, header, verifier
            let mut v = vec![4, 0, 2, 0, 0x24, 0, 0, 0, 0x8C, 0, 0, 0, 0x24, 0, 0, 0, 0, 0, 0, 0, 0x0E, 0x66, 0, 0, 0x04, 0x80, 0, 0, 0x80, 0, 0, 0, 0x18, 0, 0, 0];
            v.extend(pseudo_bytes(180, seed));
            v
        }
        1 => {
            let mut v = vec![4, 0, 4, 0, 0x40, 0, 0, 0];
            v.extend_from_slice(b"<?xml version=\"1.0\" encoding=\"UTF-8\" standalone=\"yes\"?><encryption xmlns=\"http://schemas.microsoft.com/office/2006/encryption\"><keyData saltSize=\"16\" blockSize=\"16\" keyBits=\"256\" hashSize=\"64\" cipherAlgorithm=\"AES\" cipherChaining=\"ChainingModeCBC\" hashAlgorithm=\"SHA512\" saltValue=\"AAAA\"/></encryption>");
            v
        }
        _ => pseudo_bytes(64 + seed % 300, seed),
    }
}

fn is_password<T, E: std::fmt::Debug>(r: &Result<T, E>, variant: &str) -> bool {
    matches!(r, Err(e) if format!("{e:?}") == variant)
}

fn filepass(kind: u8) -> Vec<u8> {
    match kind % 4 {
        // XOR obfuscation: wEncryptionType 0, key, verifier
        0 => vec![0, 0, 0x59, 0xB1, 0x5A, 0x2D],
        // RC4: wEncryptionType 1, vMajor 1 vMinor 1, salt, verifier, verifier hash
        1 => {
            let mut v = vec![1, 0, 1, 0, 1, 0];
            v.extend(pseudo_bytes(48, 7));
            v
        }
        // RC4 CryptoAPI: wEncryptionType 1, vMajor 2..4, vMinor 2
        2 => {
            let mut v = vec![1, 0, 2, 0, 2, 0];
            v.extend(pseudo_bytes(190, 9));
            v
        }
        _ => {
            let mut v = vec![1, 0, 4, 0, 2, 0];
            v.extend(pseudo_bytes(200, 11));
            v
        }
    }
}

fn simple_xlsx(decoy: u8) -> xx::XlsxDoc {
    let text = if decoy % 2 == 1 { "EncryptedPackage" } else { "plain" };
    xx::XlsxDoc {
        sheets: vec![xx::XSheet {
            name: if decoy >= 2 { "EncryptedPackage".into() } else { "S".into() },
            rows: vec![xx::XRow { r: 0, explicit: true, attrs: false, cells: vec![xx::XCell { col: 0, explicit: true, style: None, value: xx::XVal::Shared(xx::XText::plain(text)), formula: None }] }],
            ..Default::default()
        }],
        extra_parts: if decoy == 3 { vec![("EncryptedPackage".into(), b"not encrypted at all".to_vec()), ("EncryptionInfo".into(), vec![1, 2, 3])] } else { vec![] },
        ..Default::default()
    }
}

fn oracle(case: &Case) -> Report {
    let mut rep = Report::new();
    match case {
        Case::Ooxml { info, package_len, seed, dataspaces, layout } => {
            let mut streams = vec![CfbStream::root("EncryptionInfo", encryption_info(*info, *seed)), CfbStream::root("EncryptedPackage", pseudo_bytes(*package_len, *seed ^ 0x55))];
            if *dataspaces {
                let ds = "\u{6}DataSpaces".to_string();
                streams.push(CfbStream { path: vec![ds.clone()], name: "Version".into(), data: pseudo_bytes(76, 1) });
                streams.push(CfbStream { path: vec![ds.clone()], name: "DataSpaceMap".into(), data: pseudo_bytes(112, 2) });
                streams.push(CfbStream { path: vec![ds.clone(), "DataSpaceInfo".into()], name: "StrongEncryptionDataSpace".into(), data: pseudo_bytes(64, 3) });
                streams.push(CfbStream { path: vec![ds, "TransformInfo".into(), "StrongEncryptionTransform".into()], name: "\u{6}Primary".into(), data: pseudo_bytes(200, 4) });
            }
            let (file, cinfo) = write_cfb(&streams, layout);
            let r1 = guard(|| Xlsx::new(Cursor::new(file.clone())));
            match &r1 {
                Ok(r) if is_password(r, "Password") => {}
                Ok(r) => rep.fail(format!("encrypted OOXML package opened as Xlsx: {:?}, expected XlsxError::Password", r.as_ref().map(|_| "Ok(workbook)").map_err(|e| format!("{e:?}")))),
                Err(p) => rep.fail(format!("encrypted OOXML package opened as Xlsx: {p}")),
            }
            let _: Option<XlsxError> = None;
            let r2 = guard(|| Xlsb::new(Cursor::new(file)));
            match &r2 {
                Ok(r) if is_password(r, "Password") => {}
                Ok(r) => rep.fail(format!("encrypted OOXML package opened as Xlsb: {:?}, expected XlsbError::Password", r.as_ref().map(|_| "Ok(workbook)").map_err(|e| format!("{e:?}")))),
                Err(p) => rep.fail(format!("encrypted OOXML package opened as Xlsb: {p}")),
            }
            let _: Option<XlsbError> = None;
            rep.label("positive:ooxml");
            rep.label(["info:standard", "info:agile", "info:random"][*info as usize % 3]);
            rep.label_if(*package_len < 4096, "package-in-mini-stream");
            rep.label_if(*package_len >= 7_000_000, "package-needs-difat-sector");
            rep.label_if(cinfo.fragmented, "fragmented-layout");
            rep.label_if(layout.v4, "cfb-v4");
            rep.nontrivial = cinfo.fragmented || *package_len < 4096;
        }
        Case::Biff { kind, before, layout, wide_name } => {
            let doc = b8::XlsDoc {
                sheets: vec![b8::BSheet { name: "Sheet1".into(), name_wide: *wide_name, cells: vec![b8::BCell { row: 0, col: 0, ixfe: 0, rec: b8::BRec::Number(1.0) }], ..Default::default() }],
                xfs: vec![0],
                filepass: Some(filepass(*kind)),
                before_filepass: *before,
                codepage: Some(1200),
                cfb: layout.clone(),
                ..Default::default()
            };
            let r = guard(|| Xls::new(Cursor::new(b8::encode(&doc))));
            match &r {
                Ok(r) if is_password(r, "Password") => {}
                Ok(r) => rep.fail(format!("BIFF8 workbook with FILEPASS {:?}: {:?}, expected XlsError::Password", ["XOR obfuscation", "RC4", "RC4 CryptoAPI v2", "RC4 CryptoAPI v4"][*kind as usize % 4], r.as_ref().map(|_| "Ok(workbook)").map_err(|e| format!("{e:?}")))),
                Err(p) => rep.fail(format!("BIFF8 workbook with FILEPASS: {p}")),
            }
            let _: Option<XlsError> = None;
            rep.label("positive:biff");
            rep.label(["filepass:xor", "filepass:rc4", "filepass:cryptoapi", "filepass:cryptoapi4"][*kind as usize % 4]);
            rep.label_if(*before != 0, "filepass-not-second-record");
            rep.nontrivial = *before != 0 || layout.perm_seed != 0;
        }
        Case::Biff5 { before, key, hash, layout } => {
            let rec = |id: u16, data: &[u8]| {
                let mut v = id.to_le_bytes().to_vec();
                v.extend_from_slice(&(data.len() as u16).to_le_bytes());
                v.extend_from_slice(data);
                v
            };
            // BOF: BIFF5 (0x0500), workbook globals (0x0005), build, year
            let mut stream = rec(0x0809, &[0x00, 0x05, 0x05, 0x00, 0xBB, 0x0D, 0xCC, 0x07]);
            match before % 3 {
                1 => stream.extend(rec(0x0086, &[])), // WRITEPROT
                2 => {
                    stream.extend(rec(0x00E1, &[0xE4, 0x04])); // INTERFACEHDR
                    stream.extend(rec(0x0086, &[]));
                }
                _ => {}
            }
            let mut fp = key.to_le_bytes().to_vec();
            fp.extend_from_slice(&hash.to_le_bytes());
            stream.extend(rec(0x002F, &fp));
            // obfuscated remainder
            stream.extend(rec(0x0042, &pseudo_bytes(2, 3)));
            stream.extend(rec(0x0085, &pseudo_bytes(14, 4)));
            stream.extend(rec(0x000A, &[]));
            let (file, _) = write_cfb(&[CfbStream::root("Book", stream)], layout);
            let r = guard(|| Xls::new(Cursor::new(file)));
            match &r {
                Ok(r) if is_password(r, "Password") => {}
                Ok(r) => rep.fail(format!("BIFF5 workbook with a 4-byte XOR FILEPASS: {:?}, expected XlsError::Password", r.as_ref().map(|_| "Ok(workbook)").map_err(|e| format!("{e:?}")))),
                Err(p) => rep.fail(format!("BIFF5 workbook with FILEPASS: {p}")),
            }
            rep.label("positive:biff5");
            rep.label_if(*before % 3 != 0, "filepass-not-second-record");
            rep.nontrivial = true;
        }
        Case::Ods { encrypted, seed } => {
            let names = ["content.xml", "styles.xml", "meta.xml", "settings.xml"];
            let doc = od::OdsDoc { encrypted_entries: encrypted.iter().map(|k| names[*k as usize % 4].to_string()).collect(), ..Default::default() };
            let bytes = od::encode_with_content(&doc, pseudo_bytes(300 + seed % 5000, *seed));
            let r = guard(|| Ods::new(Cursor::new(bytes)));
            match &r {
                Ok(r) if is_password(r, "Password") => {}
                Ok(r) => rep.fail(format!("ods with manifest:encryption-data on {:?}: {:?}, expected OdsError::Password", doc.encrypted_entries, r.as_ref().map(|_| "Ok(workbook)").map_err(|e| format!("{e:?}")))),
                Err(p) => rep.fail(format!("encrypted ods: {p}")),
            }
            let _: Option<OdsError> = None;
            rep.label("positive:ods");
            rep.label_if(!encrypted.contains(&0), "ods:content.xml-entry-not-first-encrypted");
            rep.nontrivial = encrypted.len() > 1 || !encrypted.contains(&0);
        }
        Case::NegXlsx { decoy } => {
            let r = guard(|| Xlsx::new(Cursor::new(xx::encode(&simple_xlsx(*decoy)))));
            match r {
                Ok(Ok(_)) => {}
                Ok(Err(e)) => rep.fail(format!("unencrypted xlsx (decoy {decoy}) does not open: {e:?}")),
                Err(p) => rep.fail(format!("unencrypted xlsx: {p}")),
            }
            rep.label("negative:xlsx");
            rep.nontrivial = *decoy > 0;
        }
        Case::NegXlsb { decoy } => {
            let doc = bb::XlsbDoc {
                sheets: vec![bb::BbSheet { name: if *decoy >= 2 { "EncryptedPackage".into() } else { "S".into() }, rows: vec![bb::BbRow { r: 0, before: vec![], cells: vec![bb::BbCell { col: 0, style: 0, rec: bb::BbRec::St("EncryptedPackage".into()) }] }], ..Default::default() }],
                extra_parts: if *decoy == 3 { vec![("EncryptedPackage".into(), vec![0; 40])] } else { vec![] },
                ..Default::default()
            };
            let r = guard(|| Xlsb::new(Cursor::new(bb::encode(&doc))));
            match r {
                Ok(Ok(_)) => {}
                Ok(Err(e)) => rep.fail(format!("unencrypted xlsb (decoy {decoy}) does not open: {e:?}")),
                Err(p) => rep.fail(format!("unencrypted xlsb: {p}")),
            }
            rep.label("negative:xlsb");
            rep.nontrivial = *decoy > 0;
        }
        Case::NegXls { decoy, layout } => {
            let doc = b8::XlsDoc {
                sheets: vec![b8::BSheet { name: if *decoy >= 2 { "EncryptedPackage".into() } else { "S".into() }, cells: vec![b8::BCell { row: 0, col: 0, ixfe: 0, rec: b8::BRec::Label("FILEPASS EncryptedPackage".into(), false) }], junk: 8, ..Default::default() }],
                xfs: vec![0],
                extra_streams: match decoy {
                    1 => vec![CfbStream::root("EncryptedPackage2", vec![1; 100]), CfbStream::root("encryptedpackage", vec![2; 5000])],
                    3 => vec![CfbStream::root("EncryptionInfo", vec![3; 64])],
                    _ => vec![],
                },
                cfb: layout.clone(),
                ..Default::default()
            };
            let bytes = b8::encode(&doc);
            match guard(|| Xls::new(Cursor::new(bytes.clone()))) {
                Ok(Ok(_)) => {}
                Ok(Err(e)) => rep.fail(format!("unencrypted xls (decoy {decoy}) does not open: {e:?}")),
                Err(p) => rep.fail(format!("unencrypted xls: {p}")),
            }
            // the OOXML readers must not call this compound file an encrypted package either
            let r = guard(|| Xlsx::new(Cursor::new(bytes)));
            if let Ok(r) = &r {
                if is_password(r, "Password") {
                    rep.fail(format!("a compound file without an EncryptedPackage stream (decoy {decoy}) is reported as password protected by Xlsx::new"));
                }
            }
            rep.label("negative:xls");
            rep.nontrivial = *decoy > 0;
        }
        Case::NegOds { decoy } => {
            let mut doc = od::OdsDoc { sheets: vec![od::OSheet { name: "manifest:encryption-data".into(), grid: [(od::key((0, 0)), od::OCell::of(od::OVal::StrAttr("<manifest:encryption-data>".into())))].into_iter().collect(), ..Default::default() }], ..Default::default() };
            if *decoy == 0 {
                doc.sheets[0].name = "S".into();
            }
            let r = guard(|| Ods::new(Cursor::new(od::encode(&doc))));
            match r {
                Ok(Ok(_)) => {}
                Ok(Err(e)) => rep.fail(format!("unencrypted ods (decoy {decoy}) does not open: {e:?}")),
                Err(p) => rep.fail(format!("unencrypted ods: {p}")),
            }
            rep.label("negative:ods");
            rep.nontrivial = *decoy > 0;
        }
    }
    rep
}

fn run(ctx: &mut Ctx) {
    let n = ctx.n(2500, 60_000);
    ctx.run("password", n, case_strategy, oracle);
    ctx.assumptions.push("the negative direction is also exercised by every other check of this suite: all of them require their (unencrypted) workbooks to open".into());
}

fn replay(sub: &str, case: &serde_json::Value) -> Option<Report> {
    match sub {
        "password" => replay_as::<Case>(case, oracle),
        _ => None,
    }
}
