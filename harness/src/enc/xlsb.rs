//! Independent XLSB (BIFF12) writer: varint record framing, workbook / sheet / shared-string /
//! style parts, ignorable records with generated ids and payload lengths.

use crate::enc::biff8::rk_decode;
use crate::enc::zipw::{self, ZipKnobs};
use crate::model::value::{Exp, Pos};
use serde::{Deserialize, Serialize};
use std::collections::BTreeMap;

pub fn rec(id: u16, payload: &[u8]) -> Vec<u8> {
    let mut out = Vec::with_capacity(payload.len() + 6);
    // record id: one byte below 0x80, else two bytes of 7 bits (low first, continuation bit set)
    if id < 0x80 {
        out.push(id as u8);
    } else {
        out.push((id & 0x7F) as u8 | 0x80);
        out.push((id >> 7) as u8);
    }
    // length: 1-4 bytes of 7 bits
    let mut len = payload.len() as u32;
    loop {
        let b = (len & 0x7F) as u8;
        len >>= 7;
        if len == 0 {
            out.push(b);
            break;
        }
        out.push(b | 0x80);
    }
    out.extend_from_slice(payload);
    out
}

fn u16le(v: &mut Vec<u8>, x: u16) {
    v.extend_from_slice(&x.to_le_bytes());
}
fn u32le(v: &mut Vec<u8>, x: u32) {
    v.extend_from_slice(&x.to_le_bytes());
}

/// XLWideString: cch (u32) + UTF-16LE
pub fn wide(s: &str) -> Vec<u8> {
    let u: Vec<u16> = s.encode_utf16().collect();
    let mut out = Vec::with_capacity(4 + 2 * u.len());
    u32le(&mut out, u.len() as u32);
    for c in u {
        u16le(&mut out, c);
    }
    out
}

#[derive(Debug, Clone, Serialize, Deserialize, PartialEq)]
pub enum BbRec {
    Blank,
    Rk(u32),
    Error(u8),
    Bool(bool),
    Real(f64),
    St(String),
    Isst(u32),
    FmlaString(String, Vec<u8>),
    FmlaNum(f64, Vec<u8>),
    FmlaBool(bool, Vec<u8>),
    FmlaError(u8, Vec<u8>),
    /// a record the reader does not interpret: (record id, payload length)
    Ignorable(u16, u32),
}

#[derive(Debug, Clone, Serialize, Deserialize, PartialEq)]
pub struct BbCell {
    pub col: u32,
    pub style: u32,
    pub rec: BbRec,
}

#[derive(Debug, Clone, Serialize, Deserialize, PartialEq)]
pub struct BbRow {
    pub r: u32,
    /// ignorable records written before the row header: (id, payload length)
    pub before: Vec<(u16, u32)>,
    pub cells: Vec<BbCell>,
}

#[derive(Debug, Clone, Serialize, Deserialize, PartialEq, Default)]
#[serde(default)]
pub struct BbSheet {
    pub name: String,
    pub state: u8,
    /// 0 worksheet, 1 chartsheet, 2 dialogsheet, 3 macrosheet
    pub kind: u8,
    pub rows: Vec<BbRow>,
    /// optional blocks before BrtBeginSheetData: bit 0 BrtWsProp, 1 views block, 2 BrtWsFmtInfo, 3 column infos,
    /// 4 an unknown record before BrtWsDim, 5 an unknown record between BrtWsDim and the data
    pub blocks: u8,
    /// BrtWsDim: 0 exact, 1 all zeros, 2 a larger box
    pub dim: u8,
}

#[derive(Debug, Clone, Serialize, Deserialize, PartialEq, Default)]
#[serde(default)]
pub struct BbSstItem {
    pub text: String,
    /// number of rich-text runs appended after the string
    pub runs: u8,
    /// phonetic string appended after the runs
    pub phonetic: Option<String>,
}

#[derive(Debug, Clone, Serialize, Deserialize, PartialEq, Default)]
#[serde(default)]
pub struct BbStyles {
    /// (ifmt, code, class)
    pub fmts: Vec<(u16, String, u8)>,
    /// font names written between the formats and the XFs
    pub fonts: Vec<String>,
    /// cell style XFs (iFmt), not cell formats
    pub style_xfs: Vec<u16>,
    /// cell XFs: iFmt of each
    pub xfs: Vec<u16>,
}

#[derive(Debug, Clone, Serialize, Deserialize, PartialEq, Default)]
#[serde(default)]
pub struct XlsbDoc {
    pub sheets: Vec<BbSheet>,
    pub sst: Vec<BbSstItem>,
    pub styles: Option<BbStyles>,
    pub date1904: bool,
    /// defined names: (name, rgce)
    pub names: Vec<(String, Vec<u8>)>,
    /// extern sheet table: (first sheet, last sheet)
    pub xtis: Vec<(i32, i32)>,
    /// bit 0 BrtFileVersion, 1 book views, 2 unknown record inside the sheet bundle, 3 BrtCalcProp before BrtEndBook
    pub book_blocks: u8,
    pub vba: Option<Vec<u8>>,
    pub extra_parts: Vec<(String, Vec<u8>)>,
    pub zip: ZipKnobs,
}

fn payload(len: u32, seed: u32) -> Vec<u8> {
    // opaque bytes; deliberately containing values that look like record ids
    (0..len).map(|i| [0x00u8, 0x92, 0x01, 0x07, 0xFF, 0x80, 0x13, 0x05][((i + seed) % 8) as usize]).collect()
}

fn cell_head(col: u32, style: u32) -> Vec<u8> {
    let mut d = Vec::new();
    u32le(&mut d, col);
    // low 24 bits iStyleRef, bit 24 fPhShow
    u32le(&mut d, style & 0x01FF_FFFF);
    d
}

fn formula_tail(rgce: &[u8]) -> Vec<u8> {
    let mut d = Vec::new();
    u16le(&mut d, 0); // grbitFlags
    u32le(&mut d, rgce.len() as u32);
    d.extend_from_slice(rgce);
    u32le(&mut d, 0); // cb (rgcb)
    d
}

pub fn cell_record(c: &BbCell) -> Vec<u8> {
    let mut d = cell_head(c.col, c.style);
    match &c.rec {
        BbRec::Blank => rec(0x01, &d),
        BbRec::Rk(rk) => {
            u32le(&mut d, *rk);
            rec(0x02, &d)
        }
        BbRec::Error(e) => {
            d.push(*e);
            rec(0x03, &d)
        }
        BbRec::Bool(b) => {
            d.push(*b as u8);
            rec(0x04, &d)
        }
        BbRec::Real(v) => {
            d.extend_from_slice(&v.to_le_bytes());
            rec(0x05, &d)
        }
        BbRec::St(s) => {
            d.extend(wide(s));
            rec(0x06, &d)
        }
        BbRec::Isst(i) => {
            u32le(&mut d, *i);
            rec(0x07, &d)
        }
        BbRec::FmlaString(s, rgce) => {
            d.extend(wide(s));
            d.extend(formula_tail(rgce));
            rec(0x08, &d)
        }
        BbRec::FmlaNum(v, rgce) => {
            d.extend_from_slice(&v.to_le_bytes());
            d.extend(formula_tail(rgce));
            rec(0x09, &d)
        }
        BbRec::FmlaBool(b, rgce) => {
            d.push(*b as u8);
            d.extend(formula_tail(rgce));
            rec(0x0A, &d)
        }
        BbRec::FmlaError(e, rgce) => {
            d.push(*e);
            d.extend(formula_tail(rgce));
            rec(0x0B, &d)
        }
        BbRec::Ignorable(id, len) => rec(*id, &payload(*len, c.col)),
    }
}

pub fn sheet_part(s: &BbSheet) -> Vec<u8> {
    let mut out = rec(0x81, &[]); // BrtBeginSheet
    if s.blocks & 1 != 0 {
        let mut d = vec![0xC9, 0x04, 0x02, 0x00, 0x40, 0, 0, 0, 0, 0xFF, 0xFF, 0xFF, 0xFF, 0xFF, 0xFF, 0xFF, 0xFF, 0xFF, 0xFF];
        d.extend(wide(""));
        out.extend(rec(0x93, &d)); // BrtWsProp
    }
    if s.blocks & 16 != 0 {
        out.extend(rec(0x0415, &payload(5, 1)));
    }
    // BrtWsDim
    let cells: Vec<Pos> = s.rows.iter().flat_map(|r| r.cells.iter().filter(|c| !matches!(c.rec, BbRec::Ignorable(..))).map(move |c| (r.r, c.col))).collect();
    let bb = crate::model::value::bbox(cells.iter()).unwrap_or(((0, 0), (0, 0)));
    let bb = match s.dim {
        1 => ((0, 0), (0, 0)),
        2 => ((bb.0 .0.saturating_sub(1), bb.0 .1.saturating_sub(1)), (bb.1 .0 + 2, bb.1 .1 + 1)),
        _ => bb,
    };
    let mut d = Vec::new();
    u32le(&mut d, bb.0 .0);
    u32le(&mut d, bb.1 .0);
    u32le(&mut d, bb.0 .1);
    u32le(&mut d, bb.1 .1);
    out.extend(rec(0x94, &d));
    if s.blocks & 2 != 0 {
        out.extend(rec(0x85, &[])); // BrtBeginWsViews
        out.extend(rec(0x89, &[0xDC, 0x03, 0, 0, 0, 0, 0, 0, 0, 0, 0, 0, 0x40, 0, 0, 0, 0x64, 0, 0, 0, 0, 0, 0, 0, 0, 0, 0, 0, 0, 0])); // BrtBeginWsView
        out.extend(rec(0x8A, &[])); // BrtEndWsView
        out.extend(rec(0x86, &[])); // BrtEndWsViews
    }
    if s.blocks & 4 != 0 {
        out.extend(rec(0x01E5, &[0xFF, 0xFF, 0xFF, 0xFF, 0x08, 0, 0x2C, 0x01, 0, 0, 0, 0])); // BrtWsFmtInfo
    }
    if s.blocks & 8 != 0 {
        out.extend(rec(0x0186, &[])); // BrtBeginColInfos
        out.extend(rec(0x3C, &[0, 0, 0, 0, 2, 0, 0, 0, 0x00, 0x0B, 0, 0, 0, 0, 0, 0, 2, 0]));
        out.extend(rec(0x0187, &[])); // BrtEndColInfos
    }
    if s.blocks & 32 != 0 {
        out.extend(rec(0x0416, &payload(130, 2)));
    }
    out.extend(rec(0x91, &[])); // BrtBeginSheetData
    for row in &s.rows {
        for (id, len) in &row.before {
            out.extend(rec(*id, &payload(*len, row.r)));
        }
        // BrtRowHdr: rw, ixfe, miyRw, flags, ccolspan + colspans
        let mut d = Vec::new();
        u32le(&mut d, row.r);
        u32le(&mut d, 0);
        u16le(&mut d, 0x012C);
        d.extend_from_slice(&[0, 0, 0]);
        u32le(&mut d, 1);
        u32le(&mut d, 0);
        u32le(&mut d, 16383);
        out.extend(rec(0x00, &d));
        for c in &row.cells {
            out.extend(cell_record(c));
        }
    }
    out.extend(rec(0x92, &[])); // BrtEndSheetData
    out.extend(rec(0x82, &[])); // BrtEndSheet
    out
}

pub fn sheet_dir(kind: u8) -> &'static str {
    match kind {
        0 => "worksheets",
        1 => "chartsheets",
        2 => "dialogsheets",
        _ => "macrosheets",
    }
}

pub fn workbook_part(doc: &XlsbDoc) -> Vec<u8> {
    let mut out = rec(0x83, &[]); // BrtBeginBook
    if doc.book_blocks & 1 != 0 {
        // BrtFileVersion: guid + 4 wide strings (ASCII only)
        let mut d = vec![0u8; 16];
        d.extend(wide("xl"));
        d.extend(wide("7"));
        d.extend(wide("7"));
        d.extend(wide("22228"));
        out.extend(rec(0x80, &d));
    }
    let mut d = Vec::new();
    u32le(&mut d, 0x0001_0020 | doc.date1904 as u32); // bit 0 = f1904
    u32le(&mut d, 0x0002_6B42);
    d.extend(wide("ThisWorkbook"));
    out.extend(rec(0x99, &d)); // BrtWbProp
    if doc.book_blocks & 2 != 0 {
        out.extend(rec(0x87, &[])); // BrtBeginBookViews
        out.extend(rec(0x9E, &[0; 29]));
        out.extend(rec(0x88, &[])); // BrtEndBookViews
    }
    out.extend(rec(0x8F, &[])); // BrtBeginBundleShs
    for (i, s) in doc.sheets.iter().enumerate() {
        let mut d = Vec::new();
        u32le(&mut d, s.state as u32);
        u32le(&mut d, i as u32 + 1);
        d.extend(wide(&format!("rId{}", i + 1)));
        d.extend(wide(&s.name));
        out.extend(rec(0x9C, &d));
    }
    out.extend(rec(0x90, &[])); // BrtEndBundleShs
    if !doc.xtis.is_empty() {
        out.extend(rec(0x0161, &[])); // BrtBeginExternals
        out.extend(rec(0x0165, &[])); // BrtSupSelf
        let mut d = Vec::new();
        u32le(&mut d, doc.xtis.len() as u32);
        for (a, b) in &doc.xtis {
            u32le(&mut d, 0);
            d.extend_from_slice(&a.to_le_bytes());
            d.extend_from_slice(&b.to_le_bytes());
        }
        out.extend(rec(0x016A, &d)); // BrtExternSheet
        out.extend(rec(0x0162, &[])); // BrtEndExternals
    }
    for (name, rgce) in &doc.names {
        let mut d = Vec::new();
        u32le(&mut d, 0); // flags
        d.push(0); // chKey
        u32le(&mut d, 0xFFFF_FFFF); // itab: workbook scope
        d.extend(wide(name));
        u32le(&mut d, rgce.len() as u32);
        d.extend_from_slice(rgce);
        u32le(&mut d, 0); // cb
        d.extend_from_slice(&[0xFF, 0xFF, 0xFF, 0xFF]); // comment: null string
        out.extend(rec(0x27, &d));
    }
    if doc.book_blocks & 8 != 0 {
        out.extend(rec(0x9D, &[0x59, 0xE1, 0x02, 0, 0x64, 0, 0, 0, 0xFC, 0xA9, 0xF1, 0xD2, 0x4D, 0x62, 0x50, 0x3F, 0x01, 0, 0, 0, 0x6A, 0])); // BrtCalcProp
    }
    out.extend(rec(0x84, &[])); // BrtEndBook
    out
}

pub fn sst_part(doc: &XlsbDoc, total: u32) -> Vec<u8> {
    let mut d = Vec::new();
    u32le(&mut d, total);
    u32le(&mut d, doc.sst.len() as u32);
    let mut out = rec(0x9F, &d);
    for it in &doc.sst {
        let mut d = Vec::new();
        let flags = (it.runs > 0) as u8 | ((it.phonetic.is_some() as u8) << 1);
        d.push(flags);
        d.extend(wide(&it.text));
        if it.runs > 0 {
            u32le(&mut d, it.runs as u32);
            for k in 0..it.runs {
                u16le(&mut d, k as u16);
                u16le(&mut d, 1);
            }
        }
        if let Some(p) = &it.phonetic {
            d.extend(wide(p));
            u32le(&mut d, 1);
            d.extend_from_slice(&[0, 0, 0, 0, 1, 0]);
        }
        out.extend(rec(0x13, &d));
    }
    out.extend(rec(0xA0, &[]));
    out
}

pub fn styles_part(st: &BbStyles) -> Vec<u8> {
    let mut out = rec(0x0116, &[]); // BrtBeginStyleSheet
    if !st.fmts.is_empty() {
        out.extend(rec(0x0267, &(st.fmts.len() as u32).to_le_bytes()));
        for (id, code, _) in &st.fmts {
            let mut d = Vec::new();
            u16le(&mut d, *id);
            d.extend(wide(code));
            out.extend(rec(0x2C, &d));
        }
        out.extend(rec(0x0268, &[]));
    }
    if !st.fonts.is_empty() {
        out.extend(rec(0x0263, &(st.fonts.len() as u32).to_le_bytes()));
        for f in &st.fonts {
            let mut d = vec![0xDC, 0x00, 0x00, 0x00, 0x90, 0x01, 0x00, 0x00, 0x00, 0x02, 0x00, 0x00, 0x07, 0x01, 0x00, 0x00, 0x00, 0x00, 0x00, 0xFF, 0x02];
            d.extend(wide(f));
            out.extend(rec(0x2B, &d));
        }
        out.extend(rec(0x0264, &[]));
    }
    let xf = |ifmt: u16, parent: u16| {
        let mut d = Vec::new();
        u16le(&mut d, parent);
        u16le(&mut d, ifmt);
        d.extend_from_slice(&[0, 0, 0, 0, 0, 0, 0, 0, 0x10, 0x10, 0, 0]);
        rec(0x2F, &d)
    };
    if !st.style_xfs.is_empty() {
        out.extend(rec(0x0272, &(st.style_xfs.len() as u32).to_le_bytes()));
        for f in &st.style_xfs {
            out.extend(xf(*f, 0xFFFF));
        }
        out.extend(rec(0x0273, &[]));
    }
    out.extend(rec(0x0269, &(st.xfs.len() as u32).to_le_bytes()));
    for f in &st.xfs {
        out.extend(xf(*f, 0));
    }
    out.extend(rec(0x026A, &[]));
    out.extend(rec(0x0117, &[]));
    out
}

pub fn encode(doc: &XlsbDoc) -> Vec<u8> {
    let (parts, knobs) = parts(doc);
    zipw::pack(parts, &knobs)
}

pub fn parts(doc: &XlsbDoc) -> (Vec<(String, Vec<u8>)>, ZipKnobs) {
    let mut parts: Vec<(String, Vec<u8>)> = vec![];
    let ct = "<?xml version=\"1.0\" encoding=\"UTF-8\" standalone=\"yes\"?>\n<Types xmlns=\"http://schemas.openxmlformats.org/package/2006/content-types\"><Default Extension=\"bin\" ContentType=\"application/vnd.ms-excel.sheet.binary.macroEnabled.main\"/><Default Extension=\"rels\" ContentType=\"application/vnd.openxmlformats-package.relationships+xml\"/></Types>";
    parts.push(("[Content_Types].xml".into(), ct.as_bytes().to_vec()));
    parts.push(("xl/workbook.bin".into(), workbook_part(doc)));
    let mut rels = String::from("<?xml version=\"1.0\" encoding=\"UTF-8\" standalone=\"yes\"?>\n<Relationships xmlns=\"http://schemas.openxmlformats.org/package/2006/relationships\">");
    for (i, s) in doc.sheets.iter().enumerate() {
        rels.push_str(&format!(
            "<Relationship Id=\"rId{}\" Type=\"http://schemas.openxmlformats.org/officeDocument/2006/relationships/worksheet\" Target=\"{}/sheet{}.bin\"/>",
            i + 1,
            sheet_dir(s.kind),
            i + 1
        ));
    }
    rels.push_str("</Relationships>");
    parts.push(("xl/_rels/workbook.bin.rels".into(), rels.into_bytes()));
    let total = doc.sheets.iter().flat_map(|s| s.rows.iter()).flat_map(|r| r.cells.iter()).filter(|c| matches!(c.rec, BbRec::Isst(_))).count() as u32;
    if !doc.sst.is_empty() {
        parts.push(("xl/sharedStrings.bin".into(), sst_part(doc, total)));
    }
    if let Some(st) = &doc.styles {
        parts.push(("xl/styles.bin".into(), styles_part(st)));
    }
    for (i, s) in doc.sheets.iter().enumerate() {
        let body = if s.kind == 1 {
            // a chart sheet has no cell data
            let mut b = rec(0x81, &[]);
            b.extend(rec(0x82, &[]));
            b
        } else {
            sheet_part(s)
        };
        parts.push((format!("xl/{}/sheet{}.bin", sheet_dir(s.kind), i + 1), body));
    }
    if let Some(v) = &doc.vba {
        parts.push(("xl/vbaProject.bin".into(), v.clone()));
    }
    for (n, d) in &doc.extra_parts {
        parts.push((n.clone(), d.clone()));
    }
    // part names are looked up with their exact spelling
    let mut knobs = doc.zip.clone();
    knobs.name_case = 0;
    (parts, knobs)
}

// ---------------------------------------------------------------------------------------------
// expected values

pub fn xf_class(doc: &XlsbDoc, style: u32) -> u8 {
    // the cell header holds a 24-bit style index; bit 24 is fPhShow (phonetic text shown), which
    // generators may set: it does not take part in the style lookup
    let style = style & 0x00FF_FFFF;
    match doc.styles.as_ref().and_then(|s| s.xfs.get(style as usize).map(|f| (s, *f))) {
        Some((s, ifmt)) => match crate::enc::xlsx::builtin_class(ifmt as u32) {
            0 => s.fmts.iter().find(|f| f.0 == ifmt).map_or(0, |f| f.2),
            c => c,
        },
        None => 0,
    }
}

fn numeric(doc: &XlsbDoc, style: u32, v: f64) -> Exp {
    match xf_class(doc, style) {
        0 => Exp::Float(v),
        c => Exp::DateTime { v, duration: c == 2, is_1904: doc.date1904 },
    }
}

pub const BERR: [(u8, u8); 8] = crate::enc::biff8::BERR;

pub fn expected_cell(doc: &XlsbDoc, c: &BbCell) -> Option<Exp> {
    let err = |e: u8| Exp::Err(BERR.iter().find(|(code, _)| *code == e).expect("valid BErr").1);
    Some(match &c.rec {
        BbRec::Blank | BbRec::Ignorable(..) => return None,
        BbRec::Rk(rk) => {
            let (v, _) = rk_decode(*rk);
            match (rk & 3, xf_class(doc, c.style)) {
                (2, 0) => Exp::Int(v as i64),
                (3, 0) => Exp::Num(v),
                (_, 0) => Exp::Float(v),
                (_, cl) => Exp::DateTime { v, duration: cl == 2, is_1904: doc.date1904 },
            }
        }
        BbRec::Error(e) | BbRec::FmlaError(e, _) => err(*e),
        BbRec::Bool(b) | BbRec::FmlaBool(b, _) => Exp::Bool(*b),
        BbRec::Real(v) | BbRec::FmlaNum(v, _) => numeric(doc, c.style, *v),
        BbRec::St(s) | BbRec::FmlaString(s, _) => Exp::Str(s.clone()),
        BbRec::Isst(i) => Exp::Str(doc.sst[*i as usize].text.clone()),
    })
}

pub fn expected_values(doc: &XlsbDoc, sheet: usize) -> BTreeMap<Pos, Exp> {
    let mut m = BTreeMap::new();
    for r in &doc.sheets[sheet].rows {
        for c in &r.cells {
            if let Some(e) = expected_cell(doc, c) {
                m.insert((r.r, c.col), e);
            }
        }
    }
    m
}
