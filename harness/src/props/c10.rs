//! C10 — a number is typed DateTime exactly when its cell style is a date/time format.

use crate::enc::xlsx::*;
use crate::engine::{guard, replay_as, Ctx, Report};
use crate::model::numfmt::{self, fmt_strategy, reference_class, Fmt, RefClass};
use crate::props::c01::{enc_strategy, read_and_check};
use crate::props::Prop;
use proptest::prelude::*;
use serde::{Deserialize, Serialize};
use std::collections::BTreeMap;

pub static PROP: Prop = Prop {
    id: "C10",
    run,
    replay,
    rule: "(a) format strings built by a constructive grammar (1-5 sections of typed pieces: placeholders, General, @, quoted/escaped/underscore literals rich in date letters, colours, conditions, locale tags, calendar tokens, AM/PM, elapsed [h]/[mm]/[ss]) whose class is recorded while building, checked through the classifier hook; (b) every string of length <= 5 (quick) / 6 (thorough) over the 14-symbol alphabet {d h m s [ ] \" \\ _ ; 0 A P /} judged by an independent reference tokenizer (ill-formed strings are counted and skipped); (c) every built-in id 0..=400 in both id tables; (d) files: style tables with custom ids in any order, XFs referencing built-in and custom ids, unused XFs, numeric cells in every encoding of the format, both date systems, read through worksheet_range. Non-trivial = the first section has a literal/escape/bracket piece containing a date letter, or >= 2 sections; distinct by format string / serialized case.",
};

// ---------------------------------------------------------------------------------------------
// (a) language through the hook

fn oracle_language(f: &Fmt) -> Report {
    let mut rep = Report::new();
    match guard(|| calamine::verif_hooks::classify_number_format(&f.code)) {
        Ok(c) if c == f.class => {}
        Ok(c) => rep.fail(format!("format {:?} is classified {} (0 other, 1 date/time, 2 elapsed), the grammar says {}", f.code, c, f.class)),
        Err(p) => rep.fail(format!("classifier on {:?}: {p}", f.code)),
    }
    rep.label(match f.class {
        0 => "class:other",
        1 => "class:datetime",
        _ => "class:elapsed",
    });
    rep.label_if(f.tricky, "date-letter-inside-literal-or-bracket");
    rep.label_if(f.sections >= 2, "multi-section");
    rep.nontrivial = f.tricky || f.sections >= 2;
    rep
}

// ---------------------------------------------------------------------------------------------
// (b) exhaustive short strings

const ALPHABET: &[char] = &['d', 'h', 'm', 's', '[', ']', '"', '\\', '_', ';', '0', 'A', 'P', '/'];

#[derive(Debug, Clone, Serialize, Deserialize)]
pub struct Short {
    pub code: String,
}

fn oracle_short(s: &Short) -> Report {
    let mut rep = Report::new();
    match reference_class(&s.code) {
        RefClass::IllFormed => rep.label("ill-formed(not judged)"),
        RefClass::Class(c) => match guard(|| calamine::verif_hooks::classify_number_format(&s.code)) {
            Ok(g) if g == c => rep.nontrivial = true,
            Ok(g) => rep.fail(format!("format {:?} is classified {g}, the reference tokenizer says {c}", s.code)),
            Err(p) => rep.fail(format!("classifier on {:?}: {p}", s.code)),
        },
    }
    rep
}

fn exhaustive_short(ctx: &mut Ctx, max_len: u32) {
    let k = ALPHABET.len() as u64;
    let threads = ctx.threads as u64;
    let results: Vec<(u64, u64, Option<(Short, String)>)> = std::thread::scope(|sc| {
        let hs: Vec<_> = (0..threads)
            .map(|t| {
                sc.spawn(move || {
                    let mut evals = 0u64;
                    let mut judged = 0u64;
                    let mut fail = None;
                    for len in 0..=max_len {
                        let total = k.pow(len);
                        let mut idx = t;
                        while idx < total {
                            let mut x = idx;
                            let mut code = String::with_capacity(len as usize);
                            for _ in 0..len {
                                code.push(ALPHABET[(x % k) as usize]);
                                x /= k;
                            }
                            let s = Short { code };
                            let r = oracle_short(&s);
                            evals += 1;
                            if r.nontrivial {
                                judged += 1;
                            }
                            if let (Some(m), true) = (r.verdict, fail.is_none()) {
                                fail = Some((s, m));
                            }
                            idx += threads;
                        }
                    }
                    (evals, judged, fail)
                })
            })
            .collect();
        hs.into_iter().map(|h| h.join().unwrap()).collect()
    });
    let (mut evals, mut judged, mut fail) = (0, 0, None);
    for (e, j, f) in results {
        evals += e;
        judged += j;
        if fail.is_none() {
            fail = f;
        }
    }
    let mut labels = BTreeMap::new();
    labels.insert("well-formed(judged)".to_string(), judged);
    labels.insert("ill-formed(skipped)".to_string(), evals - judged);
    ctx.record_sweep(
        "short-exhaustive",
        evals,
        judged,
        labels,
        vec![serde_json::json!({"code": "\"d\"[h]"}), serde_json::json!({"code": "_d\\m;s"})],
        true,
        &format!("all strings of length 0..={max_len} over {} symbols; judged = well-formed by the reference tokenizer", ALPHABET.len()),
    );
    if let Some((s, m)) = fail {
        ctx.report_violation("short", &s, &m);
    }
}

// ---------------------------------------------------------------------------------------------
// (c) built-in ids

#[derive(Debug, Clone, Serialize, Deserialize)]
pub struct BuiltinId {
    pub id: u16,
}

fn oracle_builtin(b: &BuiltinId) -> Report {
    let mut rep = Report::new();
    match guard(|| calamine::verif_hooks::builtin_format(b.id)) {
        Ok((by_code, by_text)) => {
            if by_code != by_text {
                rep.fail(format!("built-in id {}: the numeric table says {by_code}, the text table says {by_text} (formats must agree across file formats)", b.id));
            } else if let Some(c) = numfmt::builtin_class(b.id as u32) {
                if c != by_code {
                    rep.fail(format!("built-in id {} is classified {by_code}, expected {c}", b.id));
                }
                rep.nontrivial = true;
            }
        }
        Err(p) => rep.fail(format!("builtin id {}: {p}", b.id)),
    }
    rep
}

fn builtin_sweep(ctx: &mut Ctx) {
    let mut fail = None;
    let mut nt = 0;
    for id in 0..=400u16 {
        let r = oracle_builtin(&BuiltinId { id });
        if r.nontrivial {
            nt += 1;
        }
        if let (Some(m), true) = (r.verdict, fail.is_none()) {
            fail = Some((BuiltinId { id }, m));
        }
    }
    ctx.record_sweep("builtin-ids", 401, nt, BTreeMap::new(), vec![serde_json::json!({"id": 22}), serde_json::json!({"id": 46})], true, "every built-in id 0..=400 in both tables; non-trivial = ids with a locale-independent meaning (0-22, 37-49)");
    if let Some((b, m)) = fail {
        ctx.report_violation("builtin", &b, &m);
    }
}

// ---------------------------------------------------------------------------------------------
// (d) xlsx files

#[derive(Debug, Clone, Serialize, Deserialize)]
pub struct XlsxCase {
    pub doc: XlsxDoc,
}

/// style table: custom formats (ids >= 164 or a reserved user id below, shuffled) + XFs referencing custom and built-in ids
pub fn styles_strategy() -> impl Strategy<Value = XStyles> {
    let builtin = proptest::sample::select(vec![0u32, 1, 2, 9, 10, 11, 13, 14, 15, 16, 17, 18, 19, 20, 21, 22, 37, 40, 44, 45, 46, 47, 48, 49]);
    (proptest::collection::vec(fmt_strategy(), 0..5), proptest::collection::vec(any::<u16>(), 0..5), 0u8..3, any::<bool>(), proptest::collection::vec(prop_oneof![2 => builtin.prop_map(|b| (false, b)), 3 => (0u32..5).prop_map(|k| (true, k))], 1..7), proptest::collection::vec(any::<u8>(), 0..4))
        .prop_map(|(fmts, idkeys, cell_style_xfs, dxf_decoy, xfs, shuffle)| {
            // distinct custom ids, in any order in the file: mostly >= 164, sometimes one of the ids
            // below 164 that the formats reserve for user-defined strings (5-8, 23-26, 41-44, 63-66)
            const LOW: [u32; 16] = [5, 6, 7, 8, 23, 24, 25, 26, 41, 42, 43, 44, 63, 64, 65, 66];
            let mut used = std::collections::BTreeSet::new();
            let mut num_fmts: Vec<(u32, String, u8)> = fmts
                .into_iter()
                .enumerate()
                .map(|(i, f)| {
                    let key = idkeys.get(i).copied().unwrap_or(0);
                    let low = LOW[(key / 4) as usize % 16];
                    let id = if key % 4 == 3 && used.insert(low) { low } else { 164 + i as u32 * 3 + (key % 3) as u32 };
                    (id, f.code, f.class)
                })
                .filter(|(_, code, _)| !code.is_empty())
                .collect();
            let n = num_fmts.len();
            for (i, k) in shuffle.iter().enumerate() {
                if n > 0 {
                    num_fmts.swap(i % n, *k as usize % n);
                }
            }
            let cell_xfs = xfs
                .into_iter()
                .map(|(custom, k)| {
                    if custom && n > 0 {
                        Some(num_fmts[k as usize % n].0)
                    } else if custom {
                        None
                    } else {
                        Some(k)
                    }
                })
                .collect();
            XStyles { num_fmts, cell_xfs, cell_style_xfs, dxf_decoy }
        })
}

pub fn serial_lex() -> impl Strategy<Value = String> {
    prop_oneof![
        3 => (0u32..60000).prop_map(|d| d.to_string()),
        2 => (0u32..60000, 0u32..86400).prop_map(|(d, s)| format!("{}", d as f64 + s as f64 / 86400.0)),
        1 => Just("0.5".to_string()),
        1 => Just("44197".to_string()),
        1 => Just("1.5E+3".to_string()),
        1 => Just("-3".to_string()),
    ]
}

fn xlsx_case_strategy() -> impl Strategy<Value = XlsxCase> {
    (styles_strategy(), proptest::option::weighted(0.7, any::<bool>()), enc_strategy()).prop_flat_map(|(styles, date1904, enc)| {
        let n = styles.cell_xfs.len() as u32;
        let cell = (serial_lex(), 0u8..4, proptest::option::weighted(0.9, 0..n));
        (Just(styles), Just(date1904), Just(enc), proptest::collection::vec(cell, 1..12)).prop_map(|(styles, date1904, enc, cells)| {
            let rows = cells
                .into_iter()
                .enumerate()
                .map(|(i, (lex, form, style))| {
                    let (value, formula) = match form {
                        0 => (XVal::Num { lex, typed: false }, None),
                        1 => (XVal::Num { lex, typed: true }, None),
                        2 => (XVal::Num { lex, typed: false }, Some(XFormula::Plain("A1+1".into()))),
                        _ => (XVal::Num { lex, typed: true }, Some(XFormula::Plain("NOW()".into()))),
                    };
                    XRow { r: i as u32, explicit: true, attrs: false, cells: vec![XCell { col: (i % 3) as u32, explicit: true, style, value, formula }] }
                })
                .collect();
            XlsxCase { doc: XlsxDoc { sheets: vec![XSheet { name: "D".into(), rows, ..Default::default() }], styles: Some(styles), date1904, enc, ..Default::default() } }
        })
    })
}

fn oracle_xlsx(case: &XlsxCase) -> Report {
    let mut rep = Report::new();
    read_and_check(&case.doc, "xlsx", &mut rep);
    let st = case.doc.styles.as_ref().unwrap();
    let mut classes = [false; 3];
    for row in &case.doc.sheets[0].rows {
        for c in &row.cells {
            classes[style_class(&case.doc, c.style) as usize] = true;
        }
    }
    rep.label_if(classes[1], "xlsx:date-styled-cell");
    rep.label_if(classes[2], "xlsx:elapsed-styled-cell");
    rep.label_if(classes[0], "xlsx:plain-number-cell");
    rep.label_if(case.doc.date1904 == Some(true), "xlsx:1904");
    rep.label_if(case.doc.enc.prefix_workbook, "xlsx:prefixed-workbook");
    rep.label_if(st.num_fmts.iter().any(|(_, c, _)| c.contains(['"', '&', '<'])), "xlsx:formatCode-needs-escaping");
    rep.nontrivial = (classes[1] || classes[2]) && classes[0] || st.num_fmts.len() >= 2;
    rep
}

fn run(ctx: &mut Ctx) {
    builtin_sweep(ctx);
    let n = ctx.n(20_000, 1_000_000);
    ctx.run_fast("language", n, fmt_strategy, oracle_language);
    exhaustive_short(ctx, if ctx.quick() { 5 } else { 6 });
    let n = ctx.n(1500, 40_000);
    ctx.run("xlsx", n, xlsx_case_strategy, oracle_xlsx);
    let n = ctx.n(1500, 40_000);
    ctx.run("xls", n, xls_case_strategy, oracle_xls);
    let n = ctx.n(1500, 40_000);
    ctx.run("xlsb", n, xlsb_case_strategy, oracle_xlsb);
    ctx.assumptions.push("grammar: bare letters other than the calendar tokens, AM/PM, A/P and General are not generated (Excel requires them quoted or escaped); `*x` fill is generated only with non-date x; calendar tokens mixed before an elapsed token are not judged; built-in ids 23-36 and >= 50 (locale dependent) are only required to agree between the two id tables".into());
}

fn replay(sub: &str, case: &serde_json::Value) -> Option<Report> {
    match sub {
        "language" => replay_as::<Fmt>(case, oracle_language),
        "short" => replay_as::<Short>(case, oracle_short),
        "builtin" => replay_as::<BuiltinId>(case, oracle_builtin),
        "xlsx" => replay_as::<XlsxCase>(case, oracle_xlsx),
        "xls" => replay_as::<XlsCase>(case, oracle_xls),
        "xlsb" => replay_as::<XlsbCase>(case, oracle_xlsb),
        _ => None,
    }
}

// ---------------------------------------------------------------------------------------------
// (d') xls and xlsb files

use crate::enc::biff8 as b8;
use crate::enc::xlsb as bb;

#[derive(Debug, Clone, Serialize, Deserialize)]
pub struct XlsCase {
    pub doc: b8::XlsDoc,
}

#[derive(Debug, Clone, Serialize, Deserialize)]
pub struct XlsbCase {
    pub doc: bb::XlsbDoc,
}

/// (custom formats with distinct ids >= 164 in file order, xf -> ifmt)
fn format_table() -> impl Strategy<Value = (Vec<(u16, String, u8)>, Vec<u16>)> {
    styles_strategy().prop_map(|st| {
        let fmts: Vec<(u16, String, u8)> = st.num_fmts.iter().map(|(id, code, class)| (*id as u16, code.clone(), *class)).filter(|f| f.1.encode_utf16().count() < 250).collect();
        let xfs: Vec<u16> = st
            .cell_xfs
            .iter()
            .map(|x| match x {
                Some(id) if *id < 164 || fmts.iter().any(|f| f.0 == *id as u16) => *id as u16,
                _ => 0,
            })
            .collect();
        (fmts, xfs)
    })
}

fn serial() -> impl Strategy<Value = f64> {
    prop_oneof![
        3 => (0u32..60000).prop_map(|d| d as f64),
        2 => (0u32..6000000).prop_map(|d| d as f64 / 100.0),
        2 => (0u32..60000, 0u32..86400).prop_map(|(d, s)| d as f64 + s as f64 / 86400.0),
        1 => (0.0f64..60000.0).prop_map(|f| f64::from_bits(f.to_bits() & !0x3_FFFF_FFFF)),
        1 => Just(0.5),
        1 => Just(-3.0),
    ]
}

fn xls_case_strategy() -> impl Strategy<Value = XlsCase> {
    (format_table(), proptest::option::weighted(0.7, any::<bool>()), any::<bool>(), crate::props::c13::layout_strategy()).prop_flat_map(|((fmts, xfs), date1904, wide, cfb)| {
        let n = xfs.len() as u16;
        let cell = (serial(), any::<u8>(), 0..n, 0u8..6);
        (Just((fmts, xfs)), Just(date1904), Just(wide), Just(cfb), proptest::collection::vec(cell, 1..14)).prop_map(|((fmts, xfs), date1904, wide, cfb, cells)| {
            let mut out: Vec<b8::BCell> = vec![];
            for (i, (v, enc, ixfe, form)) in cells.into_iter().enumerate() {
                let encs = b8::rk_encodings(v);
                let k = enc as usize % (encs.len() + 1);
                let rec = match form {
                    0 | 1 | 2 if k > 0 => b8::BRec::Rk(encs[k - 1].1),
                    3 if k > 0 => b8::BRec::MulRk(vec![(ixfe, encs[k - 1].1), ((ixfe + 1) % xfs.len() as u16, encs[k - 1].1)]),
                    4 => b8::BRec::Formula { value: b8::FVal::Num(v), rgce: vec![0x1E, 1, 0] },
                    _ => b8::BRec::Number(v),
                };
                out.push(b8::BCell { row: i as u16, col: (i % 3) as u16, ixfe, rec });
            }
            XlsCase {
                doc: b8::XlsDoc {
                    sheets: vec![b8::BSheet { name: "D".into(), cells: out, dimensions: 1, ..Default::default() }],
                    formats: fmts.into_iter().enumerate().map(|(i, (id, code, class))| (id, code, class, wide ^ (i % 2 == 0))).collect(),
                    xfs,
                    date1904,
                    codepage: Some(1200),
                    cfb,
                    ..Default::default()
                },
            }
        })
    })
}

fn classes_xls(doc: &b8::XlsDoc) -> [bool; 3] {
    let mut c = [false; 3];
    for cell in &doc.sheets[0].cells {
        match &cell.rec {
            b8::BRec::MulRk(v) => {
                for (x, _) in v {
                    c[b8::xf_class(doc, *x) as usize] = true;
                }
            }
            _ => c[b8::xf_class(doc, cell.ixfe) as usize] = true,
        }
    }
    c
}

fn oracle_xls(case: &XlsCase) -> Report {
    let mut rep = Report::new();
    crate::props::c02::read_and_check(&case.doc, "xls", &mut rep);
    let c = classes_xls(&case.doc);
    for cell in &case.doc.sheets[0].cells {
        rep.label(match &cell.rec {
            b8::BRec::Rk(w) => ["xls:RK-float", "xls:RK-float/100", "xls:RK-int", "xls:RK-int/100"][(*w & 3) as usize],
            b8::BRec::MulRk(_) => "xls:MULRK",
            b8::BRec::Formula { .. } => "xls:FORMULA",
            _ => "xls:NUMBER",
        });
    }
    rep.label_if(c[1], "xls:date-styled-cell");
    rep.label_if(c[2], "xls:elapsed-styled-cell");
    rep.label_if(case.doc.date1904 == Some(true), "xls:1904");
    rep.nontrivial = (c[1] || c[2]) && c[0] || case.doc.formats.len() >= 2;
    rep
}

fn xlsb_case_strategy() -> impl Strategy<Value = XlsbCase> {
    let fonts = proptest::collection::vec(prop_oneof![Just("Calibri".to_string()), Just("Arial".to_string()), Just("ӧӫ Sans".to_string()), Just("ＭＳ Ｐゴシック".to_string())], 0..3);
    (format_table(), any::<bool>(), fonts, proptest::collection::vec(proptest::sample::select(vec![0u16, 14, 22]), 0..3)).prop_flat_map(|((fmts, xfs), date1904, fonts, style_xfs)| {
        let n = xfs.len() as u32;
        let cell = (serial(), any::<u8>(), 0..n, 0u8..4);
        (Just((fmts, xfs)), Just(date1904), Just(fonts), Just(style_xfs), proptest::collection::vec(cell, 1..14)).prop_map(|((fmts, xfs), date1904, fonts, style_xfs, cells)| {
            let rows = cells
                .into_iter()
                .enumerate()
                .map(|(i, (v, enc, style, form))| {
                    let encs = b8::rk_encodings(v);
                    let k = enc as usize % (encs.len() + 1);
                    let rec = match form {
                        0 | 1 if k > 0 => bb::BbRec::Rk(encs[k - 1].1),
                        2 => bb::BbRec::FmlaNum(v, vec![0x1E, 1, 0]),
                        _ => bb::BbRec::Real(v),
                    };
                    bb::BbRow { r: i as u32, before: vec![], cells: vec![bb::BbCell { col: (i % 3) as u32, style: style | if enc & 0x40 != 0 { 1 << 24 } else { 0 }, rec }] }
                })
                .collect();
            XlsbCase { doc: bb::XlsbDoc { sheets: vec![bb::BbSheet { name: "D".into(), rows, ..Default::default() }], styles: Some(bb::BbStyles { fmts, fonts, style_xfs, xfs }), date1904, ..Default::default() } }
        })
    })
}

fn oracle_xlsb(case: &XlsbCase) -> Report {
    let mut rep = Report::new();
    crate::props::c03::read_and_check(&case.doc, "xlsb", &mut rep);
    let mut c = [false; 3];
    for r in &case.doc.sheets[0].rows {
        for cell in &r.cells {
            c[bb::xf_class(&case.doc, cell.style) as usize] = true;
            rep.label(match &cell.rec {
                bb::BbRec::Rk(w) => ["xlsb:RK-float", "xlsb:RK-float/100", "xlsb:RK-int", "xlsb:RK-int/100"][(*w & 3) as usize],
                bb::BbRec::FmlaNum(..) => "xlsb:BrtFmlaNum",
                _ => "xlsb:BrtCellReal",
            });
        }
    }
    let st = case.doc.styles.as_ref().unwrap();
    rep.label_if(c[1], "xlsb:date-styled-cell");
    rep.label_if(c[2], "xlsb:elapsed-styled-cell");
    rep.label_if(case.doc.date1904, "xlsb:1904");
    rep.label_if(!st.fonts.is_empty(), "xlsb:fonts-between-formats-and-xfs");
    rep.label_if(st.fmts.is_empty(), "xlsb:no-custom-formats");
    rep.nontrivial = (c[1] || c[2]) && c[0] || st.fmts.len() >= 2;
    rep
}
