//! Seeded multi-threaded proptest driver, replay, known-findings plumbing, evidence writer.
//!
//! A *property* (C01..C20) consists of one or more *sub-checks*. A sub-check is a proptest
//! strategy plus an oracle `Fn(&Case) -> Report`. The engine runs a fixed number of cases per
//! sub-check, partitioned statically over worker threads (so the outcome is a pure function of
//! tree, seed and tier), lets proptest shrink the first failure per thread, writes the shrunk
//! case as a replay file and prints `VIOLATION property=<id> replay=<path>`.

use proptest::strategy::{Strategy, ValueTree};
use proptest::test_runner::{Config, RngAlgorithm, RngSeed, TestCaseError, TestError, TestRng, TestRunner};
use serde::de::DeserializeOwned;
use serde::Serialize;
use std::cell::RefCell;
use std::collections::{BTreeMap, BTreeSet};
use std::fmt::Debug;
use std::hash::{Hash, Hasher};
use std::panic::{catch_unwind, AssertUnwindSafe};
use std::path::PathBuf;
use std::sync::Mutex;
use std::time::Instant;

pub const VERIF_ROOT: &str = "/verif";

// ---------------------------------------------------------------------------------------------
// panic capture

thread_local! {
    static LAST_PANIC: RefCell<Option<String>> = const { RefCell::new(None) };
    static WANT_BACKTRACE: std::cell::Cell<bool> = const { std::cell::Cell::new(false) };
    static LAST_FUNC: RefCell<Option<String>> = const { RefCell::new(None) };
}

/// innermost `calamine::` function of a captured backtrace (stable under line shifts)
pub fn innermost_calamine_frame(bt: &str) -> Option<String> {
    // frames look like
    //    4: decompress_stream
    //              at /repo/src/cfb.rs:367:9
    // (with line-tables-only debug info the names carry no module path, so the file is part of the
    // signature; the line is not)
    let mut name: Option<String> = None;
    for line in bt.lines() {
        let t = line.trim_start();
        if let Some(rest) = t.strip_prefix("at ") {
            if let (Some(n), Some(pos)) = (&name, rest.find("/repo/src/")) {
                let file = rest[pos + "/repo/".len()..].split(':').next().unwrap_or("");
                if !file.ends_with("verif_hooks.rs") {
                    return Some(format!("{n}@{file}"));
                }
            }
            continue;
        }
        if let Some((n, sym)) = t.split_once(": ") {
            if n.chars().all(|c| c.is_ascii_digit()) {
                // drop generic arguments
                let mut out = String::new();
                let mut depth = 0i32;
                for c in sym.trim().chars() {
                    match c {
                        '<' => depth += 1,
                        '>' => depth -= 1,
                        c if depth <= 0 => out.push(c),
                        _ => {}
                    }
                }
                name = Some(out.rsplit("::").next().unwrap_or("").to_string()).filter(|s| !s.is_empty()).or(Some(out));
            }
        }
    }
    None
}

/// "src/x.rs: <trimmed text of the line>" for a location inside /repo/src
fn source_line(loc: &str) -> Option<String> {
    let mut it = loc.rsplitn(2, ':');
    let line: usize = it.next()?.parse().ok()?;
    let file = it.next()?;
    let pos = file.find("/repo/src/")?;
    let text = std::fs::read_to_string(file).ok()?;
    let l = text.lines().nth(line.checked_sub(1)?)?.trim();
    Some(format!("{}: {}", &file[pos + "/repo/".len()..], l))
}

#[derive(Debug, Clone)]
pub struct PanicSig {
    /// message with every run of digits replaced by N
    pub class: String,
    pub message: String,
    /// innermost calamine function, or the panic location when no calamine frame is on the stack
    pub func: String,
}

/// like `guard`, but a panic is returned with its signature (message class + innermost calamine function)
pub fn guard_sig<T>(f: impl FnOnce() -> T) -> Result<T, PanicSig> {
    WANT_BACKTRACE.with(|w| w.set(true));
    let r = catch_unwind(AssertUnwindSafe(f));
    WANT_BACKTRACE.with(|w| w.set(false));
    match r {
        Ok(v) => Ok(v),
        Err(_) => {
            let message = LAST_PANIC.with(|p| p.borrow_mut().take()).unwrap_or_else(|| "<unknown panic>".into());
            let frame = LAST_FUNC.with(|p| p.borrow_mut().take()).unwrap_or_else(|| "<no calamine frame>".into());
            let (msg_only, loc) = message.rsplit_once(" @ ").unwrap_or((&message, ""));
            // signature: the text of the source line that panics (stable under line shifts, and a
            // removed check makes another line panic); panics raised inside a dependency fall back
            // to the innermost calamine frame
            let func = match source_line(loc) {
                Some(text) => text,
                None => frame,
            };
            let mut class = String::new();
            let mut in_digits = false;
            for c in msg_only.chars() {
                if c.is_ascii_digit() {
                    if !in_digits {
                        class.push('N');
                    }
                    in_digits = true;
                } else {
                    in_digits = false;
                    class.push(c);
                }
            }
            Err(PanicSig { class, message, func })
        }
    }
}

/// Install a panic hook that stays quiet and remembers message + location for `guard`.
pub fn install_panic_hook() {
    std::panic::set_hook(Box::new(|info| {
        let msg = if let Some(s) = info.payload().downcast_ref::<&str>() {
            s.to_string()
        } else if let Some(s) = info.payload().downcast_ref::<String>() {
            s.clone()
        } else {
            "<non-string panic>".to_string()
        };
        let loc = info
            .location()
            .map(|l| format!("{}:{}", l.file(), l.line()))
            .unwrap_or_default();
        LAST_PANIC.with(|p| *p.borrow_mut() = Some(format!("{msg} @ {loc}")));
        if WANT_BACKTRACE.with(|w| w.get()) {
            let bt = std::backtrace::Backtrace::force_capture().to_string();
            LAST_FUNC.with(|p| *p.borrow_mut() = innermost_calamine_frame(&bt));
        }
    }));
}

/// Run `f`, turning a panic into `Err("panic: <message> @ <file:line>")`.
pub fn guard<T>(f: impl FnOnce() -> T) -> Result<T, String> {
    match catch_unwind(AssertUnwindSafe(f)) {
        Ok(v) => Ok(v),
        Err(_) => {
            let m = LAST_PANIC.with(|p| p.borrow_mut().take()).unwrap_or_else(|| "<unknown panic>".into());
            Err(format!("panic: {m}"))
        }
    }
}

// ---------------------------------------------------------------------------------------------
// crash / hang isolation support (child side)
//
// The check runs as a child of a small supervisor (see main.rs). Before every case a worker
// thread writes the case into its own slot file, and stamps the start time; a watchdog thread
// aborts the process when a single case runs absurdly long. If the child dies (abort on
// allocation failure, stack overflow, watchdog), the supervisor re-runs the slot cases one by
// one in fresh processes to find the culprit and reports it as a violation with a replay file.

pub const MAX_THREADS: usize = 64;
static CASE_START_MS: [std::sync::atomic::AtomicU64; MAX_THREADS] = [const { std::sync::atomic::AtomicU64::new(0) }; MAX_THREADS];
static PROCESS_START: std::sync::OnceLock<Instant> = std::sync::OnceLock::new();

fn now_ms() -> u64 {
    PROCESS_START.get_or_init(Instant::now).elapsed().as_millis() as u64 + 1
}

pub fn slot_dir() -> Option<PathBuf> {
    std::env::var_os("CVERIF_SLOTS").map(PathBuf::from)
}

pub fn start_hang_watchdog() {
    let limit_ms: u64 = std::env::var("CVERIF_HANG_MS").ok().and_then(|s| s.parse().ok()).unwrap_or(120_000);
    let _ = now_ms();
    std::thread::spawn(move || loop {
        std::thread::sleep(std::time::Duration::from_millis(500));
        let now = now_ms();
        for (t, slot) in CASE_START_MS.iter().enumerate() {
            let s = slot.load(std::sync::atomic::Ordering::Relaxed);
            if s != 0 && now.saturating_sub(s) > limit_ms {
                eprintln!("watchdog: the case running on worker {t} has not finished after {} ms; aborting so that the supervisor can isolate it", now - s);
                std::process::abort();
            }
        }
    });
}

struct Slot {
    file: Option<std::fs::File>,
    buf: Vec<u8>,
    thread: usize,
}

impl Slot {
    fn open(property: &str, sub: &str, thread: usize) -> Slot {
        let file = slot_dir().and_then(|d| std::fs::OpenOptions::new().create(true).write(true).truncate(true).open(d.join(format!("slot-{property}-{sub}-{thread}.json"))).ok());
        Slot { file, buf: Vec::with_capacity(4096), thread }
    }
    fn begin<T: Serialize>(&mut self, property: &str, sub: &str, case: &T) {
        if let Some(f) = &self.file {
            use std::os::unix::fs::FileExt;
            self.buf.clear();
            self.buf.extend_from_slice(format!("{{\"property\":{:?},\"sub\":{:?},\"message\":\"case in flight when the process died\",\"case\":", property, sub).as_bytes());
            let _ = serde_json::to_writer(&mut self.buf, case);
            self.buf.push(b'}');
            let _ = f.write_all_at(&self.buf, 0);
            let _ = f.set_len(self.buf.len() as u64);
        }
        CASE_START_MS[self.thread % MAX_THREADS].store(now_ms(), std::sync::atomic::Ordering::Relaxed);
    }
    fn end(&mut self) {
        CASE_START_MS[self.thread % MAX_THREADS].store(0, std::sync::atomic::Ordering::Relaxed);
    }
}

// ---------------------------------------------------------------------------------------------
// per-case report

#[derive(Debug, Default, Clone)]
pub struct Report {
    pub labels: Vec<String>,
    pub nontrivial: bool,
    /// Err(message) = the oracle rejected what calamine returned
    pub verdict: Option<String>,
    /// cases skipped because they fall in the feature class of a recorded known finding
    pub excluded: Option<String>,
}

impl Report {
    pub fn new() -> Self {
        Self::default()
    }
    pub fn label(&mut self, l: impl Into<String>) {
        let l = l.into();
        if !self.labels.contains(&l) {
            self.labels.push(l);
        }
    }
    pub fn label_if(&mut self, c: bool, l: &str) {
        if c {
            self.label(l)
        }
    }
    pub fn fail(&mut self, m: impl Into<String>) {
        if self.verdict.is_none() {
            self.verdict = Some(m.into());
        }
    }
    pub fn failed(&self) -> bool {
        self.verdict.is_some()
    }
    /// `check!`-like helper
    pub fn ensure(&mut self, c: bool, m: impl FnOnce() -> String) -> bool {
        if !c {
            self.fail(m());
        }
        c
    }
}

// ---------------------------------------------------------------------------------------------
// known findings

#[derive(Debug, Clone, serde::Deserialize)]
pub struct Finding {
    pub property: String,
    pub id: String,
    /// "known" or "fixed"
    pub status: String,
    pub what: String,
    #[serde(default)]
    pub witness: Option<String>,
    /// substring the witness failure message must contain to count as *this* finding
    #[serde(default)]
    pub expect: Option<String>,
    #[serde(default)]
    pub commit: Option<String>,
    /// C06 allow-list: innermost calamine function of the tolerated panic ("memory" for a memory finding)
    #[serde(default)]
    pub sig_func: Option<String>,
    /// C06 allow-list: substring of the normalised panic message
    #[serde(default)]
    pub sig_class: Option<String>,
}

#[derive(Debug, Clone, serde::Deserialize, Default)]
pub struct Findings {
    #[serde(default)]
    pub findings: Vec<Finding>,
}

impl Findings {
    pub fn load() -> Findings {
        let p = format!("{VERIF_ROOT}/known_findings.json");
        match std::fs::read_to_string(&p) {
            Ok(s) => serde_json::from_str(&s).unwrap_or_else(|e| {
                eprintln!("cannot parse {p}: {e}");
                std::process::exit(2)
            }),
            Err(_) => Findings::default(),
        }
    }
    /// process-wide copy (oracles consult it to exclude the feature class of a recorded finding)
    pub fn load_cached() -> &'static Findings {
        static F: std::sync::OnceLock<Findings> = std::sync::OnceLock::new();
        F.get_or_init(Findings::load)
    }
    /// true when the finding `id` is recorded as still present (so its class is excluded
    /// from the main search and only its pinned witness is replayed)
    pub fn active(&self, id: &str) -> bool {
        self.findings.iter().any(|f| f.id == id && f.status == "known")
    }
}

// ---------------------------------------------------------------------------------------------
// context

#[derive(Clone, Copy, PartialEq, Eq, Debug)]
pub enum Tier {
    Quick,
    Thorough,
}

#[derive(Default)]
pub struct SubStats {
    pub evaluations: u64,
    pub nontrivial: u64,
    pub distinct_nontrivial: u64,
    pub excluded: BTreeMap<String, u64>,
    pub labels: BTreeMap<String, u64>,
    pub samples: Vec<serde_json::Value>,
    pub exhaustive: bool,
    pub note: String,
}

pub struct Violation {
    pub sub: String,
    pub message: String,
    pub replay: String,
}

pub struct Ctx {
    pub property: String,
    pub tier: Tier,
    pub seed: u64,
    pub threads: usize,
    pub findings: Findings,
    pub started: Instant,
    pub subs: BTreeMap<String, SubStats>,
    pub violations: Vec<Violation>,
    pub known_hits: Vec<String>,
    pub rule: String,
    pub assumptions: Vec<String>,
    /// scale factor for case counts (VERIF_SCALE, default 1.0) — for experiments only
    pub scale: f64,
    /// write every case to a slot file before running it (crash isolation)
    pub isolate: bool,
    pub max_shrink_iters: u32,
}

fn mix(a: u64, b: u64) -> u64 {
    // splitmix64 step
    let mut z = a ^ b.wrapping_mul(0x9E37_79B9_7F4A_7C15);
    z = z.wrapping_add(0x9E37_79B9_7F4A_7C15);
    z = (z ^ (z >> 30)).wrapping_mul(0xBF58_476D_1CE4_E5B9);
    z = (z ^ (z >> 27)).wrapping_mul(0x94D0_49BB_1331_11EB);
    z ^ (z >> 31)
}

pub fn hash_str(s: &str) -> u64 {
    let mut h = std::collections::hash_map::DefaultHasher::new();
    s.hash(&mut h);
    h.finish()
}

pub fn rng_from(seed: u64) -> TestRng {
    let mut bytes = [0u8; 32];
    let mut s = seed;
    for c in bytes.chunks_mut(8) {
        s = mix(s, 0x1234_5678);
        c.copy_from_slice(&s.to_le_bytes());
    }
    TestRng::from_seed(RngAlgorithm::ChaCha, &bytes)
}

struct ThreadOut<T> {
    evaluations: u64,
    nontrivial: u64,
    fingerprints: BTreeSet<u64>,
    labels: BTreeMap<String, u64>,
    excluded: BTreeMap<String, u64>,
    samples: Vec<serde_json::Value>,
    failure: Option<(T, String)>,
}

fn truncate_json(v: serde_json::Value, budget: usize) -> serde_json::Value {
    let s = v.to_string();
    if s.len() <= budget {
        v
    } else {
        let mut cut = budget;
        while !s.is_char_boundary(cut) {
            cut -= 1;
        }
        serde_json::Value::String(format!("{}… ({} bytes of JSON)", &s[..cut], s.len()))
    }
}

pub const QUICK_BOOST: u32 = 8;
pub const THOROUGH_BOOST: u32 = 8;

impl Ctx {
    pub fn new(property: &str, tier: Tier, seed: u64) -> Ctx {
        let threads = std::env::var("VERIF_THREADS")
            .ok()
            .and_then(|s| s.parse().ok())
            .unwrap_or(16usize)
            .max(1);
        let scale = std::env::var("VERIF_SCALE").ok().and_then(|s| s.parse().ok()).unwrap_or(1.0);
        Ctx {
            property: property.to_string(),
            tier,
            seed,
            threads,
            findings: Findings::load(),
            started: Instant::now(),
            subs: BTreeMap::new(),
            violations: Vec::new(),
            known_hits: Vec::new(),
            rule: String::new(),
            assumptions: Vec::new(),
            scale,
            isolate: true,
            max_shrink_iters: 4000,
        }
    }

    pub fn quick(&self) -> bool {
        self.tier == Tier::Quick
    }

    /// choose a case count by tier
    pub fn n(&self, quick: u32, thorough: u32) -> u32 {
        // the quick tier runs QUICK_BOOST times the per-property base count: still seconds per
        // property on 16 threads, and fixed work (no time quota)
        // (the thorough tier likewise runs THOROUGH_BOOST times the per-property thorough base count)
        let n = if self.quick() { quick.saturating_mul(QUICK_BOOST).min(thorough) } else { thorough.saturating_mul(THOROUGH_BOOST) };
        ((n as f64 * self.scale) as u32).max(1)
    }

    /// Run `cases` generated cases of `strategy()` through `oracle`.
    /// like `run`, without the per-case slot file (for checks of pure in-memory functions whose
    /// cases cost far less than a file write and cannot exhaust memory or hang)
    pub fn run_fast<T, S, F>(&mut self, sub: &str, cases: u32, strategy: impl Fn() -> S + Sync, oracle: F)
    where
        T: Debug + Clone + Serialize + DeserializeOwned + Send,
        S: Strategy<Value = T>,
        F: Fn(&T) -> Report + Sync,
    {
        self.isolate = false;
        self.run(sub, cases, strategy, oracle);
        self.isolate = true;
    }

    pub fn run<T, S, F>(&mut self, sub: &str, cases: u32, strategy: impl Fn() -> S + Sync, oracle: F)
    where
        T: Debug + Clone + Serialize + DeserializeOwned + Send,
        S: Strategy<Value = T>,
        F: Fn(&T) -> Report + Sync,
    {
        let threads = self.threads.min(cases.max(1) as usize);
        let base = mix(mix(self.seed, hash_str(&self.property)), hash_str(sub));
        let per = cases as usize / threads;
        let extra = cases as usize % threads;
        let outs: Mutex<Vec<(usize, ThreadOut<T>)>> = Mutex::new(Vec::new());
        let isolate = self.isolate;
        let max_shrink = self.max_shrink_iters;
        let property: &str = &self.property.clone();
        std::thread::scope(|sc| {
            for t in 0..threads {
                let n = per + usize::from(t < extra);
                let strategy = &strategy;
                let oracle = &oracle;
                let outs = &outs;
                let builder = std::thread::Builder::new().stack_size(64 << 20);
                builder
                    .spawn_scoped(sc, move || {
                        let slot = if isolate { Slot::open(property, sub, t) } else { Slot { file: None, buf: Vec::new(), thread: t } };
                        let out = run_thread(n as u32, mix(base, t as u64), strategy(), oracle, slot, property, sub, max_shrink);
                        outs.lock().unwrap().push((t, out));
                    })
                    .expect("spawn");
            }
        });
        let mut outs = outs.into_inner().unwrap();
        outs.sort_by_key(|(t, _)| *t);
        let st = self.subs.entry(sub.to_string()).or_default();
        let mut fps = BTreeSet::new();
        let mut failures = Vec::new();
        for (_, o) in outs {
            st.evaluations += o.evaluations;
            st.nontrivial += o.nontrivial;
            fps.extend(o.fingerprints);
            for (k, v) in o.labels {
                *st.labels.entry(k).or_default() += v;
            }
            for (k, v) in o.excluded {
                *st.excluded.entry(k).or_default() += v;
            }
            for s in o.samples {
                if st.samples.len() < 3 {
                    st.samples.push(s);
                }
            }
            if let Some(f) = o.failure {
                failures.push(f);
            }
        }
        st.distinct_nontrivial += fps.len() as u64;
        // keep the smallest failure (by JSON length) as the representative; report it once
        failures.sort_by_key(|(c, _)| serde_json::to_string(c).map(|s| s.len()).unwrap_or(usize::MAX));
        if let Some((case, msg)) = failures.into_iter().next() {
            self.report_violation(sub, &case, &msg);
        }
    }

    /// Record a violation found outside proptest (exhaustive sweeps): `case` must be replayable
    /// by the same sub-check name.
    pub fn report_violation<T: Serialize>(&mut self, sub: &str, case: &T, msg: &str) {
        let case_json = serde_json::to_value(case).unwrap_or(serde_json::Value::Null);
        let body = serde_json::json!({
            "property": self.property,
            "sub": sub,
            "message": msg,
            "case": case_json,
        });
        let text = serde_json::to_string_pretty(&body).unwrap();
        let dir = format!("{VERIF_ROOT}/replays/{}", self.property);
        let _ = std::fs::create_dir_all(&dir);
        let path = format!("{dir}/{sub}-{:016x}.json", hash_str(&case_json.to_string()));
        let _ = std::fs::write(&path, text);
        println!("VIOLATION property={} replay={}", self.property, path);
        println!("  sub-check: {sub}");
        let mut m = msg.to_string();
        if m.len() > 2000 {
            let mut cut = 2000;
            while !m.is_char_boundary(cut) {
                cut -= 1;
            }
            m.truncate(cut);
            m.push('…');
        }
        println!("  {m}");
        self.violations.push(Violation { sub: sub.to_string(), message: msg.to_string(), replay: path });
    }

    /// Account for an exhaustive / hand-rolled sweep.
    pub fn record_sweep(
        &mut self,
        sub: &str,
        evaluations: u64,
        distinct_nontrivial: u64,
        labels: BTreeMap<String, u64>,
        samples: Vec<serde_json::Value>,
        exhaustive: bool,
        note: &str,
    ) {
        let st = self.subs.entry(sub.to_string()).or_default();
        st.evaluations += evaluations;
        st.nontrivial += distinct_nontrivial;
        st.distinct_nontrivial += distinct_nontrivial;
        for (k, v) in labels {
            *st.labels.entry(k).or_default() += v;
        }
        for s in samples {
            if st.samples.len() < 4 {
                st.samples.push(s);
            }
        }
        st.exhaustive = exhaustive;
        st.note = note.to_string();
    }

    /// Replay pinned witnesses of known findings and previously saved replays for this property.
    /// `replay_one(sub, case_json) -> Option<Report>`; None = unknown sub-check.
    pub fn replay_tier(&mut self, replay_one: &dyn Fn(&str, &serde_json::Value) -> Option<Report>) {
        // 1. known findings
        let fs: Vec<Finding> = self.findings.findings.iter().filter(|f| f.property == self.property).cloned().collect();
        let mut witness_paths = BTreeSet::new();
        for f in fs {
            let Some(w) = &f.witness else { continue };
            let path = format!("{VERIF_ROOT}/{w}");
            witness_paths.insert(PathBuf::from(&path));
            let Some((sub, case)) = load_replay(&path) else {
                eprintln!("warning: cannot load witness {path}");
                continue;
            };
            let Some(rep) = replay_one(&sub, &case) else {
                eprintln!("warning: witness {path} names unknown sub-check {sub}");
                continue;
            };
            self.subs.entry("replay-tier".into()).or_default().evaluations += 1;
            match (&rep.verdict, f.status.as_str()) {
                (Some(msg), "known") => {
                    let same = f.expect.as_ref().map_or(true, |e| msg.contains(e.as_str()));
                    if same {
                        println!("KNOWN-FINDING: property={} {}: {}", self.property, f.id, f.what);
                        self.known_hits.push(f.id.clone());
                    } else {
                        println!("VIOLATION property={} replay={}", self.property, path);
                        println!("  witness of known finding {} now fails differently: {}", f.id, msg);
                        self.violations.push(Violation { sub, message: msg.clone(), replay: path });
                    }
                }
                (Some(msg), _) => {
                    // a fixed finding suppresses nothing
                    println!("VIOLATION property={} replay={}", self.property, path);
                    println!("  finding {} recorded as fixed fails again: {}", f.id, msg);
                    self.violations.push(Violation { sub, message: msg.clone(), replay: path });
                }
                (None, _) => {}
            }
        }
        // 2. regression replays (saved shrunk failures); kf-* are witnesses handled above
        let dir = format!("{VERIF_ROOT}/replays/{}", self.property);
        let mut n = 0u64;
        if let Ok(rd) = std::fs::read_dir(&dir) {
            let mut paths: Vec<_> = rd.filter_map(|e| e.ok()).map(|e| e.path()).collect();
            paths.sort();
            for p in paths {
                if witness_paths.contains(&p) || p.extension().map_or(true, |e| e != "json") {
                    continue;
                }
                let ps = p.to_string_lossy().to_string();
                let Some((sub, case)) = load_replay(&ps) else { continue };
                let Some(rep) = replay_one(&sub, &case) else { continue };
                n += 1;
                if let Some(msg) = rep.verdict {
                    println!("VIOLATION property={} replay={}", self.property, ps);
                    println!("  saved replay still fails: {msg}");
                    self.violations.push(Violation { sub, message: msg, replay: ps });
                }
            }
        }
        if n > 0 {
            let st = self.subs.entry("replay-tier".into()).or_default();
            st.evaluations += n;
        }
    }

    pub fn finish(self, level_rule: &str) -> i32 {
        let wall = self.started.elapsed().as_secs_f64();
        let mut evaluations = 0u64;
        let mut distinct = 0u64;
        let mut labels = serde_json::Map::new();
        let mut samples = Vec::new();
        let mut subs = serde_json::Map::new();
        let mut all_exhaustive = !self.subs.is_empty();
        for (name, st) in &self.subs {
            evaluations += st.evaluations;
            distinct += st.distinct_nontrivial;
            if name != "replay-tier" {
                all_exhaustive &= st.exhaustive;
            }
            for (k, v) in &st.labels {
                labels.insert(format!("{name}/{k}"), (*v).into());
            }
            for s in &st.samples {
                samples.push(serde_json::json!({ "sub": name, "case": s }));
            }
            subs.insert(
                name.clone(),
                serde_json::json!({
                    "evaluations": st.evaluations,
                    "nontrivial": st.nontrivial,
                    "distinct_nontrivial": st.distinct_nontrivial,
                    "excluded_known_finding_classes": st.excluded,
                    "exhaustive": st.exhaustive,
                    "note": st.note,
                }),
            );
        }
        let ev = serde_json::json!({
            "property_id": self.property,
            "tier": if self.tier == Tier::Quick { "quick" } else { "thorough" },
            "seed": self.seed,
            "level": "exploration",
            "coverage": {
                "evaluations": evaluations,
                "distinct_nontrivial": distinct,
                "rule": if self.rule.is_empty() { level_rule.to_string() } else { self.rule.clone() },
                "samples": samples,
                "exhaustive": all_exhaustive,
                "sub_checks": subs,
                "label_histogram": labels,
                "known_findings_reproduced": self.known_hits,
                "threads": self.threads,
            },
            "assumptions": self.assumptions,
            "wall_s": (wall * 1000.0).round() / 1000.0,
            "violations": self.violations.len(),
        });
        let dir = format!("{VERIF_ROOT}/evidence");
        let _ = std::fs::create_dir_all(&dir);
        let path = format!("{dir}/{}.json", self.property);
        if let Err(e) = std::fs::write(&path, serde_json::to_string_pretty(&ev).unwrap()) {
            eprintln!("cannot write evidence {path}: {e}");
            return 2;
        }
        println!(
            "{} {:?} seed={} evaluations={} distinct_nontrivial={} violations={} known={} wall={:.1}s",
            self.property,
            self.tier,
            self.seed,
            evaluations,
            distinct,
            self.violations.len(),
            self.known_hits.len(),
            wall
        );
        if self.violations.is_empty() {
            0
        } else {
            1
        }
    }
}

pub fn load_replay(path: &str) -> Option<(String, serde_json::Value)> {
    let s = std::fs::read_to_string(path).ok()?;
    let v: serde_json::Value = serde_json::from_str(&s).ok()?;
    let sub = v.get("sub")?.as_str()?.to_string();
    let case = v.get("case")?.clone();
    Some((sub, case))
}

fn run_thread<T, S, F>(cases: u32, seed: u64, strategy: S, oracle: &F, slot: Slot, property: &str, sub: &str, max_shrink: u32) -> ThreadOut<T>
where
    T: Debug + Clone + Serialize,
    S: Strategy<Value = T>,
    F: Fn(&T) -> Report,
{
    let mut out = ThreadOut {
        evaluations: 0,
        nontrivial: 0,
        fingerprints: BTreeSet::new(),
        labels: BTreeMap::new(),
        excluded: BTreeMap::new(),
        samples: Vec::new(),
        failure: None,
    };
    if cases == 0 {
        return out;
    }
    let config = Config {
        cases,
        failure_persistence: None,
        max_shrink_iters: max_shrink,
        max_global_rejects: 1 << 20,
        rng_seed: RngSeed::Fixed(seed),
        ..Config::default()
    };
    let mut runner = TestRunner::new_with_rng(config, rng_from(seed));
    let failed = std::cell::Cell::new(false);
    let acc = RefCell::new(&mut out);
    let slot = RefCell::new(slot);
    let res = runner.run(&strategy, |case| {
        slot.borrow_mut().begin(property, sub, &case);
        let guarded = guard(|| oracle(&case));
        slot.borrow_mut().end();
        let rep = match guarded {
            Ok(r) => r,
            Err(p) => {
                let mut r = Report::new();
                // a panic located in the harness's own sources is a harness defect (exit 2), never a verdict
                if p.contains("@ src/") {
                    r.fail(format!("HARNESS-SELF-CHECK: the harness itself panicked: {p}"));
                } else {
                    r.fail(format!("harness oracle panicked (outside a calamine guard): {p}"));
                }
                r
            }
        };
        if !failed.get() {
            let mut o = acc.borrow_mut();
            o.evaluations += 1;
            if let Some(x) = &rep.excluded {
                *o.excluded.entry(x.clone()).or_default() += 1;
            }
            for l in &rep.labels {
                *o.labels.entry(l.clone()).or_default() += 1;
            }
            if rep.nontrivial {
                o.nontrivial += 1;
                let js = serde_json::to_string(&case).unwrap_or_default();
                o.fingerprints.insert(hash_str(&js));
                if o.samples.len() < 2 {
                    let v = serde_json::to_value(&case).unwrap_or(serde_json::Value::Null);
                    o.samples.push(truncate_json(v, 1500));
                }
            }
        }
        match rep.verdict {
            None => Ok(()),
            Some(m) => {
                if m.contains("HARNESS-SELF-CHECK") {
                    // a defect of the harness itself: inconclusive, never a violation
                    eprintln!("{m}\ncase: {}", serde_json::to_string(&case).unwrap_or_default().chars().take(2000).collect::<String>());
                    std::process::exit(2);
                }
                failed.set(true);
                Err(TestCaseError::fail(m))
            }
        }
    });
    drop(acc);
    match res {
        Ok(()) => {}
        Err(TestError::Fail(reason, value)) => {
            out.failure = Some((value, reason.message().to_string()));
        }
        Err(TestError::Abort(reason)) => {
            eprintln!("proptest aborted (generator problem, not a violation): {}", reason.message());
            std::process::exit(2);
        }
    }
    out
}

/// Generate one value of a strategy from a seed (used for corpus generation and samples).
pub fn sample_one<S: Strategy>(strategy: &S, seed: u64) -> S::Value {
    let mut runner = TestRunner::new_with_rng(Config::default(), rng_from(seed));
    strategy.new_tree(&mut runner).expect("strategy").current()
}

/// Helper for replay: deserialize `case` as T and run the oracle under a guard.
pub fn replay_as<T: DeserializeOwned>(case: &serde_json::Value, oracle: impl Fn(&T) -> Report) -> Option<Report> {
    match serde_json::from_value::<T>(case.clone()) {
        Ok(c) => Some(match guard(|| oracle(&c)) {
            Ok(r) => r,
            Err(p) => {
                let mut r = Report::new();
                if p.contains("@ src/") {
                    r.fail(format!("HARNESS-SELF-CHECK: the harness itself panicked: {p}"));
                } else {
                    r.fail(format!("harness oracle panicked: {p}"));
                }
                r
            }
        }),
        Err(e) => {
            let mut r = Report::new();
            r.fail(format!("replay file does not deserialize into this sub-check's case type: {e}"));
            Some(r)
        }
    }
}
