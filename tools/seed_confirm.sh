#!/bin/bash
# tools/seed_confirm.sh <ID> <mK> [src_dir]  — confirm a sub-agent's seeded change in a scratch worktree:
#   demo holds on the clean tree, patch applies, crate builds, repo tests keep the baseline results,
#   demo reports the violation.  Prints CONFIRMED or the step that failed.
set -u
id=$1; m=$2; src=${3:-/tmp/wt/$id/out/$m}
cf=/tmp/cf
export CARGO_TARGET_DIR=$cf/target CARGO_NET_OFFLINE=true
if [ ! -d $cf/repo ]; then mkdir -p $cf; git -C /repo worktree add --detach $cf/repo HEAD >/dev/null 2>&1 || { echo "FAIL worktree"; exit 2; }; fi
cd $cf/repo; git checkout -q --detach $(git -C /repo rev-parse HEAD); git checkout -- .; git clean -fdq examples
summ() { grep -E "^test result" | awk '{print $4"p"$6"f"}' | tr '\n' ' '; }
if [ ! -f $cf/baseline.txt ] || [ "$(cat $cf/baseline.rev 2>/dev/null)" != "$(git rev-parse HEAD)" ]; then
  cargo test --workspace --no-fail-fast --offline 2>&1 | summ > $cf/baseline.txt; git rev-parse HEAD > $cf/baseline.rev
fi
cp $src/demo.rs examples/seeded_demo.rs
out=$(DEMO_DIR=$src cargo run -q --offline --example seeded_demo 2>&1); rc=$?
if [ $rc -ne 0 ] || ! echo "$out" | grep -q "PROPERTY HOLDS"; then echo "FAIL demo-on-clean rc=$rc: $(echo "$out" | tail -3)"; git clean -fdq examples; exit 1; fi
if ! git apply $src/patch.diff 2>/tmp/cf/apply.err; then echo "FAIL apply: $(cat /tmp/cf/apply.err | head -3)"; git clean -fdq examples; exit 1; fi
rm -f examples/seeded_demo.rs
t=$(cargo test --workspace --no-fail-fast --offline 2>&1 | summ)
if [ "$t" != "$(cat $cf/baseline.txt)" ]; then echo "FAIL tests: '$t' vs baseline '$(cat $cf/baseline.txt)'"; git checkout -- .; exit 1; fi
cp $src/demo.rs examples/seeded_demo.rs
out=$(DEMO_DIR=$src cargo run -q --offline --example seeded_demo 2>&1); rc=$?
git checkout -- .; git clean -fdq examples
if [ $rc -eq 0 ] || ! echo "$out" | grep -q "PROPERTY VIOLATED"; then echo "FAIL demo-on-mutant rc=$rc: $(echo "$out" | tail -3)"; exit 1; fi
echo "CONFIRMED $id $m: $(echo "$out" | grep "PROPERTY VIOLATED" | head -1 | cut -c1-300)"
