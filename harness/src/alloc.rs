//! Counting / limiting global allocator. Accounting is per thread and only active inside a
//! `measure` scope (the guarded call into calamine), so the harness's own allocations and the
//! other worker threads do not disturb the figures.

use std::alloc::{GlobalAlloc, Layout, System};
use std::cell::Cell;

pub struct Counting;

thread_local! {
    static ACTIVE: Cell<bool> = const { Cell::new(false) };
    static LIVE: Cell<usize> = const { Cell::new(0) };
    static PEAK: Cell<usize> = const { Cell::new(0) };
    static MAX_REQ: Cell<usize> = const { Cell::new(0) };
    static BIG_FUNC: std::cell::RefCell<String> = const { std::cell::RefCell::new(String::new()) };
}

/// requests above this size get their requesting function recorded
pub const BIG_REQUEST: usize = 32 << 20;

/// innermost calamine function behind the largest request of the last measured scope (if it was big)
pub fn big_request_func() -> String {
    BIG_FUNC.with(|b| b.borrow().clone())
}

/// a single thread may not hold more than this inside a measured scope: the request fails
/// (the process aborts and the supervisor isolates the case) instead of exhausting the machine
pub const HARD_CAP: usize = 3 << 30;

static CAP: std::sync::atomic::AtomicUsize = std::sync::atomic::AtomicUsize::new(HARD_CAP);

/// lower the per-thread cap (C06 does this inside its forked child: a request that would take the
/// live heap above the proportionality limit is refused, the child aborts and reports who asked)
pub fn set_cap(bytes: usize) {
    CAP.store(bytes, std::sync::atomic::Ordering::Relaxed);
}

unsafe impl GlobalAlloc for Counting {
    unsafe fn alloc(&self, layout: Layout) -> *mut u8 {
        if !note_alloc(layout.size(), layout.size()) {
            return std::ptr::null_mut();
        }
        System.alloc(layout)
    }
    unsafe fn alloc_zeroed(&self, layout: Layout) -> *mut u8 {
        if !note_alloc(layout.size(), layout.size()) {
            return std::ptr::null_mut();
        }
        System.alloc_zeroed(layout)
    }
    unsafe fn dealloc(&self, ptr: *mut u8, layout: Layout) {
        note_free(layout.size());
        System.dealloc(ptr, layout)
    }
    unsafe fn realloc(&self, ptr: *mut u8, layout: Layout, new_size: usize) -> *mut u8 {
        if new_size > layout.size() {
            // the request as the caller sees it is new_size; only the difference is new memory
            if !note_alloc(new_size - layout.size(), new_size) {
                return std::ptr::null_mut();
            }
        } else {
            note_free(layout.size() - new_size);
        }
        System.realloc(ptr, layout, new_size)
    }
}

#[inline]
fn note_alloc(size: usize, request: usize) -> bool {
    let active = ACTIVE.try_with(|a| a.get()).unwrap_or(false);
    if !active {
        return true;
    }
    let live = LIVE.try_with(|l| {
        let v = l.get().saturating_add(size);
        l.set(v);
        v
    })
    .unwrap_or(0);
    if request > BIG_REQUEST && request > MAX_REQ.try_with(|m| m.get()).unwrap_or(0) {
        // remember who asked for the largest block (rare path: allocation here is fine once
        // accounting is switched off)
        let _ = ACTIVE.try_with(|a| a.set(false));
        let bt = std::backtrace::Backtrace::force_capture().to_string();
        let f = crate::engine::innermost_calamine_frame(&bt).unwrap_or_default();
        let _ = BIG_FUNC.try_with(|b| *b.borrow_mut() = f);
        let _ = ACTIVE.try_with(|a| a.set(true));
    }
    if live > CAP.load(std::sync::atomic::Ordering::Relaxed) {
        // refuse: tell the supervisor of this (forked) process what was asked for and by whom
        let _ = ACTIVE.try_with(|a| a.set(false));
        crate::isolate::report_refused(size, live);
        return false;
    }
    let _ = PEAK.try_with(|p| {
        if live > p.get() {
            p.set(live)
        }
    });
    let _ = MAX_REQ.try_with(|m| {
        if request > m.get() {
            m.set(request)
        }
    });
    true
}

#[inline]
fn note_free(size: usize) {
    if ACTIVE.try_with(|a| a.get()).unwrap_or(false) {
        let _ = LIVE.try_with(|l| l.set(l.get().saturating_sub(size)));
    }
}

#[derive(Debug, Clone, Copy, Default)]
pub struct MemStats {
    pub peak: usize,
    pub max_request: usize,
}

/// run `f` with allocation accounting for the current thread
pub fn measure<T>(f: impl FnOnce() -> T) -> (T, MemStats) {
    LIVE.with(|l| l.set(0));
    PEAK.with(|p| p.set(0));
    MAX_REQ.with(|m| m.set(0));
    BIG_FUNC.with(|b| b.borrow_mut().clear());
    ACTIVE.with(|a| a.set(true));
    struct Off;
    impl Drop for Off {
        fn drop(&mut self) {
            ACTIVE.with(|a| a.set(false));
        }
    }
    let off = Off;
    let r = f();
    drop(off);
    let st = MemStats { peak: PEAK.with(|p| p.get()), max_request: MAX_REQ.with(|m| m.get()) };
    (r, st)
}
