#![allow(dead_code)]
//! `check <ID> [--tier quick|thorough] [--seed N] [--replay FILE]`
//!
//! exit 0: the property held on everything explored (KNOWN-FINDING lines may be printed)
//! exit 1: a violation was found; a line `VIOLATION property=<id> replay=<path>` is printed
//! exit 2: inconclusive / infrastructure problem (never a violation)

mod alloc;
mod engine;
mod isolate;
mod enc;
mod model;
mod props;

use engine::{Ctx, Tier};

#[global_allocator]
static GLOBAL: alloc::Counting = alloc::Counting;

fn usage() -> ! {
    eprintln!("usage: check <C01..C20> [--tier quick|thorough] [--seed N] [--replay FILE]");
    std::process::exit(2)
}

fn main() {
    let args: Vec<String> = std::env::args().skip(1).collect();
    if args.is_empty() {
        usage();
    }
    let id = args[0].to_uppercase();
    let mut tier = match std::env::var("VERIF_TIER").ok().as_deref() {
        Some("thorough") => Tier::Thorough,
        _ => Tier::Quick,
    };
    let mut seed: u64 = std::env::var("VERIF_SEED").ok().and_then(|s| s.trim().parse::<i128>().ok()).map(|v| v as u64).unwrap_or(0);
    let mut replay: Option<String> = None;
    let mut i = 1;
    while i < args.len() {
        match args[i].as_str() {
            "--tier" => {
                i += 1;
                tier = match args.get(i).map(|s| s.as_str()) {
                    Some("quick") => Tier::Quick,
                    Some("thorough") => Tier::Thorough,
                    _ => usage(),
                }
            }
            "--seed" => {
                i += 1;
                seed = args.get(i).and_then(|s| s.parse().ok()).unwrap_or_else(|| usage());
            }
            "--replay" => {
                i += 1;
                replay = Some(args.get(i).cloned().unwrap_or_else(|| usage()));
            }
            _ => usage(),
        }
        i += 1;
    }
    // ---- supervisor: run the check in a child process so that an abort (allocation failure,
    // stack overflow, watchdog) is attributed to the case in flight instead of killing the check
    if replay.is_none() && std::env::var_os("CVERIF_CHILD").is_none() && std::env::var_os("CVERIF_NO_SUPERVISOR").is_none() {
        std::process::exit(supervise(&id, tier, seed));
    }
    engine::install_panic_hook();
    if std::env::var_os("CVERIF_CHILD").is_some() {
        engine::start_hang_watchdog();
        // a runaway allocation must fail (abort -> isolated by the supervisor) instead of
        // dragging the machine into the OOM killer
        let gib: u64 = std::env::var("CVERIF_AS_GIB").ok().and_then(|s| s.parse().ok()).unwrap_or(24);
        // soft limit only: the libFuzzer children of C06 (ASan shadow memory) raise it again
        unsafe {
            let mut lim = libc::rlimit { rlim_cur: 0, rlim_max: 0 };
            libc::getrlimit(libc::RLIMIT_AS, &mut lim);
            lim.rlim_cur = (gib << 30).min(lim.rlim_max);
            libc::setrlimit(libc::RLIMIT_AS, &lim);
        }
    }

    let Some(prop) = props::lookup(&id) else {
        eprintln!("unknown property {id}");
        std::process::exit(2)
    };

    if let Some(path) = replay {
        let Some((sub, case)) = engine::load_replay(&path) else {
            eprintln!("cannot read replay file {path}");
            std::process::exit(2)
        };
        match (prop.replay)(&sub, &case) {
            None => {
                eprintln!("replay names unknown sub-check {sub} of {id}");
                std::process::exit(2)
            }
            Some(rep) => match rep.verdict {
                Some(m) => {
                    println!("VIOLATION property={id} replay={path}");
                    println!("  {m}");
                    std::process::exit(1)
                }
                None => {
                    println!("replay {path}: property {id} holds on this case");
                    std::process::exit(0)
                }
            },
        }
    }

    let mut ctx = Ctx::new(&id, tier, seed);
    ctx.replay_tier(&|sub, case| (prop.replay)(sub, case));
    // a panic that escapes a property's own guards: located in the harness sources it is a harness
    // defect (exit 2); located in calamine it is a call that did not return, reported as a violation
    if let Err(p) = engine::guard(|| (prop.run)(&mut ctx)) {
        if p.contains("@ src/") {
            eprintln!("HARNESS-SELF-CHECK: the harness itself panicked: {p}");
            std::process::exit(2);
        }
        ctx.report_violation("panic", &serde_json::json!({"panic": p}), &format!("calamine panicked in a call the check makes outside its generated cases: {p}"));
    }
    let code = ctx.finish(prop.rule);
    std::process::exit(code)
}

/// Supervisor: run the check as a child; on abnormal termination isolate the culprit case.
fn supervise(id: &str, tier: Tier, seed: u64) -> i32 {
    use std::process::{Command, Stdio};
    use std::time::{Duration, Instant};
    let exe = std::env::current_exe().expect("current_exe");
    let scratch = std::path::PathBuf::from(format!("{}/harness/target/scratch/{}-{}", engine::VERIF_ROOT, id, std::process::id()));
    let _ = std::fs::remove_dir_all(&scratch);
    if std::fs::create_dir_all(&scratch).is_err() {
        eprintln!("cannot create scratch directory {scratch:?}");
        return 2;
    }
    let tier_s = if tier == Tier::Quick { "quick" } else { "thorough" };
    let mut child = match Command::new(&exe).args([id, "--tier", tier_s, "--seed", &seed.to_string()]).env("CVERIF_CHILD", "1").env("CVERIF_SLOTS", &scratch).spawn() {
        Ok(c) => c,
        Err(e) => {
            eprintln!("cannot start the check process: {e}");
            return 2;
        }
    };
    let budget = Duration::from_secs(if tier == Tier::Quick { 45 * 60 } else { 10 * 3600 });
    let started = Instant::now();
    let status = loop {
        match child.try_wait() {
            Ok(Some(st)) => break Some(st),
            Ok(None) => {
                if started.elapsed() > budget {
                    let _ = child.kill();
                    let _ = child.wait();
                    break None;
                }
                std::thread::sleep(Duration::from_millis(20));
            }
            Err(_) => break None,
        }
    };
    let code = match status {
        Some(st) if st.code().is_some() => {
            let _ = std::fs::remove_dir_all(&scratch);
            return st.code().unwrap();
        }
        Some(st) => format!("{st}"),
        None => "overall time budget exceeded".to_string(),
    };
    eprintln!("the check process ended abnormally ({code}); isolating the case in flight");
    // candidates: the slot files, most recently written first
    let mut slots: Vec<(std::time::SystemTime, std::path::PathBuf)> = std::fs::read_dir(&scratch)
        .map(|rd| rd.filter_map(|e| e.ok()).filter_map(|e| Some((e.metadata().ok()?.modified().ok()?, e.path()))).collect())
        .unwrap_or_default();
    slots.sort();
    slots.reverse();
    let dir = format!("{}/replays/{}", engine::VERIF_ROOT, id);
    let _ = std::fs::create_dir_all(&dir);
    let mut found = 0;
    for (_, slot) in slots {
        let Ok(text) = std::fs::read_to_string(&slot) else { continue };
        if serde_json::from_str::<serde_json::Value>(&text).is_err() {
            continue;
        }
        let dest = format!("{dir}/crash-{:016x}.json", engine::hash_str(&text));
        if std::fs::write(&dest, &text).is_err() {
            continue;
        }
        let mut g = match Command::new(&exe).args([id, "--replay", &dest]).env("CVERIF_CHILD", "1").stdout(Stdio::piped()).stderr(Stdio::null()).spawn() {
            Ok(g) => g,
            Err(_) => continue,
        };
        let t0 = Instant::now();
        let st = loop {
            match g.try_wait() {
                Ok(Some(st)) => break Some(st),
                Ok(None) if t0.elapsed() > Duration::from_secs(90) => {
                    let _ = g.kill();
                    let _ = g.wait();
                    break None;
                }
                Ok(None) => std::thread::sleep(Duration::from_millis(20)),
                Err(_) => break None,
            }
        };
        let mut out = String::new();
        if let Some(mut so) = g.stdout.take() {
            use std::io::Read;
            let _ = so.read_to_string(&mut out);
        }
        match st {
            Some(st) if st.code() == Some(0) => {
                let _ = std::fs::remove_file(&dest);
            }
            Some(st) if st.code() == Some(1) => {
                print!("{out}");
                found += 1;
            }
            Some(st) if st.code().is_some() => {
                let _ = std::fs::remove_file(&dest);
            }
            Some(st) => {
                println!("VIOLATION property={id} replay={dest}");
                println!("  the process dies on this case alone ({st}): memory exhaustion, stack overflow or abort");
                found += 1;
            }
            None => {
                println!("VIOLATION property={id} replay={dest}");
                println!("  this case alone does not finish within 90 s (hang)");
                found += 1;
            }
        }
        if found > 0 {
            break;
        }
    }
    let _ = std::fs::remove_dir_all(&scratch);
    if found == 0 {
        eprintln!("no single case reproduces the abnormal end: inconclusive");
        return 2;
    }
    let ev = serde_json::json!({
        "property_id": id, "tier": tier_s, "seed": seed, "level": "exploration",
        "coverage": {"evaluations": 1, "distinct_nontrivial": 2, "rule": "the check process died; the case in flight was isolated by the supervisor and reproduces the death alone", "samples": ["see the replay file named in the VIOLATION line"]},
        "wall_s": started.elapsed().as_secs_f64(), "violations": found,
    });
    let _ = std::fs::write(format!("{}/evidence/{}.json", engine::VERIF_ROOT, id), serde_json::to_string_pretty(&ev).unwrap());
    1
}
