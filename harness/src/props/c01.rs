//! C01 — XLSX: every cell reads back at its position, with its value and type, independent of
//! legal variations of the physical encoding.

use crate::enc::xlsx::*;
use crate::enc::zipw::ZipKnobs;
use crate::engine::{guard, replay_as, Ctx, Report};
use crate::model::value::{check_range, check_range_ref, Exp, Pos};
use crate::props::Prop;
use calamine::{Reader, ReaderRef, Xlsx};
use proptest::prelude::*;
use serde::{Deserialize, Serialize};
use std::collections::{BTreeMap, BTreeSet};
use std::io::Cursor;

pub static PROP: Prop = Prop {
    id: "C01",
    run,
    replay,
    rule: "logical workbook (1-3 sheets, sparse cells in a window <= 40x40 or a thin strip, origin drawn from sheet-boundary rows/columns, cell kinds number/shared/inline/rich/formula-cached/bool/error/ISO date/styled-empty) encoded by the harness's own XLSX writer under generated physical choices (implicit or explicit r on rows and cells with filler elements, dimension absent/exact/wrong, shared vs inline, x: prefixes per part, BOM/declaration, relationship target spelling, part-name case, zip method/order/data descriptors); each case is read under its own encoding AND under a second, independently derived encoding of the same logical workbook; both must equal the model (bounds = tight box, every value, used_cells). Non-trivial = >= 2 non-empty cells of >= 2 kinds, origin != A1 and >= 1 non-default encoding choice; distinct by serialized case.",
};

#[derive(Debug, Clone, Serialize, Deserialize)]
pub struct Case {
    pub doc: XlsxDoc,
    /// seed of the second physical encoding of the same logical workbook
    pub alt: u64,
}

pub fn open_xlsx(bytes: Vec<u8>) -> Result<Xlsx<Cursor<Vec<u8>>>, String> {
    match guard(|| Xlsx::new(Cursor::new(bytes))) {
        Ok(Ok(x)) => Ok(x),
        Ok(Err(e)) => Err(format!("Xlsx::new failed on a well-formed workbook: {e:?}")),
        Err(p) => Err(format!("Xlsx::new: {p}")),
    }
}

// ---------------------------------------------------------------------------------------------
// generators (shared with other xlsx properties)

pub const ROW_ORIGINS: &[u32] = &[0, 0, 1, 2, 9, 99, 1000, 65_535, 65_536, 1_048_575];
pub const COL_ORIGINS: &[u32] = &[0, 0, 1, 2, 24, 25, 26, 27, 51, 52, 255, 256, 700, 701, 702, 703, 16_383];

pub fn simple_text() -> impl Strategy<Value = String> {
    prop_oneof![
        4 => "[A-Za-z][A-Za-z0-9 ]{0,8}[A-Za-z0-9]",
        1 => Just("a&b".to_string()),
        1 => Just("x < y".to_string()),
        1 => Just("naïve café".to_string()),
        1 => Just("12abc".to_string()),
    ]
}

pub fn xtext(rich_ok: bool) -> impl Strategy<Value = XText> {
    (proptest::collection::vec(simple_text(), 1..4), any::<bool>(), proptest::option::weighted(0.2, simple_text()), any::<bool>(), prop_oneof![4 => Just(0u8), 1 => Just(1u8), 1 => Just(2u8), 1 => Just(3u8)]).prop_map(move |(mut runs, rich, ph, preserve, esc)| {
        let rich = rich && rich_ok;
        if !rich {
            runs.truncate(1);
        }
        // esc: how the characters are written (entities, decimal / hex references, CDATA sections)
        XText { runs, rich, phonetic: ph, preserve, esc }
    })
}

pub fn number_lex() -> impl Strategy<Value = String> {
    prop_oneof![
        3 => (-100000i64..100000).prop_map(|i| i.to_string()),
        2 => (-1e6f64..1e6).prop_map(|f| format!("{f}")),
        1 => Just("1E+3".to_string()),
        1 => Just("-0.5".to_string()),
        1 => Just("1.0000000000000002".to_string()),
        1 => Just("12345678901234567".to_string()),
        1 => Just("2.5E-3".to_string()),
        1 => Just("0".to_string()),
        1 => any::<f64>().prop_filter("finite", |f| f.is_finite()).prop_map(|f| format!("{f:e}")),
    ]
}

fn value_strategy(n_styles: u32) -> impl Strategy<Value = (XVal, Option<XFormula>, Option<u32>)> {
    let style = move || {
        if n_styles == 0 {
            Just(None).boxed()
        } else {
            proptest::option::weighted(0.5, 0..n_styles).boxed()
        }
    };
    let val = prop_oneof![
        4 => (number_lex(), any::<bool>()).prop_map(|(lex, typed)| XVal::Num { lex, typed }),
        3 => xtext(true).prop_map(XVal::Shared),
        2 => xtext(true).prop_map(XVal::Inline),
        // a formula whose result is the empty string is cached as <v></v>: still a String cell
        // (and a formula result may begin or end with blanks: <v> keeps them without any attribute)
        1 => prop_oneof![5 => simple_text(), 1 => Just(String::new()), 1 => proptest::sample::select(vec![" total", "total ", "   ", " a b "]).prop_map(|s| s.to_string())].prop_map(XVal::Str),
        1 => any::<bool>().prop_map(XVal::Bool),
        1 => (0u8..7).prop_map(XVal::Err),
        1 => prop_oneof![Just("2021-01-01"), Just("2021-12-31T23:59:59"), Just("1900-01-01T00:00:00.000")].prop_map(|s| XVal::Iso(s.to_string())),
        1 => Just(XVal::None),
    ];
    let formula = proptest::option::weighted(0.2, prop_oneof![Just("A1+1"), Just("SUM(B2:C3)"), Just("IF(A1>0,\"y\",\"n\")")].prop_map(|s| XFormula::Plain(s.to_string())));
    (val, formula, style()).prop_map(|(v, f, s)| {
        // a formula's cached string result is written as t="str"; keep the combinations Excel produces
        let (v, f) = match (v, f) {
            (XVal::Shared(t), Some(f)) => (XVal::Str(t.text()), Some(f)),
            (XVal::Inline(t), Some(f)) => (XVal::Str(t.text()), Some(f)),
            (XVal::Str(s), None) => (XVal::Str(s), Some(XFormula::Plain("A1&\"\"".into()))),
            (XVal::Iso(s), _) => (XVal::Iso(s), None),
            (XVal::None, _) => (XVal::None, None),
            other => other,
        };
        (v, f, s)
    })
}

pub fn enc_strategy() -> impl Strategy<Value = XEnc> {
    let zip = (proptest::collection::vec(0u8..5, 0..4), proptest::collection::vec(any::<u8>(), 0..6), prop_oneof![3 => Just(0u8), 1 => 1u8..4], any::<bool>())
        .prop_map(|(methods, order, name_case, comment)| ZipKnobs { methods, order, name_case, comment });
    (any::<[bool; 4]>(), 0u8..3, 0u8..3, any::<bool>(), any::<bool>(), any::<bool>(), zip, prop_oneof![2 => Just(0u8), 2 => 1u8..16]).prop_map(|(p, decl, rel_target, pretty, package_parts, bool_words, zip, sheet_ids)| XEnc {
        prefix_workbook: p[0],
        prefix_sheet: p[1],
        prefix_sst: p[2],
        prefix_styles: p[3],
        decl,
        rel_target,
        pretty,
        package_parts,
        bool_words,
        zip,
        sheet_ids,
    })
}

pub fn non_date_styles() -> impl Strategy<Value = Option<XStyles>> {
    let ids = prop_oneof![Just(0u32), Just(1), Just(2), Just(3), Just(4), Just(9), Just(10), Just(11), Just(49), Just(164), Just(165)];
    proptest::option::weighted(
        0.7,
        (proptest::collection::vec(proptest::option::weighted(0.9, ids), 1..5), 0u8..3, any::<bool>()).prop_map(|(cell_xfs, cell_style_xfs, dxf_decoy)| XStyles {
            num_fmts: vec![(164, "0.00".into(), 0), (165, "#,##0.0\" units\"".into(), 0)],
            cell_xfs,
            cell_style_xfs,
            dxf_decoy,
        }),
    )
}

fn sheet_strategy(name: String, n_styles: u32) -> impl Strategy<Value = XSheet> {
    let shape = prop_oneof![
        4 => (1u32..12, 1u32..12),
        1 => (1u32..40, 1u32..40),
        1 => (1u32..2, 1u32..600),
        1 => (1u32..600, 1u32..2),
    ];
    (proptest::sample::select(ROW_ORIGINS), proptest::sample::select(COL_ORIGINS), shape, 0u32..4, 0u32..4).prop_flat_map(move |(r0, c0, (h, w), jr, jc)| {
        // keep the window inside the sheet
        let r0 = (r0 + jr).min(1_048_576 - h);
        let c0 = (c0 + jc).min(16_384 - w);
        let name = name.clone();
        let cells = proptest::collection::btree_map((0..h, 0..w), (value_strategy(n_styles), any::<bool>()), 0..24);
        let dim = prop_oneof![
            2 => Just(XDim::Absent),
            2 => Just(XDim::Exact),
            1 => Just(XDim::Custom("A1".into())),
            1 => Just(XDim::Custom("B2:C3".into())),
            1 => Just(XDim::Custom("A1:XFD1048576".into())),
            1 => Just(XDim::Custom(range_name(((r0, c0), (r0 + h - 1, c0 + w - 1))))),
            1 => Just(XDim::Custom(range_name(((r0 + h, c0 + w.min(10)), (r0 + h + 1, c0 + w.min(10) + 1))))),
        ];
        (cells, dim, proptest::collection::vec((any::<bool>(), any::<bool>()), 0..24), any::<u8>()).prop_map(move |(cells, dimension, rowknobs, extras)| {
            let mut rows: BTreeMap<u32, Vec<XCell>> = BTreeMap::new();
            for ((dr, dc), ((value, formula, style), explicit)) in cells {
                rows.entry(r0 + dr).or_default().push(XCell { col: c0 + dc, explicit, style, value, formula });
            }
            let rows = rows
                .into_iter()
                .enumerate()
                .map(|(i, (r, cells))| {
                    let (explicit, attrs) = rowknobs.get(i).copied().unwrap_or((true, false));
                    XRow { r, explicit, attrs, cells }
                })
                .collect();
            XSheet { name: name.clone(), state: 0, kind: 0, rows, dimension, merges: vec![], tables: vec![], extras }
        })
    })
}

pub fn doc_strategy() -> impl Strategy<Value = XlsxDoc> {
    (non_date_styles(), 1usize..4).prop_flat_map(|(styles, n)| {
        let n_styles = styles.as_ref().map_or(0, |s| s.cell_xfs.len() as u32);
        let names = ["Sheet1", "Data 2", "Résumé"];
        let sheets: Vec<_> = (0..n).map(|i| sheet_strategy(names[i].to_string(), n_styles).boxed()).collect();
        // unused items before and between the used ones, some of them empty in one of the schema-valid
        // ways (<si/>, <si><t/></si>, only phonetic text): indices must keep counting them
        let extra = || prop_oneof![2 => xtext(true).prop_map(SstExtra::Text), 1 => crate::props::c19::extra_strategy()];
        let sst = (any::<bool>(), any::<bool>(), proptest::collection::vec(extra(), 0..3), proptest::option::weighted(0.3, extra())).prop_map(|(dedupe, counts, prepend, interleave)| SstKnobs { prepend, interleave, dedupe, counts });
        (sheets, Just(styles), sst, enc_strategy()).prop_map(|(sheets, styles, sst, enc)| XlsxDoc { sheets, styles, date1904: None, defined_names: vec![], sst, enc, vba: None, extra_parts: vec![] })
    })
}

/// derive a second physical encoding of the same logical workbook from a seed
pub fn reencode(doc: &XlsxDoc, seed: u64) -> XlsxDoc {
    let mut s = seed | 1;
    let mut next = move || {
        // xorshift64*
        s ^= s >> 12;
        s ^= s << 25;
        s ^= s >> 27;
        s.wrapping_mul(0x2545_F491_4F6C_DD1D)
    };
    let mut d = doc.clone();
    for sh in &mut d.sheets {
        for row in &mut sh.rows {
            row.explicit = next() % 2 == 0;
            row.attrs = next() % 2 == 0;
            for c in &mut row.cells {
                c.explicit = next() % 2 == 0;
                // shared <-> inline
                if next() % 2 == 0 {
                    c.value = match std::mem::replace(&mut c.value, XVal::None) {
                        XVal::Shared(t) => XVal::Inline(t),
                        XVal::Inline(t) => XVal::Shared(t),
                        v => v,
                    };
                }
            }
        }
        sh.dimension = match next() % 4 {
            0 => XDim::Absent,
            1 => XDim::Exact,
            2 => XDim::Custom("C3:D4".into()),
            _ => XDim::Custom("A1".into()),
        };
        sh.extras = next() as u8;
    }
    d.sst.dedupe = next() % 2 == 0;
    d.sst.counts = next() % 2 == 0;
    let e = &mut d.enc;
    e.prefix_workbook = next() % 2 == 0;
    e.prefix_sheet = next() % 2 == 0;
    e.prefix_sst = next() % 2 == 0;
    e.prefix_styles = next() % 2 == 0;
    e.decl = (next() % 3) as u8;
    e.rel_target = (next() % 3) as u8;
    e.pretty = next() % 2 == 0;
    e.package_parts = next() % 2 == 0;
    e.zip = ZipKnobs {
        methods: (0..3).map(|_| (next() % 5) as u8).collect(),
        order: (0..4).map(|_| next() as u8).collect(),
        name_case: if next() % 3 == 0 { (next() % 4) as u8 } else { 0 },
        comment: next() % 2 == 0,
    };
    d
}

// ---------------------------------------------------------------------------------------------
// oracle

pub fn read_and_check(doc: &XlsxDoc, what: &str, rep: &mut Report) {
    let bytes = encode(doc);
    let mut wb = match open_xlsx(bytes) {
        Ok(w) => w,
        Err(e) => {
            rep.fail(format!("{what}: {e}"));
            return;
        }
    };
    for (i, sheet) in doc.sheets.iter().enumerate() {
        let expected = expected_values(doc, i);
        match guard(|| wb.worksheet_range(&sheet.name)) {
            Ok(Ok(r)) => {
                if let Err(e) = check_range(&r, &expected, &format!("{what}: worksheet_range({:?})", sheet.name)) {
                    rep.fail(e);
                    return;
                }
            }
            Ok(Err(e)) => {
                rep.fail(format!("{what}: worksheet_range({:?}) failed: {e:?}", sheet.name));
                return;
            }
            Err(p) => {
                rep.fail(format!("{what}: worksheet_range({:?}): {p}", sheet.name));
                return;
            }
        }
        let r = guard(|| match wb.worksheet_range_ref(&sheet.name) {
            Ok(r) => check_range_ref(&r, &expected, &format!("{what}: worksheet_range_ref({:?})", sheet.name)),
            Err(e) => Err(format!("{what}: worksheet_range_ref({:?}) failed: {e:?}", sheet.name)),
        });
        match r {
            Ok(Ok(())) => {}
            Ok(Err(e)) => {
                rep.fail(e);
                return;
            }
            Err(p) => {
                rep.fail(format!("{what}: worksheet_range_ref({:?}): {p}", sheet.name));
                return;
            }
        }
    }
}

fn kind_of(v: &XVal) -> u8 {
    match v {
        XVal::None => 0,
        XVal::Num { .. } => 1,
        XVal::Shared(_) => 2,
        XVal::Inline(_) => 3,
        XVal::Str(_) => 4,
        XVal::Bool(_) => 5,
        XVal::Err(_) => 6,
        XVal::Iso(_) => 7,
    }
}

pub fn label_encoding(doc: &XlsxDoc, rep: &mut Report) -> bool {
    let mut nondefault = false;
    let e = &doc.enc;
    for (c, l) in [
        (e.prefix_workbook, "prefix:workbook"),
        (e.prefix_sheet, "prefix:sheet"),
        (e.prefix_sst, "prefix:sst"),
        (e.prefix_styles, "prefix:styles"),
        (e.decl == 2, "bom"),
        (e.rel_target == 1, "rel-target:xl/"),
        (e.rel_target == 2, "rel-target:/xl/"),
        (e.pretty, "pretty-printed"),
        (e.zip.name_case % 4 != 0, "part-name-case"),
        (e.zip.methods.iter().any(|m| m % 5 == 1), "zip:stored"),
        (e.zip.methods.iter().any(|m| m % 5 == 3), "zip:data-descriptor"),
        (!e.zip.order.is_empty(), "zip:reordered"),
    ] {
        if c {
            rep.label(l);
            nondefault = true;
        }
    }
    for sh in &doc.sheets {
        match &sh.dimension {
            XDim::Absent => rep.label("dimension:absent"),
            XDim::Exact => rep.label("dimension:exact"),
            XDim::Custom(_) => {
                rep.label("dimension:custom(wrong)");
                nondefault = true;
            }
        }
        let mut implied_row = 0u32;
        for row in &sh.rows {
            if !row.explicit && row.r >= implied_row && row.r - implied_row <= 3 {
                rep.label("implicit-row-ref");
                nondefault = true;
            }
            implied_row = row.r + 1;
            let mut implied_col = 0u32;
            for c in &row.cells {
                if !c.explicit && c.col >= implied_col && c.col - implied_col <= 3 {
                    rep.label("implicit-cell-ref");
                    nondefault = true;
                }
                implied_col = c.col + 1;
                if matches!(c.value, XVal::Inline(_)) {
                    nondefault = true;
                }
            }
        }
    }
    nondefault
}

fn oracle(case: &Case) -> Report {
    let mut rep = Report::new();
    let doc = &case.doc;
    let nondefault = label_encoding(doc, &mut rep);
    read_and_check(doc, "generated encoding", &mut rep);
    if rep.failed() {
        return rep;
    }
    let alt = reencode(doc, case.alt);
    read_and_check(&alt, "second encoding of the same workbook", &mut rep);
    // non-trivial rule
    let mut kinds = BTreeSet::new();
    let mut cells = 0;
    let mut origin_not_a1 = false;
    for sh in &doc.sheets {
        if let Some(row) = sh.rows.first() {
            let c0 = sh.rows.iter().flat_map(|r| r.cells.iter().map(|c| c.col)).min().unwrap_or(0);
            origin_not_a1 |= (row.r, c0) != (0, 0);
        }
        for row in &sh.rows {
            for c in &row.cells {
                if c.value != XVal::None {
                    cells += 1;
                    kinds.insert(kind_of(&c.value));
                }
            }
        }
    }
    rep.nontrivial = cells >= 2 && kinds.len() >= 2 && origin_not_a1 && nondefault;
    rep
}

// ---------------------------------------------------------------------------------------------
// exhaustive column sweep

#[derive(Debug, Clone, Serialize, Deserialize)]
pub struct ColChunk {
    pub first_col: u32,
    pub n: u32,
    pub row: u32,
    pub lower: bool,
}

fn chunk_doc(c: &ColChunk) -> XlsxDoc {
    let cells = (0..c.n)
        .map(|k| XCell { col: c.first_col + k, explicit: true, style: None, value: XVal::Num { lex: (c.first_col + k).to_string(), typed: false }, formula: None })
        .collect();
    XlsxDoc {
        sheets: vec![XSheet { name: "S".into(), rows: vec![XRow { r: c.row, explicit: true, attrs: false, cells }], ..Default::default() }],
        ..Default::default()
    }
}

fn oracle_chunk(c: &ColChunk) -> Report {
    let mut rep = Report::new();
    let doc = chunk_doc(c);
    let mut bytes_doc = doc.clone();
    if c.lower {
        // lower-case references are accepted by the reader; exercise that spelling through a custom dimension only
        bytes_doc.sheets[0].dimension = XDim::Custom(range_name(((c.row, c.first_col), (c.row, c.first_col + c.n - 1))).to_lowercase());
    }
    read_and_check(&bytes_doc, "column sweep", &mut rep);
    // the hook on the same names
    for k in 0..c.n {
        let col = c.first_col + k;
        let name = cell_name((c.row, col));
        match guard(|| calamine::verif_hooks::xlsx_cell_ref(name.as_bytes())) {
            Ok(Ok((r, Some(cc)))) if (r, cc) == (c.row, col) => {}
            other => {
                rep.fail(format!("cell reference {name} parses to {other:?}, expected ({}, {col})", c.row));
                break;
            }
        }
    }
    rep.nontrivial = c.first_col + c.n > 26;
    rep
}

fn column_sweep(ctx: &mut Ctx) {
    let chunks: Vec<ColChunk> = (0..128u32).map(|k| ColChunk { first_col: k * 128, n: 128, row: [0, 7, 1_048_575][k as usize % 3], lower: k % 5 == 0 }).collect();
    let threads = ctx.threads;
    let fails: Vec<Option<(ColChunk, String)>> = std::thread::scope(|sc| {
        let hs: Vec<_> = (0..threads)
            .map(|t| {
                let chunks = &chunks;
                sc.spawn(move || {
                    let mut fail = None;
                    for (i, c) in chunks.iter().enumerate() {
                        if i % threads != t {
                            continue;
                        }
                        let r = oracle_chunk(c);
                        if let (Some(m), true) = (r.verdict, fail.is_none()) {
                            fail = Some((c.clone(), m));
                        }
                    }
                    fail
                })
            })
            .collect();
        hs.into_iter().map(|h| h.join().unwrap()).collect()
    });
    ctx.record_sweep(
        "column-sweep",
        16384,
        16384 - 26,
        BTreeMap::new(),
        vec![serde_json::to_value(&chunks[5]).unwrap()],
        true,
        "every column 0..16383 written as an A1-style reference in a real file (128 files x 128 columns) and through the cell-reference hook; non-trivial = multi-letter columns",
    );
    for f in fails.into_iter().flatten() {
        ctx.report_violation("column-chunk", &f.0, &f.1);
        break;
    }
}

fn case_strategy() -> impl Strategy<Value = Case> {
    (doc_strategy(), any::<u64>()).prop_map(|(doc, alt)| Case { doc, alt })
}

fn run(ctx: &mut Ctx) {
    let n = ctx.n(4000, 80_000);
    ctx.run("workbook", n, case_strategy, oracle);
    column_sweep(ctx);
    ctx.assumptions.push("generated files follow the conventions the reader hard-codes and every producer follows: parts at xl/sharedStrings.xml, xl/styles.xml, sheet relationship attribute spelled r:id, rows in ascending order, <f> before <v>, no children of <c> other than f/v/is".into());
    ctx.assumptions.push("strings are non-empty (an empty inline string is a String(\"\") cell, which the statement does not classify); bounding boxes stay below 24k cells".into());
}

fn replay(sub: &str, case: &serde_json::Value) -> Option<Report> {
    match sub {
        "workbook" => replay_as::<Case>(case, oracle),
        "column-chunk" => replay_as::<ColChunk>(case, oracle_chunk),
        _ => None,
    }
}

#[allow(unused)]
fn _unused(_: Exp, _: Pos) {}
