//! C13 — compound-file streams are recovered whatever the container's physical layout.

use crate::enc::cfb::*;
use crate::engine::{guard, replay_as, Ctx, Report};
use crate::props::Prop;
use proptest::prelude::*;
use serde::{Deserialize, Serialize};
use std::collections::BTreeMap;

pub static PROP: Prop = Prop {
    id: "C13",
    run,
    replay,
    rule: "stream sets (1-6 streams, optionally inside storages; sizes from {0,1,63,64,65,4095,4096,4097, k*512+-1, k*4096+-1, uniform <= 300 KiB}, thorough: > 7 MiB so that a DIFAT chain is required) x physical layout (v3/512 or v4/4096, a seeded permutation assigning physical sectors to every chain incl. directory, mini-FAT, mini-stream container, FAT and DIFAT sectors, free sectors and free mini sectors, mini-sector permutation, directory entry order and unused entries, trailing bytes). Oracle: the stream returned through the compound-file reader equals the logical bytes, for every stream, under the generated layout AND under the canonical sequential layout; end-to-end: an xls workbook / VBA project stored under such a layout reads like the canonical one (sub-checks added with the BIFF and OVBA encoders). Non-trivial = a fragmented (non-ascending) chain and a stream within +-1 of the 4096 cut-off or of a sector multiple; distinct by serialized case.",
};

#[derive(Debug, Clone, Serialize, Deserialize)]
pub struct StreamSpec {
    pub path: Vec<String>,
    pub name: String,
    pub len: u32,
    pub seed: u32,
}

#[derive(Debug, Clone, Serialize, Deserialize)]
pub struct Case {
    pub streams: Vec<StreamSpec>,
    pub layout: CfbLayout,
}

pub fn pseudo_bytes(len: u32, seed: u32) -> Vec<u8> {
    let mut s = (seed as u64) << 17 | 0x9E37;
    (0..len)
        .map(|i| {
            s ^= s >> 12;
            s ^= s << 25;
            s ^= s >> 27;
            // keep some structure: runs and a position marker help spotting displaced sectors
            if i % 64 == 0 {
                (i / 64) as u8
            } else {
                (s.wrapping_mul(0x2545_F491_4F6C_DD1D) >> 56) as u8
            }
        })
        .collect()
}

pub fn build(case: &Case) -> Vec<CfbStream> {
    case.streams.iter().map(|s| CfbStream { path: s.path.clone(), name: s.name.clone(), data: pseudo_bytes(s.len, s.seed) }).collect()
}

fn size_strategy(max: u32) -> impl Strategy<Value = u32> {
    prop_oneof![
        2 => proptest::sample::select(vec![0u32, 1, 63, 64, 65, 127, 128, 511, 512, 513, 4031, 4032, 4095, 4096, 4097, 8191, 8192, 8193]),
        2 => (1u32..40, -1i32..=1).prop_map(|(k, d)| (k * 512).saturating_add_signed(d)),
        1 => (1u32..20, -1i32..=1).prop_map(|(k, d)| (k * 4096).saturating_add_signed(d)),
        2 => 0u32..4200,
        1 => 0u32..max,
    ]
}

pub fn layout_strategy() -> impl Strategy<Value = CfbLayout> {
    (any::<bool>(), prop_oneof![1 => Just(0u64), 4 => any::<u64>()], prop_oneof![1 => Just(0u64), 3 => any::<u64>()], 0u8..6, 0u8..5, 0u8..6, prop_oneof![1 => Just(0u64), 2 => any::<u64>()], prop_oneof![3 => Just(0u16), 1 => 1u16..600], prop_oneof![3 => Just(0u8), 1 => 1u8..9, 1 => Just(40u8)]).prop_map(
        |(v4, perm_seed, mini_perm_seed, free_sectors, free_mini, unused_dir_entries, dir_order_seed, trailing, spare_fat)| CfbLayout { v4, perm_seed, mini_perm_seed, free_sectors, free_mini, unused_dir_entries, dir_order_seed, trailing, spare_fat },
    )
}

const NAMES: &[&str] = &["Workbook", "dir", "PROJECT", "Module1", "\u{5}SummaryInformation", "Données", "x", "A stream with a long name 1234"];

fn case_strategy(max: u32) -> impl Strategy<Value = Case> {
    (proptest::sample::subsequence(NAMES.to_vec(), 1..=6), proptest::collection::vec((size_strategy(max), any::<u32>(), 0u8..4), 6), layout_strategy()).prop_map(|(names, specs, layout)| {
        let streams = names
            .into_iter()
            .zip(specs)
            .map(|(n, (len, seed, depth))| StreamSpec {
                path: match depth {
                    0 | 1 => vec![],
                    2 => vec!["VBA".to_string()],
                    _ => vec!["_VBA_PROJECT_CUR".to_string(), "VBA".to_string()],
                },
                name: n.to_string(),
                len,
                seed,
            })
            .collect();
        Case { streams, layout }
    })
}

fn near_boundary(len: u32) -> bool {
    let near = |m: u32| len > 0 && (len % m <= 1 || len % m == m - 1);
    (4095..=4097).contains(&len) || near(512) || near(4096) || near(64)
}

pub fn check_container(file: &[u8], streams: &[CfbStream], what: &str, rep: &mut Report) {
    for s in streams {
        // encoder self-check with the harness's own reader
        match read_back(file, &s.name) {
            Some(b) if b == s.data => {}
            _ => {
                rep.fail(format!("HARNESS-SELF-CHECK: the harness reader does not recover stream {:?} from the harness writer's output ({what})", s.name));
                return;
            }
        }
        match guard(|| calamine::verif_hooks::cfb_stream(file, &s.name)) {
            Ok(Ok(b)) => {
                if b != s.data {
                    let first = b.iter().zip(&s.data).position(|(x, y)| x != y).unwrap_or(b.len().min(s.data.len()));
                    rep.fail(format!("{what}: stream {:?} ({} bytes): {} bytes returned, first difference at offset {first}", s.name, s.data.len(), b.len()));
                    return;
                }
            }
            Ok(Err(e)) => {
                rep.fail(format!("{what}: stream {:?} ({} bytes) cannot be read: {e}", s.name, s.data.len()));
                return;
            }
            Err(p) => {
                rep.fail(format!("{what}: stream {:?} ({} bytes): {p}", s.name, s.data.len()));
                return;
            }
        }
    }
}

fn oracle(case: &Case) -> Report {
    let mut rep = Report::new();
    let streams = build(case);
    let (file, info) = write_cfb(&streams, &case.layout);
    check_container(&file, &streams, "generated layout", &mut rep);
    if rep.failed() {
        return rep;
    }
    let canonical = CfbLayout { v4: !case.layout.v4, ..CfbLayout::default() };
    let (file2, _) = write_cfb(&streams, &canonical);
    check_container(&file2, &streams, "canonical sequential layout (other sector size)", &mut rep);
    rep.label(if case.layout.v4 { "v4/4096" } else { "v3/512" });
    rep.label_if(info.fragmented, "fragmented-chain");
    rep.label_if(info.mini_sectors > 0, "mini-stream");
    rep.label_if(info.mini_sectors == 0, "no-mini-stream");
    rep.label_if(info.difat_sectors > 0, "difat-chain");
    rep.label_if(info.fat_sectors > 1, "several-fat-sectors");
    rep.label_if(case.layout.free_sectors > 0, "free-sectors");
    rep.label_if(case.layout.unused_dir_entries > 0, "unused-directory-entries");
    rep.label_if(case.streams.iter().any(|s| s.len == 4095), "stream-of-4095");
    rep.label_if(case.streams.iter().any(|s| s.len == 4096), "stream-of-4096");
    rep.label_if(case.streams.iter().any(|s| s.len == 0), "empty-stream");
    rep.nontrivial = info.fragmented && case.streams.iter().any(|s| near_boundary(s.len));
    rep
}

fn run(ctx: &mut Ctx) {
    let n = ctx.n(1500, 30_000);
    ctx.run("container", n, || case_strategy(300 * 1024), oracle);
    {
        // DIFAT chains need > 109 FAT sectors: > 6.8 MiB with 512-byte sectors
        let big = || {
            // one DIFAT sector (> 109 FAT sectors) or two (> 236 FAT sectors, > 15.5 MB)
            (prop_oneof![2 => 7_200_000u32..7_600_000, 2 => 6_900_000u32..7_250_000, 1 => 15_600_000u32..16_300_000], any::<u32>(), layout_strategy(), size_strategy(5000)).prop_map(|(len, seed, mut layout, small)| {
                layout.v4 = false;
                Case { streams: vec![StreamSpec { path: vec![], name: "Workbook".into(), len, seed }, StreamSpec { path: vec![], name: "x".into(), len: small, seed: 1 }], layout }
            })
        };
        let n = ctx.n(5, 40);
        ctx.run("container-difat", n, big, oracle);
    }
    {
        // more than one mini-FAT sector: with 4096-byte sectors that takes > 1024 mini sectors, i.e.
        // more than 64 KiB of streams shorter than 4096 bytes (and then the mini FAT is longer than
        // the directory, which fits one sector)
        let many = || {
            (17usize..32, 3_800u32..4_096, any::<u32>(), layout_strategy(), any::<bool>()).prop_map(|(n, len, seed, mut layout, v4)| {
                layout.v4 = v4;
                layout.unused_dir_entries = 0;
                let mut streams: Vec<StreamSpec> = (0..n).map(|i| StreamSpec { path: vec![], name: format!("s{i}"), len: len - (i as u32 % 7), seed: seed.wrapping_add(i as u32) }).collect();
                streams.push(StreamSpec { path: vec![], name: "Workbook".into(), len: 3_900, seed });
                Case { streams, layout }
            })
        };
        let n = ctx.n(5, 400);
        ctx.run("container-minifat", n, many, oracle);
    }
    let _ = BTreeMap::<u8, u8>::new();
    ctx.assumptions.push("stream names are unique in the file (the reader looks streams up by name only); the red-black directory tree is written as a valid unbalanced tree".into());
}

fn replay(sub: &str, case: &serde_json::Value) -> Option<Report> {
    match sub {
        "container" | "container-difat" | "container-minifat" => replay_as::<Case>(case, oracle),
        _ => None,
    }
}
