#!/bin/bash
# tools/seed_all.sh [tier] — every kept seeded change against the check of its property; one line each in seeded/RESULTS.tsv
tier=${1:-quick}
cd /verif
out=seeded/RESULTS.tsv
: > $out.tmp
for d in seeded/C*-m*; do
  name=$(basename $d); id=${name%%-*}
  r=$(tools/seed_try.sh $d/patch.diff $id $tier 0 2>&1)
  verdict=$(echo "$r" | tail -1 | awk '{print $1}')
  sub=$(echo "$r" | grep -m1 "sub-check:" | sed 's/.*sub-check: //')
  echo -e "$name\t$id\t$tier\t$verdict\t$sub" | tee -a $out.tmp
done
mv $out.tmp $out
git -C /repo status --short | head -3
