#!/usr/bin/env python3
"""kf.py fixed|known PROP ID COMMIT-or-'-' WHAT WITNESS [EXPECT]  — append an entry to known_findings.json"""
import json, sys
status, prop, id_, commit, what, wit = sys.argv[1:7]
expect = sys.argv[7] if len(sys.argv) > 7 else None
p = '/verif/known_findings.json'
kf = json.load(open(p))
kf['findings'] = [f for f in kf['findings'] if f['id'] != id_]
e = {"property": prop, "id": id_, "status": status}
if status == "fixed":
    e["commit"] = commit
    e["line"] = f"fixed: property={prop} {commit} {what}"
else:
    e["line"] = f"KNOWN-FINDING: property={prop} {what}"
e["what"] = what
e["witness"] = wit
if expect: e["expect"] = expect
kf['findings'].append(e)
json.dump(kf, open(p, 'w'), indent=1, ensure_ascii=False)
print("ok", id_)
