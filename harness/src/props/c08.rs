//! C08 — the header-row option selects the first row without altering any cell.

use crate::enc::{biff8 as b8, ods as od, xlsb as bb, xlsx as xx};
use crate::engine::{guard, replay_as, Ctx, Report};
use crate::model::value::{check_range, Exp, Pos};
use crate::props::Prop;
use calamine::{Data, HeaderRow, Range, Reader, ReaderRef};
use proptest::prelude::*;
use serde::{Deserialize, Serialize};
use std::collections::BTreeMap;
use std::io::Cursor;

pub static PROP: Prop = Prop {
    id: "C08",
    run,
    replay,
    rule: "one logical sheet (first data row r0 in {0,1,3,10,500}, interior empty rows, 1-25 cells of numbers and strings) encoded in all four formats; a history of 1-5 option changes drawn from {FirstNonEmptyRow, Row(n)} with n in {0, r0-1, r0, a data row, a gap row, the last row, last+1, last+1000, 2^31, u32::MAX}, a read after every change, through worksheet_range (all formats) and worksheet_range_ref (xlsx, xlsb). Oracle: the default read D equals the model; under Row(n) the call does not panic, the range starts at row n iff D has a non-empty cell in a row >= n and is empty otherwise, every position with row >= n holds D's value (absent = Empty), no value from a row < n appears; switching back gives D again. Non-trivial = some n strictly inside or beyond the data; distinct by serialized case.",
};

#[derive(Debug, Clone, Serialize, Deserialize, PartialEq)]
pub enum V {
    N(f64),
    S(String),
}

#[derive(Debug, Clone, Copy, Serialize, Deserialize, PartialEq)]
pub enum Opt {
    Default,
    Row(u32),
}

#[derive(Debug, Clone, Serialize, Deserialize)]
pub struct Case {
    /// (row, col) -> value, rows ascending
    pub cells: Vec<(Pos, V)>,
    pub history: Vec<Opt>,
}

fn case_strategy() -> impl Strategy<Value = Case> {
    (proptest::sample::select(vec![0u32, 0, 1, 3, 10, 500, 65_522, 1_048_562]), proptest::sample::select(vec![0u32, 0, 2, 30]), proptest::collection::btree_map((0u32..14, 0u32..6), prop_oneof![(-100i32..100).prop_map(|i| V::N(i as f64 / 4.0)), "[a-z]{1,5}".prop_map(V::S)], 1..25))
        .prop_flat_map(|(r0, c0, cells)| {
            // make sure the first generated row is r0 (so that r0 is the first data row)
            let min_r = cells.keys().map(|p| p.0).min().unwrap();
            let cells: Vec<(Pos, V)> = cells.into_iter().map(|((r, c), v)| ((r0 + r - min_r, c0 + c), v)).collect();
            let rows: Vec<u32> = cells.iter().map(|(p, _)| p.0).collect();
            let last = *rows.iter().max().unwrap();
            let gaps: Vec<u32> = (r0..last).filter(|r| !rows.contains(r)).collect();
            // (a header row far above data near the end of the sheet would make the dense range huge:
            // row 0 is only offered when the data starts near the top)
            let mut ns = vec![r0.saturating_sub(1), r0, last, last + 1, last + 1000, 1 << 31, u32::MAX];
            if r0 <= 500 {
                ns.push(0);
            }
            ns.extend(rows.iter().copied());
            ns.extend(gaps.iter().copied());
            let opt = prop_oneof![1 => Just(Opt::Default), 5 => proptest::sample::select(ns).prop_map(Opt::Row)];
            (Just(cells), proptest::collection::vec(opt, 1..6)).prop_map(|(cells, history)| Case { cells, history })
        })
}

fn model(case: &Case) -> BTreeMap<Pos, Exp> {
    case.cells
        .iter()
        .map(|(p, v)| {
            (
                *p,
                match v {
                    V::N(f) => Exp::Float(*f),
                    V::S(s) => Exp::Str(s.clone()),
                },
            )
        })
        .collect()
}

fn by_row(case: &Case) -> BTreeMap<u32, Vec<(u32, &V)>> {
    let mut m: BTreeMap<u32, Vec<(u32, &V)>> = BTreeMap::new();
    for (p, v) in &case.cells {
        m.entry(p.0).or_default().push((p.1, v));
    }
    m
}

fn xlsx_bytes(case: &Case) -> Vec<u8> {
    let rows = by_row(case)
        .into_iter()
        .map(|(r, cells)| xx::XRow {
            r,
            explicit: true,
            attrs: false,
            cells: cells
                .into_iter()
                .map(|(c, v)| xx::XCell {
                    col: c,
                    explicit: true,
                    style: None,
                    value: match v {
                        V::N(f) => xx::XVal::Num { lex: f.to_string(), typed: false },
                        V::S(s) => xx::XVal::Inline(xx::XText::plain(s)),
                    },
                    formula: None,
                })
                .collect(),
        })
        .collect();
    // the declared used range may be absent, exact or stale (A1): it must not steer the header row
    let dimension = match case.cells.len() % 3 {
        0 => xx::XDim::Absent,
        1 => xx::XDim::Exact,
        _ => xx::XDim::Custom("A1".into()),
    };
    xx::encode(&xx::XlsxDoc { sheets: vec![xx::XSheet { name: "H".into(), rows, dimension, ..Default::default() }], ..Default::default() })
}

fn xlsb_bytes(case: &Case) -> Vec<u8> {
    let rows = by_row(case)
        .into_iter()
        .map(|(r, cells)| bb::BbRow {
            r,
            before: vec![],
            cells: cells
                .into_iter()
                .map(|(c, v)| bb::BbCell {
                    col: c,
                    style: 0,
                    rec: match v {
                        V::N(f) => bb::BbRec::Real(*f),
                        V::S(s) => bb::BbRec::St(s.clone()),
                    },
                })
                .collect(),
        })
        .collect();
    // BrtWsDim exact, stale (A1) or larger than the data
    bb::encode(&bb::XlsbDoc { sheets: vec![bb::BbSheet { name: "H".into(), rows, dim: (case.cells.len() % 3) as u8, ..Default::default() }], ..Default::default() })
}

fn xls_bytes(case: &Case) -> Vec<u8> {
    let cells = case
        .cells
        .iter()
        .map(|(p, v)| b8::BCell {
            row: p.0 as u16,
            col: p.1 as u16,
            ixfe: 0,
            rec: match v {
                V::N(f) => b8::BRec::Number(*f),
                V::S(s) => b8::BRec::Label(s.clone(), false),
            },
        })
        .collect();
    b8::encode(&b8::XlsDoc { sheets: vec![b8::BSheet { name: "H".into(), cells, dimensions: 1, ..Default::default() }], xfs: vec![0], ..Default::default() })
}

fn ods_bytes(case: &Case) -> Vec<u8> {
    let grid = case
        .cells
        .iter()
        .map(|(p, v)| {
            (
                od::key(*p),
                od::OCell::of(match v {
                    V::N(f) => od::OVal::Float { lex: f.to_string(), kind: 0 },
                    V::S(s) => od::OVal::StrAttr(s.clone()),
                }),
            )
        })
        .collect();
    od::encode(&od::OdsDoc { sheets: vec![od::OSheet { name: "H".into(), grid, ..Default::default() }], ..Default::default() })
}

fn val(r: &Range<Data>, p: Pos) -> Data {
    r.get_value(p).cloned().unwrap_or(Data::Empty)
}

/// the relation between the default read `d` and a read `got` under Row(n)
fn check_row_n(d: &Range<Data>, got: &Range<Data>, n: u32, what: &str) -> Result<(), String> {
    let has_later = d.used_cells().any(|(r, _, _)| d.start().unwrap().0 + r as u32 >= n);
    if !has_later {
        return if got.is_empty() { Ok(()) } else { Err(format!("{what}: no non-empty cell in a row >= {n}, yet the range is {:?}..{:?}", got.start(), got.end())) };
    }
    let (Some(gs), Some(ge)) = (got.start(), got.end()) else {
        return Err(format!("{what}: the sheet has a non-empty cell in a row >= {n} but the range is empty"));
    };
    if gs.0 != n {
        return Err(format!("{what}: the range starts at row {}, expected exactly the header row {n}", gs.0));
    }
    let (ds, de) = (d.start().unwrap(), d.end().unwrap());
    // every position with row >= n in the union of both boxes
    for r in n.max(ds.0.min(gs.0))..=de.0.max(ge.0) {
        for c in ds.1.min(gs.1)..=de.1.max(ge.1) {
            if r >= n && val(got, (r, c)) != val(d, (r, c)) {
                return Err(format!("{what}: position ({r},{c}) holds {:?}, under the default option it holds {:?}", val(got, (r, c)), val(d, (r, c))));
            }
        }
    }
    // nothing from above the header row
    if got.used_cells().any(|(r, _, _)| gs.0 + (r as u32) < n) {
        return Err(format!("{what}: a value from a row < {n} appears"));
    }
    Ok(())
}

fn drive<R>(wb: &mut R, case: &Case, fmt: &str, with_ref: Option<&dyn Fn(&mut R) -> Result<Range<Data>, String>>, rep: &mut Report)
where
    R: Reader<Cursor<Vec<u8>>>,
    R::Error: std::fmt::Debug,
{
    let expected = model(case);
    let d = match guard(|| wb.worksheet_range("H")) {
        Ok(Ok(r)) => r,
        other => {
            rep.fail(format!("{fmt}: default read: {:?}", other.map(|r| r.map(|_| ()))));
            return;
        }
    };
    if let Err(e) = check_range(&d, &expected, &format!("{fmt}: default option")) {
        rep.fail(e);
        return;
    }
    for (i, o) in case.history.iter().enumerate() {
        let what = format!("{fmt}: after option change {i} to {o:?}");
        let set = match o {
            Opt::Default => HeaderRow::FirstNonEmptyRow,
            Opt::Row(n) => HeaderRow::Row(*n),
        };
        wb.with_header_row(set);
        let mut reads: Vec<(String, Range<Data>)> = vec![];
        match guard(|| wb.worksheet_range("H")) {
            Ok(Ok(r)) => reads.push(("worksheet_range".into(), r)),
            Ok(Err(e)) => {
                rep.fail(format!("{what}: worksheet_range failed: {e:?}"));
                return;
            }
            Err(p) => {
                rep.fail(format!("{what}: worksheet_range: {p}"));
                return;
            }
        }
        if let Some(f) = with_ref {
            match guard(|| f(wb)) {
                Ok(Ok(r)) => reads.push(("worksheet_range_ref".into(), r)),
                Ok(Err(e)) => {
                    rep.fail(format!("{what}: worksheet_range_ref failed: {e}"));
                    return;
                }
                Err(p) => {
                    rep.fail(format!("{what}: worksheet_range_ref: {p}"));
                    return;
                }
            }
        }
        // the option stays in force: a further read without setting it again answers the same
        match guard(|| wb.worksheet_range("H")) {
            Ok(Ok(r)) => reads.push(("worksheet_range (second read under the same option)".into(), r)),
            Ok(Err(e)) => {
                rep.fail(format!("{what}: second worksheet_range failed: {e:?}"));
                return;
            }
            Err(p) => {
                rep.fail(format!("{what}: second worksheet_range: {p}"));
                return;
            }
        }
        for (name, got) in reads {
            let res = match o {
                Opt::Default => check_range(&got, &expected, &format!("{what}: {name}")),
                Opt::Row(n) => check_row_n(&d, &got, *n, &format!("{what}: {name}")),
            };
            if let Err(e) = res {
                rep.fail(e);
                return;
            }
        }
    }
    // the option can be changed back
    wb.with_header_row(HeaderRow::FirstNonEmptyRow);
    match guard(|| wb.worksheet_range("H")) {
        Ok(Ok(r)) => {
            if let Err(e) = check_range(&r, &expected, &format!("{fmt}: back to the default option")) {
                rep.fail(e);
            }
        }
        other => rep.fail(format!("{fmt}: back to the default option: {:?}", other.map(|r| r.map(|_| ())))),
    }
}

fn to_owned_range(r: Range<calamine::DataRef<'_>>) -> Range<Data> {
    match (r.start(), r.end()) {
        (Some(s), Some(e)) => {
            let mut out = Range::new(s, e);
            for (row, col, v) in r.used_cells() {
                out.set_value((s.0 + row as u32, s.1 + col as u32), Data::from(v.clone()));
            }
            out
        }
        _ => Range::empty(),
    }
}

fn oracle(case: &Case) -> Report {
    let mut rep = Report::new();
    let fits_xls = case.cells.iter().all(|(p, _)| p.0 < 65_536 && p.1 < 256);
    match crate::props::c01::open_xlsx(xlsx_bytes(case)) {
        Ok(mut wb) => drive(&mut wb, case, "xlsx", Some(&|w: &mut calamine::Xlsx<_>| w.worksheet_range_ref("H").map(to_owned_range).map_err(|e| format!("{e:?}"))), &mut rep),
        Err(e) => rep.fail(e),
    }
    if rep.failed() {
        return rep;
    }
    match crate::props::c03::open_xlsb(xlsb_bytes(case)) {
        Ok(mut wb) => drive(&mut wb, case, "xlsb", Some(&|w: &mut calamine::Xlsb<_>| w.worksheet_range_ref("H").map(to_owned_range).map_err(|e| format!("{e:?}"))), &mut rep),
        Err(e) => rep.fail(e),
    }
    if rep.failed() {
        return rep;
    }
    if fits_xls {
        match crate::props::c02::open_xls(xls_bytes(case)) {
            Ok(mut wb) => drive(&mut wb, case, "xls", None, &mut rep),
            Err(e) => rep.fail(e),
        }
        // the xls reader also takes the option at construction (XlsOptions::header_row)
        if let (false, Some(Opt::Row(n))) = (rep.failed(), case.history.iter().find(|o| matches!(o, Opt::Row(_)))) {
            let bytes = xls_bytes(case);
            let r = guard(|| {
                let mut d = calamine::Xls::new(Cursor::new(bytes.clone())).map_err(|e| format!("{e:?}"))?;
                let default = d.worksheet_range("H").map_err(|e| format!("{e:?}"))?;
                let mut o = calamine::XlsOptions::default();
                o.header_row = HeaderRow::Row(*n);
                let mut wb = calamine::Xls::new_with_options(Cursor::new(bytes.clone()), o).map_err(|e| format!("{e:?}"))?;
                let got = wb.worksheet_range("H").map_err(|e| format!("{e:?}"))?;
                check_row_n(&default, &got, *n, &format!("xls: XlsOptions {{ header_row: Row({n}) }} at construction"))
            });
            match r {
                Ok(Ok(())) => rep.label("xls:option-at-construction"),
                Ok(Err(e)) => rep.fail(e),
                Err(p) => rep.fail(format!("xls: new_with_options: {p}")),
            }
        }
        if rep.failed() {
            return rep;
        }
    }
    match crate::props::c04::open_ods(ods_bytes(case)) {
        Ok(mut wb) => drive(&mut wb, case, "ods", None, &mut rep),
        Err(e) => rep.fail(e),
    }
    // the same through the auto-detecting wrapper, which has to forward the option to the reader it wraps
    if !rep.failed() {
        let mut all: Vec<(&str, Vec<u8>)> = vec![("xlsx", xlsx_bytes(case)), ("xlsb", xlsb_bytes(case)), ("ods", ods_bytes(case))];
        if fits_xls {
            all.push(("xls", xls_bytes(case)));
        }
        for (fmt, bytes) in all {
            match guard(|| calamine::open_workbook_auto_from_rs(Cursor::new(bytes))) {
                Ok(Ok(mut wb)) => drive(&mut wb, case, &format!("{fmt} through open_workbook_auto_from_rs"), None, &mut rep),
                Ok(Err(e)) => rep.fail(format!("{fmt}: open_workbook_auto_from_rs: {e:?}")),
                Err(p) => rep.fail(format!("{fmt}: open_workbook_auto_from_rs: {p}")),
            }
            if rep.failed() {
                return rep;
            }
        }
    }
    let rows: Vec<u32> = case.cells.iter().map(|(p, _)| p.0).collect();
    let (first, last) = (*rows.iter().min().unwrap(), *rows.iter().max().unwrap());
    let mut nt = false;
    for o in &case.history {
        if let Opt::Row(n) = o {
            rep.label(if *n < first {
                "n:before-data"
            } else if *n == first {
                "n:first-data-row"
            } else if *n > last {
                "n:beyond-data"
            } else if rows.contains(n) {
                "n:data-row"
            } else {
                "n:gap-row"
            });
            nt |= *n > first;
        } else {
            rep.label("reset-to-default");
        }
    }
    rep.nontrivial = nt;
    rep
}

fn run(ctx: &mut Ctx) {
    let n = ctx.n(2000, 60_000);
    ctx.run("four-formats", n, case_strategy, oracle);
    ctx.assumptions.push("column extents are only constrained through the values: every position with row >= n must hold the default read's value, which lets the eager (xls, ods) and lazy (xlsx, xlsb) readers choose different padding".into());
}

fn replay(sub: &str, case: &serde_json::Value) -> Option<Report> {
    match sub {
        "four-formats" => replay_as::<Case>(case, oracle),
        _ => None,
    }
}
