#![allow(dead_code)]
//! `check <ID> [--tier quick|thorough] [--seed N] [--replay FILE]`
//!
//! exit 0: the property held on everything explored (KNOWN-FINDING lines may be printed)
//! exit 1: a violation was found; a line `VIOLATION property=<id> replay=<path>` is printed
//! exit 2: inconclusive / infrastructure problem (never a violation)

mod engine;
mod enc;
mod model;
mod props;

use engine::{Ctx, Tier};

fn usage() -> ! {
    eprintln!("usage: check <C01..C20> [--tier quick|thorough] [--seed N] [--replay FILE]");
    std::process::exit(2)
}

fn main() {
    let args: Vec<String> = std::env::args().skip(1).collect();
    if args.is_empty() {
        usage();
    }
    let id = args[0].to_uppercase();
    let mut tier = match std::env::var("VERIF_TIER").ok().as_deref() {
        Some("thorough") => Tier::Thorough,
        _ => Tier::Quick,
    };
    let mut seed: u64 = std::env::var("VERIF_SEED").ok().and_then(|s| s.trim().parse::<i128>().ok()).map(|v| v as u64).unwrap_or(0);
    let mut replay: Option<String> = None;
    let mut i = 1;
    while i < args.len() {
        match args[i].as_str() {
            "--tier" => {
                i += 1;
                tier = match args.get(i).map(|s| s.as_str()) {
                    Some("quick") => Tier::Quick,
                    Some("thorough") => Tier::Thorough,
                    _ => usage(),
                }
            }
            "--seed" => {
                i += 1;
                seed = args.get(i).and_then(|s| s.parse().ok()).unwrap_or_else(|| usage());
            }
            "--replay" => {
                i += 1;
                replay = Some(args.get(i).cloned().unwrap_or_else(|| usage()));
            }
            _ => usage(),
        }
        i += 1;
    }
    engine::install_panic_hook();

    let Some(prop) = props::lookup(&id) else {
        eprintln!("unknown property {id}");
        std::process::exit(2)
    };

    if let Some(path) = replay {
        let Some((sub, case)) = engine::load_replay(&path) else {
            eprintln!("cannot read replay file {path}");
            std::process::exit(2)
        };
        match (prop.replay)(&sub, &case) {
            None => {
                eprintln!("replay names unknown sub-check {sub} of {id}");
                std::process::exit(2)
            }
            Some(rep) => match rep.verdict {
                Some(m) => {
                    println!("VIOLATION property={id} replay={path}");
                    println!("  {m}");
                    std::process::exit(1)
                }
                None => {
                    println!("replay {path}: property {id} holds on this case");
                    std::process::exit(0)
                }
            },
        }
    }

    let mut ctx = Ctx::new(&id, tier, seed);
    ctx.replay_tier(&|sub, case| (prop.replay)(sub, case));
    (prop.run)(&mut ctx);
    let code = ctx.finish(prop.rule);
    std::process::exit(code)
}
