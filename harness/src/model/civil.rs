//! Proleptic-Gregorian civil calendar arithmetic written for the harness (no chrono):
//! the classic days-from-civil / civil-from-days algorithms.

/// days since 1970-01-01 of the civil date y-m-d
pub fn days_from_civil(y: i64, m: u32, d: u32) -> i64 {
    let y = if m <= 2 { y - 1 } else { y };
    let era = if y >= 0 { y } else { y - 399 } / 400;
    let yoe = y - era * 400; // [0, 399]
    let mp = (m as i64 + 9) % 12; // March = 0
    let doy = (153 * mp + 2) / 5 + d as i64 - 1; // [0, 365]
    let doe = yoe * 365 + yoe / 4 - yoe / 100 + doy; // [0, 146096]
    era * 146097 + doe - 719468
}

/// civil date of a day count since 1970-01-01
pub fn civil_from_days(z: i64) -> (i64, u32, u32) {
    let z = z + 719468;
    let era = if z >= 0 { z } else { z - 146096 } / 146097;
    let doe = z - era * 146097; // [0, 146096]
    let yoe = (doe - doe / 1460 + doe / 36524 - doe / 146096) / 365; // [0, 399]
    let y = yoe + era * 400;
    let doy = doe - (365 * yoe + yoe / 4 - yoe / 100); // [0, 365]
    let mp = (5 * doy + 2) / 153; // [0, 11]
    let d = (doy - (153 * mp + 2) / 5 + 1) as u32;
    let m = if mp < 10 { mp + 3 } else { mp - 9 } as u32;
    (if m <= 2 { y + 1 } else { y }, m, d)
}

/// days since 1970-01-01 of 1899-12-30, the spreadsheet epoch for serials >= 61 (1900 system)
pub fn epoch_1899_12_30() -> i64 {
    days_from_civil(1899, 12, 30)
}

#[cfg(test)]
mod tests {
    use super::*;
    #[test]
    fn roundtrip() {
        assert_eq!(days_from_civil(1970, 1, 1), 0);
        assert_eq!(civil_from_days(0), (1970, 1, 1));
        assert_eq!(days_from_civil(1900, 3, 1) - epoch_1899_12_30(), 61);
        assert_eq!(days_from_civil(1900, 1, 1) - epoch_1899_12_30(), 2);
        assert_eq!(days_from_civil(9999, 12, 31) - epoch_1899_12_30(), 2958465);
        assert_eq!(days_from_civil(1904, 1, 1) - epoch_1899_12_30(), 1462);
        for z in (-800_000..3_700_000).step_by(37) {
            let (y, m, d) = civil_from_days(z);
            assert_eq!(days_from_civil(y, m, d), z);
        }
    }
}
