#!/usr/bin/env python3
"""Regenerates /verif/MANIFEST.json from the table below (single source of truth for what is claimed)."""
import json, sys

CHECKS = {
 "C05": dict(
   technique="model-based property testing (proptest): generated operation histories interpreted on Range and on a reference model, full read-API comparison after every step; thorough adds exhaustive enumeration of all histories of length <=3 over a 3x3 universe",
   text="Generated-history exploration against a reference model. Every accessor (start/end/size/rows/cells/used_cells/get/get_value/Index, forward and reverse iteration) is compared with the model after every operation, so a Range that is not a full rectangle or a set_value/range/from_sparse that moves, drops or invents a cell is observed at the step where it happens. Exploration, not proof: histories longer than 25 ops or with areas beyond ~20x20 are not generated.",
   note="Trusts the harness's reference model (a BTreeMap plus optional bounds). Coordinates < 2^31+20; constructors called within their documented preconditions only.",
   design="4/C05"),
}

NOT_APPLICABLE = {
}
for i in range(1, 21):
    pid = "C%02d" % i
    if pid not in CHECKS and pid not in NOT_APPLICABLE:
        NOT_APPLICABLE[pid] = "check not built yet in this revision of /verif (planned, see DESIGN.md section 8b); nothing is claimed for it"

manifest = {
  "version": 1,
  "setup_cmd": "cd /verif/harness && CARGO_NET_OFFLINE=true cargo build --release --offline",
  "hooks": {
    "guard": "cargo feature `verif-hooks` of the calamine crate (off by default, not part of `default`)",
    "enable": "the harness crate /verif/harness depends on calamine by path (/repo) with features [\"dates\", \"verif-hooks\"]; every check command first runs `cargo build --release --offline` there, which recompiles /repo's current working tree",
    "baseline_off_cmd": "cd /repo && cargo test --workspace --no-fail-fast --offline",
    "source_commits": ["b1459e9"],
    "add_only": True,
  },
  "engines": [
    {"name": "cverif", "path": "/verif/harness", "serves_properties": sorted(CHECKS),
     "kind_free_text": "Rust binary `check`: seeded 16-thread proptest driver (TestRunner per thread, fixed ChaCha seeds derived from VERIF_SEED), shrinking, JSON replay files, known-findings plumbing, evidence writer; independent file-format encoders and reference models per property"},
  ],
  "checks": [],
  "not_applicable": [{"property_id": k, "reason": v} for k, v in sorted(NOT_APPLICABLE.items())],
  "notes": "All checks: `./check <ID> --tier quick|thorough` (cwd /verif). VERIF_SEED seeds every generator; exit 0 = held, 1 = VIOLATION line printed, 2 = inconclusive (build failure, generator abort) and never a violation. Known findings: /verif/known_findings.json.",
}
for pid in sorted(CHECKS):
    c = CHECKS[pid]
    manifest["checks"].append({
      "property_id": pid,
      "quick_cmd": f"./check {pid} --tier quick",
      "thorough_cmd": f"./check {pid} --tier thorough",
      "evidence_file": f"/verif/evidence/{pid}.json",
      "replay_cmd_template": f"./check {pid} --replay {{path}}",
      "engine": "cverif",
      "level_claimed": {"category": "exploration", "text": c["text"], "design_ref": c["design"]},
      "level_note": c["note"],
      "technique": c["technique"],
    })
json.dump(manifest, open("/verif/MANIFEST.json", "w"), indent=1)
print("wrote MANIFEST.json with", len(manifest["checks"]), "checks,", len(manifest["not_applicable"]), "not applicable")
