//! shared by the two targets: the complete read API of the four readers, auto-detection and the
//! VBA reader over one byte string
use calamine::{open_workbook_auto_from_rs, Ods, Reader, ReaderRef, Sheets, Xls, Xlsb, Xlsx};
use std::io::Cursor;

fn drive_reader<R: Reader<Cursor<Vec<u8>>>>(wb: &mut R) {
    let names = wb.sheet_names();
    let _ = wb.sheets_metadata().len();
    let _ = wb.defined_names().len();
    for n in names.iter().take(6) {
        let _ = wb.worksheet_range(n);
        let _ = wb.worksheet_formula(n);
    }
    let _ = wb.worksheet_range_at(0);
    if let Some(Ok(v)) = wb.vba_project() {
        for m in v.get_module_names() {
            let _ = v.get_module(m);
            let _ = v.get_module_raw(m);
        }
        let _ = v.get_references().len();
    }
    let _ = wb.worksheet_range("\u{1}unknown");
}

pub fn exercise(bytes: &[u8]) {
    if let Ok(mut wb) = Xlsx::new(Cursor::new(bytes.to_vec())) {
        drive_reader(&mut wb);
        let names = wb.sheet_names();
        for n in names.iter().take(6) {
            let _ = wb.worksheet_range_ref(n).map(|r| r.get_size());
            let _ = wb.worksheet_merge_cells(n);
        }
        if wb.load_merged_regions().is_ok() {
            let _ = wb.merged_regions().len();
        }
        if wb.load_tables().is_ok() {
            let t: Vec<String> = wb.table_names().into_iter().cloned().collect();
            for n in t.iter().take(6) {
                let _ = wb.table_by_name(n).map(|t| t.data().get_size());
            }
        }
    }
    if let Ok(mut wb) = Xlsb::new(Cursor::new(bytes.to_vec())) {
        drive_reader(&mut wb);
        for n in wb.sheet_names().iter().take(6) {
            let _ = wb.worksheet_range_ref(n).map(|r| r.get_size());
        }
    }
    if let Ok(mut wb) = Xls::new(Cursor::new(bytes.to_vec())) {
        drive_reader(&mut wb);
        for n in wb.sheet_names().iter().take(6) {
            let _ = wb.worksheet_merge_cells(n);
        }
    }
    if let Ok(mut wb) = Ods::new(Cursor::new(bytes.to_vec())) {
        drive_reader(&mut wb);
    }
    if let Ok(mut wb) = open_workbook_auto_from_rs(Cursor::new(bytes.to_vec())) {
        let names = wb.sheet_names();
        for n in names.iter().take(2) {
            let _ = wb.worksheet_range(n);
            if matches!(wb, Sheets::Xlsx(_) | Sheets::Xlsb(_)) {
                let _ = wb.worksheet_range_ref(n).map(|r| r.get_size());
            }
        }
    }
    if bytes.starts_with(&[0xD0, 0xCF]) {
        if let Ok(v) = calamine::vba::VbaProject::new(&mut Cursor::new(bytes), bytes.len()) {
            for m in v.get_module_names() {
                let _ = v.get_module(m);
            }
        }
    }
}
