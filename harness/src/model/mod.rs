// logical models and reference implementations
