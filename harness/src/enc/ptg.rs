//! Formula AST -> parsed-expression bytes (rgce) for BIFF8 (.xls) and BIFF12 (.xlsb), and the
//! A1 text the token stream denotes.

use crate::model::formula::{render_cell, CellRef, Expr, ERRS};

#[derive(Debug, Clone, Copy, PartialEq)]
pub enum Biff {
    B8,
    B12,
}

/// (name, iftab, fixed arity or None for variable-arity functions)
pub const FUNCS: &[(&str, u16, Option<u8>)] = &[
    ("COUNT", 0, None),
    ("IF", 1, None),
    ("ISNA", 2, Some(1)),
    ("ISERROR", 3, Some(1)),
    ("SUM", 4, None),
    ("AVERAGE", 5, None),
    ("MIN", 6, None),
    ("MAX", 7, None),
    ("NA", 10, Some(0)),
    ("SIN", 15, Some(1)),
    ("PI", 19, Some(0)),
    ("SQRT", 20, Some(1)),
    ("LOG10", 23, Some(1)),
    ("ABS", 24, Some(1)),
    ("INT", 25, Some(1)),
    ("ROUND", 27, Some(2)),
    ("REPT", 30, Some(2)),
    ("MID", 31, Some(3)),
    ("LEN", 32, Some(1)),
    ("TRUE", 34, Some(0)),
    ("AND", 36, None),
    ("OR", 37, None),
    ("NOT", 38, Some(1)),
    ("MOD", 39, Some(2)),
    ("ATAN2", 97, Some(2)),
    ("CHOOSE", 100, None),
    ("UPPER", 113, Some(1)),
    ("LEFT", 115, None),
    ("EXACT", 117, Some(2)),
    ("REPLACE", 119, Some(4)),
    ("T", 130, Some(1)),
    ("CONCATENATE", 336, None),
    ("POWER", 337, Some(2)),
];

pub const BERR_CODES: [u8; 7] = [0x00, 0x07, 0x0F, 0x17, 0x1D, 0x24, 0x2A];

pub struct Ctx<'a> {
    /// sheet name -> XTI index
    pub ixti: &'a dyn Fn(&str) -> u16,
    /// defined name -> 1-based index
    pub name_index: &'a dyn Fn(&str) -> u32,
    /// knob bytes choosing the token class (reference / value / array) of operand tokens
    pub class_knob: u8,
}

fn col_field(c: &CellRef) -> u16 {
    // ColRelU / ColRelShort: 14 bits of column, bit 14 = column relative, bit 15 = row relative
    (c.col as u16 & 0x3FFF) | ((!c.abs_col as u16) << 14) | ((!c.abs_row as u16) << 15)
}

fn class(base: u8, knob: u8, salt: usize) -> u8 {
    base + [0x00, 0x20, 0x40][(knob as usize + salt) % 3]
}

pub fn encode(e: &Expr, biff: Biff, ctx: &Ctx, out: &mut Vec<u8>) {
    let salt = out.len();
    let row = |r: u32, out: &mut Vec<u8>| match biff {
        Biff::B8 => out.extend_from_slice(&(r as u16).to_le_bytes()),
        Biff::B12 => out.extend_from_slice(&r.to_le_bytes()),
    };
    match e {
        Expr::Ref(None, c) => {
            out.push(class(0x24, ctx.class_knob, salt));
            row(c.row, out);
            out.extend_from_slice(&col_field(c).to_le_bytes());
        }
        Expr::Area(None, a, b) => {
            out.push(class(0x25, ctx.class_knob, salt));
            row(a.row, out);
            row(b.row, out);
            out.extend_from_slice(&col_field(a).to_le_bytes());
            out.extend_from_slice(&col_field(b).to_le_bytes());
        }
        Expr::Ref(Some(s), c) => {
            out.push(class(0x3A, ctx.class_knob, salt));
            out.extend_from_slice(&(ctx.ixti)(s).to_le_bytes());
            row(c.row, out);
            out.extend_from_slice(&col_field(c).to_le_bytes());
        }
        Expr::Area(Some(s), a, b) => {
            out.push(class(0x3B, ctx.class_knob, salt));
            out.extend_from_slice(&(ctx.ixti)(s).to_le_bytes());
            row(a.row, out);
            row(b.row, out);
            out.extend_from_slice(&col_field(a).to_le_bytes());
            out.extend_from_slice(&col_field(b).to_le_bytes());
        }
        Expr::Name(n) => {
            out.push(class(0x23, ctx.class_knob, salt));
            out.extend_from_slice(&(ctx.name_index)(n).to_le_bytes());
        }
        Expr::Num(l) => match l.parse::<u16>() {
            Ok(i) if !l.contains(['.', 'E', 'e', '+']) => {
                out.push(0x1E);
                out.extend_from_slice(&i.to_le_bytes());
            }
            _ => {
                out.push(0x1F);
                out.extend_from_slice(&l.parse::<f64>().expect("number").to_le_bytes());
            }
        },
        Expr::Str(s) => {
            out.push(0x17);
            let u: Vec<u16> = s.encode_utf16().collect();
            match biff {
                Biff::B8 => {
                    let wide = u.iter().any(|c| *c > 0xFF) || ctx.class_knob & 0x10 != 0;
                    out.push(u.len() as u8);
                    out.push(wide as u8);
                    for c in u {
                        if wide {
                            out.extend_from_slice(&c.to_le_bytes());
                        } else {
                            out.push(c as u8);
                        }
                    }
                }
                Biff::B12 => {
                    out.extend_from_slice(&(u.len() as u16).to_le_bytes());
                    for c in u {
                        out.extend_from_slice(&c.to_le_bytes());
                    }
                }
            }
        }
        Expr::Bool(b) => {
            out.push(0x1D);
            out.push(*b as u8);
        }
        Expr::Err(k) => {
            out.push(0x1C);
            out.push(BERR_CODES[*k as usize % 7]);
        }
        Expr::Neg(x) => {
            encode(x, biff, ctx, out);
            out.push(0x13);
        }
        Expr::Plus(x) => {
            encode(x, biff, ctx, out);
            out.push(0x12);
        }
        Expr::Percent(x) => {
            encode(x, biff, ctx, out);
            out.push(0x14);
        }
        Expr::Paren(x) => {
            encode(x, biff, ctx, out);
            out.push(0x15);
        }
        Expr::Bin(op, l, r) => {
            encode(l, biff, ctx, out);
            encode(r, biff, ctx, out);
            out.push(match op.as_str() {
                "+" => 0x03,
                "-" => 0x04,
                "*" => 0x05,
                "/" => 0x06,
                "^" => 0x07,
                "&" => 0x08,
                "<" => 0x09,
                "<=" => 0x0A,
                "=" => 0x0B,
                ">=" => 0x0C,
                ">" => 0x0D,
                "<>" => 0x0E,
                _ => panic!("operator {op}"),
            });
        }
        Expr::Func(name, args) => {
            for a in args {
                encode(a, biff, ctx, out);
            }
            if name == "SUM" && args.len() == 1 && ctx.class_knob & 0x20 != 0 {
                // single-argument SUM as PtgAttrSum
                out.extend_from_slice(&[0x19, 0x10, 0, 0]);
                return;
            }
            let (_, iftab, arity) = FUNCS.iter().find(|f| f.0 == name).expect("known function");
            match arity {
                Some(_) => {
                    out.push(class(0x21, ctx.class_knob, salt));
                    out.extend_from_slice(&iftab.to_le_bytes());
                }
                None => {
                    out.push(class(0x22, ctx.class_knob, salt));
                    out.push(args.len() as u8);
                    out.extend_from_slice(&iftab.to_le_bytes());
                }
            }
        }
    }
}

/// the A1 text a token stream denotes (what a reader renders): numbers in their shortest form,
/// strings between quotes, no white space
pub fn render_tokens(e: &Expr) -> String {
    match e {
        Expr::Ref(s, c) => format!("{}{}", s.as_deref().map_or(String::new(), |s| format!("{s}!")), render_cell(c)),
        Expr::Area(s, a, b) => format!("{}{}:{}", s.as_deref().map_or(String::new(), |s| format!("{s}!")), render_cell(a), render_cell(b)),
        Expr::Name(n) => n.clone(),
        Expr::Num(l) => match l.parse::<u16>() {
            Ok(i) if !l.contains(['.', 'E', 'e', '+']) => i.to_string(),
            _ => format!("{}", l.parse::<f64>().unwrap()),
        },
        Expr::Str(s) => format!("\"{s}\""),
        Expr::Bool(b) => if *b { "TRUE" } else { "FALSE" }.to_string(),
        Expr::Err(k) => ERRS[*k as usize % 7].to_string(),
        Expr::Neg(x) => format!("-{}", render_tokens(x)),
        Expr::Plus(x) => format!("+{}", render_tokens(x)),
        Expr::Percent(x) => format!("{}%", render_tokens(x)),
        Expr::Paren(x) => format!("({})", render_tokens(x)),
        Expr::Bin(op, l, r) => format!("{}{}{}", render_tokens(l), op, render_tokens(r)),
        Expr::Func(n, args) => format!("{}({})", n, args.iter().map(render_tokens).collect::<Vec<_>>().join(",")),
    }
}
