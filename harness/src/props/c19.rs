//! C19 — cell text survives every storage form and escaping layer unchanged.

use crate::enc::xlsx::*;
use crate::engine::{replay_as, Ctx, Report};
use crate::model::strings::{has_edge_space, has_special, split_at_cuts, xml_string};
use crate::props::c01::read_and_check;
use crate::props::Prop;
use proptest::prelude::*;
use serde::{Deserialize, Serialize};

pub static PROP: Prop = Prop {
    id: "C19",
    run,
    replay,
    rule: "(xlsb: BrtSSTItem plain / with rich+phonetic tails, BrtCellSt, BrtFmlaString; xls: SST 8/16-bit, rich+ExtRst with cuts and packing change, LABEL, FORMULA+STRING; ods: office:string-value, text:p with literal spaces / text:s / text:tab / text:line-break / text:span / several paragraphs, three escape styles) generated Unicode strings (XML specials, leading/trailing/repeated spaces, TAB/LF/CR, combining marks, astral characters, empty, up to 32767 units in the thorough tier) x storage form per format. xlsx: shared / inline / t=\"str\"; plain <t>, 1-5 rich runs cut at generated points, phonetic run + phoneticPr; entities vs hex vs decimal character references vs CDATA; xml:space; unused and EMPTY shared items (<si/>, <si><t/></si>, <si><t></t></si>, phonetic-only) placed before and between used items so that index alignment is observable; prefixed and pretty-printed parts. Oracle: exact string equality at the cell through worksheet_range and worksheet_range_ref. Non-trivial = the string has edge white space, an XML-special or astral character AND is stored in a non-plain form (rich runs, phonetic data, character references/CDATA, or behind an empty shared item); distinct by serialized case.",
};

// ---------------------------------------------------------------------------------------------
// xlsx

#[derive(Debug, Clone, Serialize, Deserialize)]
pub struct XItem {
    pub text: String,
    /// 0 shared, 1 inline, 2 t="str"
    pub form: u8,
    pub cuts: Vec<u16>,
    pub phonetic: Option<String>,
    pub preserve: bool,
    pub esc: u8,
}

#[derive(Debug, Clone, Serialize, Deserialize)]
pub struct XCase {
    pub items: Vec<XItem>,
    pub prepend: Vec<SstExtra>,
    pub interleave: Option<SstExtra>,
    pub dedupe: bool,
    pub enc: XEnc,
}

pub fn extra_strategy() -> impl Strategy<Value = SstExtra> {
    prop_oneof![
        2 => Just(SstExtra::EmptySi),
        2 => Just(SstExtra::EmptyT),
        1 => Just(SstExtra::EmptyTOpen),
        1 => Just(SstExtra::OnlyPhonetic),
        2 => xml_string(12).prop_map(|s| SstExtra::Text(XText::plain(&s))),
    ]
}

fn xitem(max_len: usize) -> impl Strategy<Value = XItem> {
    (
        xml_string(max_len),
        prop_oneof![3 => Just(0u8), 2 => Just(1u8), 1 => Just(2u8)],
        prop_oneof![2 => Just(vec![]), 2 => proptest::collection::vec(any::<u16>(), 0..5)],
        proptest::option::weighted(0.25, xml_string(6)),
        any::<bool>(),
        prop_oneof![3 => Just(0u8), 1 => Just(1u8), 1 => Just(2u8), 1 => Just(3u8)],
    )
        .prop_map(|(text, form, cuts, phonetic, preserve, esc)| {
            // a string with edge white space or line breaks is only stored legally with xml:space="preserve"
            let needs = has_edge_space(&text) || text.contains(['\n', '\t', '\r']) || text.is_empty();
            let mut it = XItem { text, form, cuts, phonetic, preserve: preserve || needs, esc };
            if it.form == 2 {
                // <v> cannot carry xml:space: keep strings whose white space is not at an edge of a run
                it.cuts.clear();
                it.phonetic = None;
                // <v> is plain character data: blanks at its edges, tabs and line feeds are kept as they
                // are (no xml:space needed); only a carriage return needs its character reference,
                // which the encoder writes
                let _ = needs;
            }
            it
        })
}

fn xcase_strategy(max_len: usize) -> impl Strategy<Value = XCase> {
    (
        proptest::collection::vec(xitem(max_len), 1..8),
        proptest::collection::vec(extra_strategy(), 0..3),
        proptest::option::weighted(0.4, extra_strategy()),
        any::<bool>(),
        crate::props::c01::enc_strategy(),
    )
        .prop_map(|(items, prepend, interleave, dedupe, enc)| XCase { items, prepend, interleave, dedupe, enc })
}

fn xdoc(case: &XCase, cdata_ok: bool, excluded: &mut bool) -> XlsxDoc {
    let mut rows = Vec::new();
    for (i, it) in case.items.iter().enumerate() {
        let mut esc = it.esc;
        if esc == 3 && !cdata_ok {
            esc = 0;
            *excluded = true;
        }
        let runs = if it.cuts.is_empty() { vec![it.text.clone()] } else { split_at_cuts(&it.text, &it.cuts) };
        let xt = XText { rich: !it.cuts.is_empty(), runs, phonetic: it.phonetic.clone(), preserve: it.preserve, esc };
        let value = match it.form {
            0 => XVal::Shared(xt),
            1 => XVal::Inline(xt),
            _ => XVal::Str(it.text.clone()),
        };
        let formula = (it.form == 2).then(|| XFormula::Plain("A1&\"\"".into()));
        rows.push(XRow { r: i as u32 + 1, explicit: i % 2 == 0, attrs: false, cells: vec![XCell { col: (i % 4) as u32, explicit: i % 3 != 0, style: None, value, formula }] });
    }
    XlsxDoc {
        sheets: vec![XSheet { name: "T".into(), rows, dimension: XDim::Absent, ..Default::default() }],
        sst: SstKnobs { prepend: case.prepend.clone(), interleave: case.interleave.clone(), dedupe: case.dedupe, counts: true },
        enc: case.enc.clone(),
        ..Default::default()
    }
}

fn oracle_xlsx_with(case: &XCase, cdata_ok: bool) -> Report {
    let mut rep = Report::new();
    let mut excluded = false;
    let doc = xdoc(case, cdata_ok, &mut excluded);
    if excluded {
        rep.excluded = Some("xlsx-cdata".into());
    }
    read_and_check(&doc, "xlsx", &mut rep);
    let behind_empty = case.prepend.iter().chain(case.interleave.iter()).any(|e| !matches!(e, SstExtra::Text(_)));
    let mut nt = false;
    for it in &case.items {
        let hard = has_edge_space(&it.text) || has_special(&it.text);
        let nonplain = !it.cuts.is_empty() || it.phonetic.is_some() || it.esc != 0 || (it.form == 0 && behind_empty);
        nt |= hard && nonplain;
        rep.label(match it.form {
            0 => "xlsx:shared",
            1 => "xlsx:inline",
            _ => "xlsx:str",
        });
        rep.label_if(!it.cuts.is_empty(), "xlsx:rich-runs");
        rep.label_if(it.phonetic.is_some(), "xlsx:phonetic");
        rep.label_if(it.esc == 1 || it.esc == 2, "xlsx:char-refs");
        rep.label_if(it.esc == 3 && cdata_ok, "xlsx:cdata");
        rep.label_if(it.text.is_empty(), "empty-string");
        rep.label_if(it.text.chars().any(|c| c as u32 > 0xFFFF), "astral");
        rep.label_if(it.text.len() > 1000, "long");
    }
    rep.label_if(behind_empty, "xlsx:empty-shared-items-present");
    rep.nontrivial = nt;
    rep
}

fn oracle_xlsx(case: &XCase) -> Report {
    let f = crate::engine::Findings::load_cached();
    oracle_xlsx_with(case, !f.active("C19-xlsx-cdata"))
}

/// used by the pinned witness of the CDATA finding: CDATA is always written
fn oracle_xlsx_strict(case: &XCase) -> Report {
    oracle_xlsx_with(case, true)
}

fn run(ctx: &mut Ctx) {
    let n = ctx.n(3000, 60_000);
    ctx.run("xlsx", n, || xcase_strategy(40), oracle_xlsx);
    let n = ctx.n(40, 3000);
    ctx.run("xlsx-long", n, || xcase_strategy(32_767), oracle_xlsx);
    let n = ctx.n(2500, 50_000);
    ctx.run("xlsb", n, || bin_case(40, 4), oracle_xlsb);
    let n = ctx.n(2500, 50_000);
    ctx.run("xls", n, || bin_case(40, 5), oracle_xls);
    let n = ctx.n(2500, 50_000);
    ctx.run("ods", n, ods_case, oracle_ods);
    // shared-string indices beyond 16 bits (66k-entry tables): a few cases per run
    let n = ctx.n(2, 60);
    ctx.run("bigtable", n, big_table, oracle_big);
    // long strings (records of 16 KiB and more need three length bytes in xlsb; SST strings cross
    // several CONTINUE records in xls): a few in the quick tier, many in the thorough one
    let n = ctx.n(40, 1500);
    ctx.run("xlsb-long", n, || bin_case(32_767, 4), oracle_xlsb);
    let n = ctx.n(40, 1500);
    ctx.run("xls-long", n, || bin_case(4000, 5), oracle_xls);
    ctx.assumptions.push("xls: LABEL and STRING records hold at most 4000 units (one record); cuts never fall inside a surrogate pair. ods: runs of two or more spaces and edge spaces are written as text:s (a conformant consumer collapses literal ones); empty strings are not stored (indistinguishable from an empty cell)".into());
    ctx.assumptions.push("xlsx: strings are restricted to XML 1.0 characters; a string with edge white space is written with xml:space=\"preserve\"; the OOXML _xHHHH_ escape convention is not generated".into());
}

fn replay(sub: &str, case: &serde_json::Value) -> Option<Report> {
    match sub {
        "xlsx" | "xlsx-long" => replay_as::<XCase>(case, oracle_xlsx),
        "xlsx-strict" => replay_as::<XCase>(case, oracle_xlsx_strict),
        "xlsb" | "xlsb-long" => replay_as::<BinCase>(case, oracle_xlsb),
        "xls" | "xls-long" => replay_as::<BinCase>(case, oracle_xls),
        "ods" => replay_as::<OdsCase>(case, oracle_ods),
        "bigtable" => replay_as::<BigTable>(case, oracle_big),
        _ => None,
    }
}

// ---------------------------------------------------------------------------------------------
// xlsb / xls / ods

use crate::enc::biff8 as b8;
use crate::enc::ods as od;
use crate::enc::xlsb as bb;
use crate::model::strings::utf16_string;

#[derive(Debug, Clone, Serialize, Deserialize)]
pub struct BinItem {
    pub text: String,
    /// xlsb: 0 shared item, 1 shared item with rich runs + phonetic tail, 2 BrtCellSt, 3 BrtFmlaString
    /// xls:  0 SST 16-bit, 1 SST 8-bit when possible, 2 SST rich+ext with cuts, 3 LABEL, 4 FORMULA+STRING
    pub form: u8,
    pub knob: u16,
}

#[derive(Debug, Clone, Serialize, Deserialize)]
pub struct BinCase {
    pub items: Vec<BinItem>,
}

fn bin_case(max_len: usize, forms: u8) -> impl Strategy<Value = BinCase> {
    proptest::collection::vec((utf16_string(max_len), 0..forms, any::<u16>()).prop_map(|(text, form, knob)| BinItem { text, form, knob }), 1..8).prop_map(|items| BinCase { items })
}

fn label_text(rep: &mut Report, prefix: &str, text: &str, nonplain: bool) -> bool {
    rep.label_if(text.is_empty(), "empty-string");
    rep.label_if(text.chars().any(|c| c as u32 > 0xFFFF), "astral");
    rep.label_if(text.len() > 1000, "long");
    rep.label_if(text.chars().any(|c| (c as u32) < 0x20), &format!("{prefix}:control-char"));
    (has_edge_space(text) || has_special(text)) && nonplain
}

fn oracle_xlsb(case: &BinCase) -> Report {
    let mut rep = Report::new();
    let mut sst = vec![];
    let mut rows = vec![];
    let mut nt = false;
    for (i, it) in case.items.iter().enumerate() {
        let rec = match it.form {
            0 | 1 => {
                sst.push(bb::BbSstItem { text: it.text.clone(), runs: if it.form == 1 { 1 + (it.knob % 3) as u8 } else { 0 }, phonetic: (it.form == 1 && it.knob % 2 == 0).then(|| "フリガナ".to_string()) });
                bb::BbRec::Isst(sst.len() as u32 - 1)
            }
            2 => bb::BbRec::St(it.text.clone()),
            _ => bb::BbRec::FmlaString(it.text.clone(), vec![0x1E, 1, 0]),
        };
        rep.label(["xlsb:BrtSSTItem", "xlsb:BrtSSTItem+rich+phonetic", "xlsb:BrtCellSt", "xlsb:BrtFmlaString"][it.form as usize % 4]);
        nt |= label_text(&mut rep, "xlsb", &it.text, it.form != 2);
        rows.push(bb::BbRow { r: i as u32 + 2, before: vec![], cells: vec![bb::BbCell { col: 1 + (i % 3) as u32, style: 0, rec }] });
    }
    let doc = bb::XlsbDoc { sheets: vec![bb::BbSheet { name: "T".into(), rows, ..Default::default() }], sst, ..Default::default() };
    crate::props::c03::read_and_check(&doc, "xlsb", &mut rep);
    rep.nontrivial = nt;
    rep
}

fn oracle_xls(case: &BinCase) -> Report {
    let mut rep = Report::new();
    let mut sst: Vec<b8::SstString> = vec![];
    let mut cells = vec![];
    let mut nt = false;
    for (i, it) in case.items.iter().enumerate() {
        let u = b8::units(&it.text);
        // LABEL / STRING must fit one record (8224 bytes): longer texts go to the shared-string table
        let form = if it.form >= 3 && u.len() > 4000 { 2 } else { it.form };
        let rec = match form {
            0 | 1 | 2 => {
                let mut s = b8::SstString { units: u.clone(), wide: form == 0, ..Default::default() };
                if form == 2 {
                    s.runs = 1 + it.knob % 3;
                    s.ext = it.knob % 17;
                    s.cut_before = it.knob % 2 == 0;
                    s.cut_after_chars = it.knob % 3 == 0;
                    // one character cut with a packing change, outside surrogate pairs
                    let legal: Vec<usize> = (1..u.len()).filter(|k| !(0xD800..0xDC00).contains(&u[*k - 1])).collect();
                    if !legal.is_empty() {
                        let k = legal[it.knob as usize % legal.len()];
                        s.segments = vec![(k as u16, it.knob % 5 < 2), ((u.len() - k) as u16, it.knob % 5 >= 2)];
                    }
                }
                sst.push(s);
                b8::BRec::LabelSst(sst.len() as u32 - 1)
            }
            3 => b8::BRec::Label(it.text.clone(), it.knob % 2 == 0),
            _ => b8::BRec::Formula { value: if it.text.is_empty() { b8::FVal::EmptyStr } else { b8::FVal::Str(it.text.clone(), it.knob % 2 == 0) }, rgce: vec![0x1E, 1, 0] },
        };
        rep.label(["xls:SST-16bit", "xls:SST-8bit-if-possible", "xls:SST-rich+ext+cuts", "xls:LABEL", "xls:FORMULA+STRING"][it.form as usize % 5]);
        nt |= label_text(&mut rep, "xls", &it.text, it.form == 2 || it.form == 4);
        cells.push(b8::BCell { row: i as u16 + 1, col: (i % 4) as u16, ixfe: 0, rec });
    }
    let doc = b8::XlsDoc { sheets: vec![b8::BSheet { name: "T".into(), cells, dimensions: 1, ..Default::default() }], sst, xfs: vec![0], codepage: Some(1200), ..Default::default() };
    crate::props::c02::read_and_check(&doc, "xls", &mut rep);
    rep.nontrivial = nt;
    rep
}

/// a shared-string table with more than 65536 entries: indices need more than 16 bits
#[derive(Debug, Clone, Serialize, Deserialize)]
pub struct BigTable {
    /// 0 xlsx, 1 xlsb, 2 xls
    pub fmt: u8,
    pub n: u32,
    pub probes: Vec<u32>,
}

pub fn big_table() -> impl Strategy<Value = BigTable> {
    (0u8..3, 65_537u32..66_500, proptest::collection::vec(any::<u32>(), 1..6)).prop_map(|(fmt, n, ps)| {
        let mut probes = vec![65_535, 65_536, n - 1, 0, 255, 256];
        probes.extend(ps.into_iter().map(|p| p % n));
        BigTable { fmt, n, probes }
    })
}

pub fn oracle_big(case: &BigTable) -> Report {
    let mut rep = Report::new();
    let text = |i: u32| format!("s{i}");
    rep.label(["bigtable:xlsx", "bigtable:xlsb", "bigtable:xls"][case.fmt as usize % 3]);
    match case.fmt % 3 {
        0 => {
            // xlsx: one cell per table item, in table order (row i refers to item i, written without
            // de-duplication), so every index up to n-1 is used by a cell
            let rows = (0..case.n).map(|i| XRow { r: i, explicit: true, attrs: false, cells: vec![XCell { col: 0, explicit: true, style: None, value: XVal::Shared(XText::plain(&text(i))), formula: None }] }).collect();
            let doc = XlsxDoc { sheets: vec![XSheet { name: "T".into(), rows, dimension: XDim::Absent, ..Default::default() }], sst: SstKnobs { prepend: vec![], interleave: None, dedupe: false, counts: true }, ..Default::default() };
            read_and_check(&doc, "xlsx-bigtable", &mut rep);
        }
        1 => {
            let sst: Vec<bb::BbSstItem> = (0..case.n).map(|i| bb::BbSstItem { text: text(i), runs: 0, phonetic: None }).collect();
            let rows = case.probes.iter().enumerate().map(|(k, p)| bb::BbRow { r: k as u32, before: vec![], cells: vec![bb::BbCell { col: 0, style: 0, rec: bb::BbRec::Isst(*p) }] }).collect();
            let doc = bb::XlsbDoc { sheets: vec![bb::BbSheet { name: "T".into(), rows, ..Default::default() }], sst, ..Default::default() };
            crate::props::c03::read_and_check(&doc, "xlsb-bigtable", &mut rep);
        }
        _ => {
            let sst: Vec<b8::SstString> = (0..case.n).map(|i| b8::SstString::plain(&text(i))).collect();
            let cells = case.probes.iter().enumerate().map(|(k, p)| b8::BCell { row: k as u16, col: 0, ixfe: 0, rec: b8::BRec::LabelSst(*p) }).collect();
            let doc = b8::XlsDoc { sheets: vec![b8::BSheet { name: "T".into(), cells, dimensions: 1, ..Default::default() }], sst, xfs: vec![0], codepage: Some(1200), ..Default::default() };
            crate::props::c02::read_and_check(&doc, "xls-bigtable", &mut rep);
        }
    }
    rep.nontrivial = true;
    rep
}

#[derive(Debug, Clone, Serialize, Deserialize)]
pub struct OdsItem {
    pub text: String,
    /// 0 office:string-value, 1 text:p content
    pub form: u8,
    /// bit 0: new lines as separate paragraphs (else text:line-break), bit 1: first space of an interior run literal,
    /// bit 2: wrap pieces into spans, bit 3: always write text:c
    pub knob: u8,
    pub esc: u8,
}

#[derive(Debug, Clone, Serialize, Deserialize)]
pub struct OdsCase {
    pub items: Vec<OdsItem>,
}

/// split a string into ODF paragraphs / pieces under the knobs
fn ods_content(text: &str, knob: u8) -> Vec<Vec<od::TextPiece>> {
    let paragraphs: Vec<&str> = if knob & 1 != 0 { text.split('\n').collect() } else { vec![text] };
    let mut out = vec![];
    for p in paragraphs {
        let chars: Vec<char> = p.chars().collect();
        let mut pieces: Vec<od::TextPiece> = vec![];
        let mut i = 0;
        let mut buf = String::new();
        let flush = |buf: &mut String, pieces: &mut Vec<od::TextPiece>| {
            if !buf.is_empty() {
                pieces.push(od::TextPiece::Text(std::mem::take(buf)));
            }
        };
        while i < chars.len() {
            match chars[i] {
                ' ' => {
                    let mut n = 1;
                    while i + n < chars.len() && chars[i + n] == ' ' {
                        n += 1;
                    }
                    let at_edge = i == 0 || i + n == chars.len();
                    if n == 1 && !at_edge {
                        buf.push(' ');
                    } else if !at_edge && knob & 2 != 0 {
                        // a literal space followed by the rest as a space element
                        buf.push(' ');
                        flush(&mut buf, &mut pieces);
                        pieces.push(od::TextPiece::Spaces(n as u32 - 1, knob & 8 != 0));
                    } else {
                        flush(&mut buf, &mut pieces);
                        pieces.push(od::TextPiece::Spaces(n as u32, knob & 8 != 0));
                    }
                    i += n;
                    continue;
                }
                '\t' => {
                    flush(&mut buf, &mut pieces);
                    pieces.push(od::TextPiece::Tab);
                }
                '\n' => {
                    flush(&mut buf, &mut pieces);
                    pieces.push(od::TextPiece::LineBreak);
                }
                c => buf.push(c),
            }
            i += 1;
        }
        flush(&mut buf, &mut pieces);
        if knob & 4 != 0 && pieces.len() >= 2 {
            // wrap the middle pieces into a span
            let last = pieces.pop().unwrap();
            let first = pieces.remove(0);
            pieces = vec![first, od::TextPiece::Span(pieces), last];
        }
        out.push(pieces);
    }
    out
}

fn ods_case() -> impl Strategy<Value = OdsCase> {
    proptest::collection::vec((xml_string(40), 0u8..2, any::<u8>(), 0u8..3).prop_map(|(text, form, knob, esc)| OdsItem { text, form, knob, esc }), 1..8).prop_map(|items| OdsCase { items })
}

fn oracle_ods(case: &OdsCase) -> Report {
    let mut rep = Report::new();
    let mut grid = std::collections::BTreeMap::new();
    let mut nt = false;
    for (i, it) in case.items.iter().enumerate() {
        // an empty string cell is not distinguishable from an empty cell in ods: skip those
        if it.text.is_empty() {
            continue;
        }
        let value = if it.form == 0 { od::OVal::StrAttr(it.text.clone()) } else { od::OVal::StrContent(ods_content(&it.text, it.knob)) };
        let nonplain = it.form == 1 && (it.text.contains("  ") || has_edge_space(&it.text) || it.text.contains(['\n', '\t']) || it.knob & 4 != 0 || it.esc != 0);
        rep.label(if it.form == 0 { "ods:string-value-attribute" } else { "ods:text:p-content" });
        if let od::OVal::StrContent(p) = &value {
            rep.label_if(p.len() > 1, "ods:several-paragraphs");
            let flat = format!("{p:?}");
            rep.label_if(flat.contains("Spaces"), "ods:text:s");
            rep.label_if(flat.contains("Tab"), "ods:text:tab");
            rep.label_if(flat.contains("LineBreak"), "ods:text:line-break");
            rep.label_if(flat.contains("Span"), "ods:text:span");
        }
        nt |= (has_edge_space(&it.text) || has_special(&it.text)) && nonplain;
        grid.insert(od::key((i as u32 + 1, (i % 3) as u32 + 1)), od::OCell { value, formula: None, annotation: None, covered: false, esc: it.esc });
    }
    let doc = od::OdsDoc { sheets: vec![od::OSheet { name: "T".into(), grid, ..Default::default() }], ..Default::default() };
    crate::props::c04::read_and_check(&doc, "ods", &mut rep);
    rep.nontrivial = nt;
    rep
}
