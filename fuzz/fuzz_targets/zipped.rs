//! libFuzzer target for C06 (zip-based formats). A zip checksum stops byte-level mutation at the
//! container, so the input is a list of parts (`\n--PART <name>\n<data>` ...) and the target
//! packs them into a stored zip with correct CRCs before handing it to the readers: mutations land
//! in the XML / BIFF12 parts. The harness re-packs saved artifacts the same way to classify them.
#![no_main]
mod common;
use libfuzzer_sys::fuzz_target;

pub fn split_parts(input: &[u8]) -> Vec<(Vec<u8>, Vec<u8>)> {
    const D: &[u8] = b"\n--PART ";
    let mut cuts = vec![];
    let mut i = 0;
    while i + D.len() <= input.len() {
        if &input[i..i + D.len()] == D {
            cuts.push(i);
            i += D.len();
        } else {
            i += 1;
        }
    }
    let mut out = vec![];
    for (k, &c) in cuts.iter().enumerate() {
        let end = cuts.get(k + 1).copied().unwrap_or(input.len());
        let chunk = &input[c + D.len()..end];
        let nl = chunk.iter().position(|&b| b == b'\n').unwrap_or(chunk.len());
        let name = chunk[..nl].to_vec();
        let data = if nl < chunk.len() { chunk[nl + 1..].to_vec() } else { vec![] };
        if !name.is_empty() && name.len() < 200 {
            out.push((name, data));
        }
    }
    out
}

pub fn stored_zip(parts: &[(Vec<u8>, Vec<u8>)]) -> Vec<u8> {
    let mut out = vec![];
    let mut central = vec![];
    for (name, data) in parts {
        let crc = crc32fast::hash(data);
        let off = out.len() as u32;
        let mut h = vec![];
        h.extend_from_slice(&20u16.to_le_bytes()); // version needed
        h.extend_from_slice(&0u16.to_le_bytes()); // flags
        h.extend_from_slice(&0u16.to_le_bytes()); // stored
        h.extend_from_slice(&0u32.to_le_bytes()); // time, date
        h.extend_from_slice(&crc.to_le_bytes());
        h.extend_from_slice(&(data.len() as u32).to_le_bytes());
        h.extend_from_slice(&(data.len() as u32).to_le_bytes());
        h.extend_from_slice(&(name.len() as u16).to_le_bytes());
        h.extend_from_slice(&0u16.to_le_bytes());
        out.extend_from_slice(b"PK\x03\x04");
        out.extend_from_slice(&h);
        out.extend_from_slice(name);
        out.extend_from_slice(data);
        central.extend_from_slice(b"PK\x01\x02");
        central.extend_from_slice(&20u16.to_le_bytes()); // made by
        central.extend_from_slice(&h);
        central.extend_from_slice(&0u16.to_le_bytes()); // comment len
        central.extend_from_slice(&0u16.to_le_bytes()); // disk
        central.extend_from_slice(&0u16.to_le_bytes()); // internal attrs
        central.extend_from_slice(&0u32.to_le_bytes()); // external attrs
        central.extend_from_slice(&off.to_le_bytes());
        central.extend_from_slice(name);
    }
    let cd_off = out.len() as u32;
    out.extend_from_slice(&central);
    out.extend_from_slice(b"PK\x05\x06");
    out.extend_from_slice(&[0; 4]);
    out.extend_from_slice(&(parts.len() as u16).to_le_bytes());
    out.extend_from_slice(&(parts.len() as u16).to_le_bytes());
    out.extend_from_slice(&(central.len() as u32).to_le_bytes());
    out.extend_from_slice(&cd_off.to_le_bytes());
    out.extend_from_slice(&0u16.to_le_bytes());
    out
}

fuzz_target!(|bytes: &[u8]| {
    let parts = split_parts(bytes);
    if parts.is_empty() || parts.len() > 40 {
        return;
    }
    let zip = stored_zip(&parts);
    common::exercise(&zip);
});
