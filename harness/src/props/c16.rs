//! C16 — workbook metadata is reported faithfully and in workbook order.

use crate::enc::{biff8 as b8, ods as od, xlsb as bb, xlsx as xx};
use crate::engine::{guard, replay_as, Ctx, Report};
use crate::model::formula::col_letters;
use crate::props::Prop;
use calamine::{Data, Reader, Sheet, SheetType, SheetVisible};
use proptest::prelude::*;
use serde::{Deserialize, Serialize};

pub static PROP: Prop = Prop {
    id: "C16",
    run,
    replay,
    rule: "one logical workbook description (1-6 sheets with unique names of 1-31 UTF-16 units over ASCII, XML specials & < > \" ', non-ASCII BMP and astral characters minus the characters Excel forbids; visibility visible/hidden/very hidden; kind worksheet/chart/dialog/macro/VBA as far as each format expresses it; 0-5 defined names; date system flag; one date-styled cell per worksheet) encoded in xlsx, xlsb, xls and ods. Oracle: sheet_names, sheets_metadata (name, kind, visibility) and defined_names equal the model in order, and the date cell of every worksheet carries the workbook's date-system flag. Defined names are text in xlsx/ods and absolute PtgRef3d / PtgArea3d tokens through a non-identity XTI table in xls/xlsb. Non-trivial = >= 3 sheets, a name with a non-ASCII or XML-special character, a non-default visibility or kind, and >= 1 defined name; distinct by serialized case.",
};

#[derive(Debug, Clone, Serialize, Deserialize)]
pub struct MSheet {
    pub name: String,
    /// 0 visible, 1 hidden, 2 very hidden
    pub state: u8,
    /// 0 worksheet, 1 chart, 2 dialog, 3 macro, 4 VBA module
    pub kind: u8,
}

#[derive(Debug, Clone, Serialize, Deserialize)]
pub struct MName {
    pub name: String,
    /// sheet index the reference points to
    pub sheet: u8,
    pub first: (u32, u32),
    /// None = single cell
    pub last: Option<(u32, u32)>,
    /// xls: name stored with 16-bit characters
    pub wide: bool,
}

#[derive(Debug, Clone, Serialize, Deserialize)]
pub struct Case {
    pub sheets: Vec<MSheet>,
    pub names: Vec<MName>,
    pub date1904: bool,
    pub enc: xx::XEnc,
    pub wide: u8,
}

fn name_char() -> impl Strategy<Value = char> {
    prop_oneof![
        6 => proptest::char::range('a', 'z'),
        2 => proptest::char::range('A', 'Z'),
        2 => proptest::char::range('0', '9'),
        2 => Just(' '),
        3 => prop_oneof![Just('&'), Just('<'), Just('>'), Just('"'), Just('\''), Just(';'), Just('#'), Just('!'), Just('$'), Just('.'), Just('-')],
        3 => prop_oneof![Just('é'), Just('ß'), Just('Ж'), Just('中'), Just('ü'), Just('\u{FFFD}')],
        1 => prop_oneof![Just('😀'), Just('𝄞')],
    ]
}

fn sheet_name(i: usize) -> impl Strategy<Value = String> {
    prop_oneof![
        1 => proptest::collection::vec(proptest::char::range('a', 'z'), 1..8),
        2 => proptest::collection::vec(name_char(), 0..12),
    ]
    .prop_map(move |v| {
        // unique (case-insensitively) by a numeric suffix; no leading/trailing apostrophe or space
        let body: String = v.into_iter().collect();
        let body = body.trim_matches(|c| c == '\'' || c == ' ').to_string();
        let mut s = format!("{body}{i}");
        while s.encode_utf16().count() > 31 {
            s.remove(0);
        }
        s
    })
}

fn case_strategy() -> impl Strategy<Value = Case> {
    (1usize..7).prop_flat_map(|n| {
        let sheets: Vec<_> = (0..n).map(|i| (sheet_name(i), prop_oneof![3 => Just(0u8), 1 => Just(1u8), 1 => Just(2u8)], prop_oneof![5 => Just(0u8), 1 => Just(1u8), 1 => Just(2u8), 1 => Just(3u8), 1 => Just(4u8)]).prop_map(|(name, state, kind)| MSheet { name, state, kind }).boxed()).collect();
        let dn = (proptest::sample::select(vec!["Total", "Rate_2023", "überschrift", "N.a.m.e", "_x", "Données"]), 0u8..6, (0u32..65_536, 0u32..256), proptest::option::of((0u32..50, 0u32..30)), any::<bool>());
        (sheets, proptest::collection::vec(dn, 0..6), any::<bool>(), crate::props::c01::enc_strategy(), any::<u8>()).prop_map(|(mut sheets, names, date1904, enc, wide)| {
            // at least one visible worksheet, as every real workbook has
            if !sheets.iter().any(|s| s.kind == 0 && s.state == 0) {
                sheets[0].kind = 0;
                sheets[0].state = 0;
            }
            let mut seen = std::collections::BTreeSet::new();
            let names = names
                .into_iter()
                .enumerate()
                .filter(|(_, n)| seen.insert(n.0))
                .map(|(i, (name, sheet, first, ext, wide))| MName { name: format!("{name}{i}"), sheet, first, last: ext.map(|(h, w)| ((first.0 + h).min(65_535), (first.1 + w).min(255))), wide })
                .collect();
            Case { sheets, names, date1904, enc, wide }
        })
    })
}

fn expect_sheets(case: &Case, fmt: &str) -> Vec<Sheet> {
    case.sheets
        .iter()
        .map(|s| Sheet {
            name: s.name.clone(),
            visible: match (fmt, s.state) {
                (_, 0) => SheetVisible::Visible,
                ("ods", _) => SheetVisible::Hidden,
                (_, 1) => SheetVisible::Hidden,
                _ => SheetVisible::VeryHidden,
            },
            typ: match (fmt, s.kind) {
                ("ods", _) => SheetType::WorkSheet,
                (_, 0) => SheetType::WorkSheet,
                (_, 1) => SheetType::ChartSheet,
                ("xls", 2) => SheetType::WorkSheet, // BoundSheet8 has no dialog type: written as a worksheet
                (_, 2) => SheetType::DialogSheet,
                (_, 3) => SheetType::MacroSheet,
                ("xls", _) => SheetType::Vba,
                _ => SheetType::WorkSheet, // xlsx/xlsb have no VBA-module sheets: written as worksheets
            },
        })
        .collect()
}

fn ref_text(case: &Case, n: &MName) -> String {
    let sheet = &case.sheets[n.sheet as usize % case.sheets.len()].name;
    let cell = |p: (u32, u32)| format!("${}${}", col_letters(p.1), p.0 + 1);
    match n.last {
        None => format!("{sheet}!{}", cell(n.first)),
        Some(l) => format!("{sheet}!{}:{}", cell(n.first), cell(l)),
    }
}

fn check_meta<R: Reader<std::io::Cursor<Vec<u8>>>>(wb: &mut R, case: &Case, fmt: &str, names: &[(String, String)], rep: &mut Report)
where
    R::Error: std::fmt::Debug,
{
    let exp = expect_sheets(case, fmt);
    let got_names = wb.sheet_names();
    let exp_names: Vec<String> = exp.iter().map(|s| s.name.clone()).collect();
    if got_names != exp_names {
        rep.fail(format!("{fmt}: sheet_names() = {got_names:?}, expected {exp_names:?}"));
        return;
    }
    if wb.sheets_metadata() != exp.as_slice() {
        rep.fail(format!("{fmt}: sheets_metadata() = {:?}, expected {exp:?}", wb.sheets_metadata()));
        return;
    }
    if wb.defined_names() != names {
        rep.fail(format!("{fmt}: defined_names() = {:?}, expected {names:?}", wb.defined_names()));
        return;
    }
    if fmt == "ods" {
        return;
    }
    // the date cell of every worksheet carries the flag
    for (i, s) in case.sheets.iter().enumerate() {
        let is_ws = s.kind == 0 || (fmt == "xls" && s.kind == 2) || (fmt != "xls" && s.kind == 4);
        if !is_ws {
            continue;
        }
        match guard(|| wb.worksheet_range(&s.name)) {
            Ok(Ok(r)) => {
                // one date-styled cell per way of storing a number: constant, RK, MULRK run, cached formula result
                let want = match fmt {
                    "xlsx" => 2,
                    "xlsb" => 3,
                    _ => 5,
                };
                for c in 0..want {
                    match r.get_value((0, c)) {
                        Some(Data::DateTime(d)) if *d == calamine::ExcelDateTime::new(44197.0, calamine::ExcelDateTimeType::DateTime, case.date1904) => {}
                        other => {
                            rep.fail(format!("{fmt}: sheet {i} {:?}: the date cell in column {c} reads {other:?}, expected a DateTime with is_1904={}", s.name, case.date1904));
                            return;
                        }
                    }
                }
            }
            other => {
                rep.fail(format!("{fmt}: worksheet_range({:?}): {:?}", s.name, other.map(|r| r.map(|_| ()))));
                return;
            }
        }
    }
}

fn xlsx_doc(case: &Case) -> (xx::XlsxDoc, Vec<(String, String)>) {
    let date_cell = || vec![xx::XRow { r: 0, explicit: true, attrs: false, cells: vec![
        xx::XCell { col: 0, explicit: true, style: Some(1), value: xx::XVal::Num { lex: "44197".into(), typed: false }, formula: None },
        xx::XCell { col: 1, explicit: true, style: Some(1), value: xx::XVal::Num { lex: "44197".into(), typed: true }, formula: Some(xx::XFormula::Plain("A1+0".into())) },
    ] }];
    let sheets = case
        .sheets
        .iter()
        .map(|s| {
            let kind = match s.kind {
                4 => 0,
                k => k,
            };
            xx::XSheet { name: s.name.clone(), state: if s.state == 0 { (s.name.len() % 2) as u8 } else { s.state + 1 }, kind, rows: if kind == 1 { vec![] } else { date_cell() }, ..Default::default() }
        })
        .collect();
    let mut names: Vec<(String, String)> = case.names.iter().map(|n| (n.name.clone(), ref_text(case, n))).collect();
    let mut written = names.clone();
    // the same name again in a sheet scope (one Print_Area per sheet, a local Total shadowing the global
    // one): every definition is listed, in order
    if let (Some(first), true) = (names.first().cloned(), case.wide % 3 == 0) {
        written.push((format!("{}\u{1}0", first.0), format!("{}+1", first.1)));
        names.push((first.0.clone(), format!("{}+1", first.1)));
    }
    (
        xx::XlsxDoc {
            sheets,
            styles: Some(xx::XStyles { num_fmts: vec![], cell_xfs: vec![Some(0), Some(14)], cell_style_xfs: 1, dxf_decoy: false }),
            date1904: if case.date1904 { Some(true) } else if case.wide % 2 == 0 { None } else { Some(false) },
            defined_names: written,
            enc: case.enc.clone(),
            ..Default::default()
        },
        names,
    )
}

/// absolute PtgRef3d / PtgArea3d (BIFF8 layout: u16 rows, 14-bit columns + relative flags)
fn biff8_ref(ixti: u16, n: &MName) -> Vec<u8> {
    let mut v = vec![];
    match n.last {
        None => {
            v.push(0x3A);
            v.extend(ixti.to_le_bytes());
            v.extend((n.first.0 as u16).to_le_bytes());
            v.extend((n.first.1 as u16).to_le_bytes());
        }
        Some(l) => {
            v.push(0x3B);
            v.extend(ixti.to_le_bytes());
            v.extend((n.first.0 as u16).to_le_bytes());
            v.extend((l.0 as u16).to_le_bytes());
            v.extend((n.first.1 as u16).to_le_bytes());
            v.extend((l.1 as u16).to_le_bytes());
        }
    }
    v
}

/// BIFF12 layout: u32 rows
fn biff12_ref(ixti: u16, n: &MName) -> Vec<u8> {
    let mut v = vec![];
    match n.last {
        None => {
            v.push(0x3A);
            v.extend(ixti.to_le_bytes());
            v.extend(n.first.0.to_le_bytes());
            v.extend((n.first.1 as u16).to_le_bytes());
        }
        Some(l) => {
            v.push(0x3B);
            v.extend(ixti.to_le_bytes());
            v.extend(n.first.0.to_le_bytes());
            v.extend(l.0.to_le_bytes());
            v.extend((n.first.1 as u16).to_le_bytes());
            v.extend((l.1 as u16).to_le_bytes());
        }
    }
    v
}

/// a non-identity XTI table: entry k refers to sheet (n-1-k), plus a decoy entry in front
fn xti_for(case: &Case, sheet: usize) -> u16 {
    (case.sheets.len() - sheet) as u16
}

fn oracle(case: &Case) -> Report {
    let mut rep = Report::new();
    let n = case.sheets.len();
    // references are only made to sheets whose names need no quoting in a reference
    let mut case = case.clone();
    case.names.retain(|m| {
        let t = &case.sheets[m.sheet as usize % n].name;
        t.chars().all(|c| c.is_ascii_alphanumeric()) && !t.chars().next().map_or(true, |c| c.is_ascii_digit())
    });
    let case = &case;
    // ---- xlsx
    let (xdoc, xnames) = xlsx_doc(case);
    match crate::props::c01::open_xlsx(xx::encode(&xdoc)) {
        Ok(mut wb) => check_meta(&mut wb, case, "xlsx", &xnames, &mut rep),
        Err(e) => rep.fail(format!("xlsx: {e}")),
    }
    if rep.failed() {
        return rep;
    }
    // ---- xlsb
    let mut names: Vec<(String, String)> = case.names.iter().map(|m| (m.name.clone(), ref_text(case, m))).collect();
    // one more name whose formula mentions the first name (PtgName): First*2
    let derived = (!case.names.is_empty()).then(|| ("Twice_1".to_string(), format!("{}*2", case.names[0].name)));
    if let Some(d) = &derived {
        names.push(d.clone());
    }
    let xtis12: Vec<(i32, i32)> = std::iter::once((-2, -2)).chain((0..n).rev().map(|i| (i as i32, i as i32))).collect();
    let bdoc = bb::XlsbDoc {
        sheets: case
            .sheets
            .iter()
            .map(|s| bb::BbSheet {
                name: s.name.clone(),
                state: s.state,
                kind: if s.kind == 4 { 0 } else { s.kind },
                rows: vec![bb::BbRow { r: 0, before: vec![], cells: vec![
                    bb::BbCell { col: 0, style: 1, rec: bb::BbRec::Real(44197.0) },
                    bb::BbCell { col: 1, style: 1, rec: bb::BbRec::Rk((44197 << 2) | 2) },
                    bb::BbCell { col: 2, style: 1, rec: bb::BbRec::FmlaNum(44197.0, vec![0x1E, 1, 0]) },
                ] }],
                ..Default::default()
            })
            .collect(),
        styles: Some(bb::BbStyles { fmts: vec![], fonts: vec![], style_xfs: vec![0], xfs: vec![0, 14] }),
        date1904: case.date1904,
        names: case
            .names
            .iter()
            .map(|m| (m.name.clone(), biff12_ref(xti_for(case, m.sheet as usize % n), m)))
            .chain(derived.iter().map(|d| (d.0.clone(), vec![0x23, 1, 0, 0, 0, 0x1E, 2, 0, 0x05])))
            .collect(),
        xtis: xtis12,
        book_blocks: case.wide,
        ..Default::default()
    };
    match crate::props::c03::open_xlsb(bb::encode(&bdoc)) {
        Ok(mut wb) => check_meta(&mut wb, case, "xlsb", &names, &mut rep),
        Err(e) => rep.fail(format!("xlsb: {e}")),
    }
    if rep.failed() {
        return rep;
    }
    // ---- xls
    let xtis8: Vec<(i16, i16)> = std::iter::once((-2, -2)).chain((0..n).rev().map(|i| (i as i16, i as i16))).collect();
    let sdoc = b8::XlsDoc {
        sheets: case
            .sheets
            .iter()
            .enumerate()
            .map(|(i, s)| b8::BSheet {
                name: s.name.clone(),
                name_wide: (case.wide >> (i % 8)) & 1 == 1,
                state: s.state,
                kind: match s.kind {
                    0 | 2 => 0,
                    1 => 2,
                    3 => 1,
                    _ => 6,
                },
                cells: vec![
                    b8::BCell { row: 0, col: 0, ixfe: 1, rec: b8::BRec::Number(44197.0) },
                    b8::BCell { row: 0, col: 1, ixfe: 1, rec: b8::BRec::Rk((44197 << 2) | 2) },
                    b8::BCell { row: 0, col: 2, ixfe: 1, rec: b8::BRec::MulRk(vec![(1, (44197 << 2) | 2), (1, (4419700 << 2) | 3)]) },
                    b8::BCell { row: 0, col: 4, ixfe: 1, rec: b8::BRec::Formula { value: b8::FVal::Num(44197.0), rgce: vec![0x1E, 1, 0] } },
                ],
                dimensions: 1,
                ..Default::default()
            })
            .collect(),
        xfs: vec![0, 14],
        date1904: if case.date1904 { Some(true) } else if case.wide % 2 == 0 { None } else { Some(false) },
        codepage: Some(1200),
        names: case
            .names
            .iter()
            .map(|m| b8::BName { name: m.name.clone(), wide: m.wide, rgce: biff8_ref(xti_for(case, m.sheet as usize % n), m) })
            .collect(),
        xtis: xtis8,
        junk: case.wide,
        ..Default::default()
    };
    // (the xls reader decodes only reference tokens in defined names: the derived name is xlsb only)
    let xls_names: Vec<(String, String)> = names.iter().filter(|n| derived.as_ref().map_or(true, |d| d.0 != n.0)).cloned().collect();
    match crate::props::c02::open_xls(b8::encode(&sdoc)) {
        Ok(mut wb) => check_meta(&mut wb, case, "xls", &xls_names, &mut rep),
        Err(e) => rep.fail(format!("xls: {e}")),
    }
    if rep.failed() {
        return rep;
    }
    // ---- ods
    let onames: Vec<(String, String)> = case.names.iter().map(|m| (m.name.clone(), format!("${}.$A$1", case.sheets[m.sheet as usize % n].name))).collect();
    let odoc = od::OdsDoc {
        sheets: case.sheets.iter().map(|s| od::OSheet { name: s.name.clone(), hidden: s.state != 0, grid: [(od::key((0, 0)), od::OCell::of(od::OVal::Date("2021-01-01".into())))].into_iter().collect(), ..Default::default() }).collect(),
        names: onames.iter().enumerate().map(|(i, (a, b))| (a.clone(), b.clone(), i % 2 == 0)).collect(),
        ..Default::default()
    };
    match crate::props::c04::open_ods(od::encode(&odoc)) {
        Ok(mut wb) => check_meta(&mut wb, case, "ods", &onames, &mut rep),
        Err(e) => rep.fail(format!("ods: {e}")),
    }
    let special = case.sheets.iter().any(|s| !s.name.is_ascii() || s.name.contains(['&', '<', '>', '"', '\'']));
    let nondefault = case.sheets.iter().any(|s| s.state != 0 || s.kind != 0);
    rep.label_if(special, "name:non-ascii-or-xml-special");
    rep.label_if(case.sheets.iter().any(|s| s.name.chars().any(|c| c as u32 > 0xFFFF)), "name:astral");
    rep.label_if(case.sheets.iter().any(|s| s.state == 2), "very-hidden");
    rep.label_if(case.sheets.iter().any(|s| s.kind == 3), "macro-sheet");
    rep.label_if(case.sheets.iter().any(|s| s.kind == 1), "chart-sheet");
    rep.label_if(case.sheets.iter().any(|s| s.kind == 2), "dialog-sheet");
    rep.label_if(case.names.iter().any(|m| m.wide), "xls:16-bit-defined-name");
    rep.label_if(case.names.iter().any(|m| m.first.1 >= 26), "defined-name:column>=26");
    rep.label_if(case.date1904, "1904");
    rep.nontrivial = n >= 3 && special && nondefault && !case.names.is_empty();
    rep
}

fn run(ctx: &mut Ctx) {
    let n = ctx.n(3000, 60_000);
    ctx.run("metadata", n, case_strategy, oracle);
    ctx.assumptions.push("sheet names avoid : \\ / ? * [ ] and do not start or end with an apostrophe or a space (Excel's rules); every workbook has a visible worksheet; kinds a format cannot express are written as worksheets there".into());
    ctx.assumptions.push("defined names in xls/xlsb are absolute PtgRef3d / PtgArea3d references to sheets whose names need no quoting rule (the expected text is name!$COL$ROW as the reader documents); relative references in names belong to C14".into());
}

fn replay(sub: &str, case: &serde_json::Value) -> Option<Report> {
    match sub {
        "metadata" => replay_as::<Case>(case, oracle),
        _ => None,
    }
}
