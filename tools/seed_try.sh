#!/bin/bash
# tools/seed_try.sh <patch.diff> <ID> [tier] [seed] — apply a seeded change to /repo, run the check, undo it straight afterwards
p=$(realpath $1); id=$2; tier=${3:-quick}; seed=${4:-0}
cd /verif
before=$(ls replays/$id 2>/dev/null | sort)
git -C /repo apply $p || { echo "APPLY-FAILED"; exit 3; }
out=$(VERIF_SEED=$seed timeout 3000 ./check $id --tier $tier 2>&1); rc=$?
git -C /repo checkout -- .
# drop replay files written by this trial (they belong to the mutant, not to the tree)
for f in $(ls replays/$id 2>/dev/null | sort); do echo "$before" | grep -qx "$f" || rm -f replays/$id/$f; done
git checkout -q -- evidence/$id.json 2>/dev/null
echo "rc=$rc $(echo "$out" | grep -v KNOWN-FINDING | grep -A3 VIOLATION | head -4 | cut -c1-400)"
[ $rc -eq 1 ] && echo "CAUGHT $id" || echo "MISSED $id (rc=$rc)"
