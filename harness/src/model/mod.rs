// logical models and reference implementations
pub mod civil;
pub mod value;
pub mod strings;
pub mod numfmt;
pub mod formula;
