import zipfile,sys
def mk(path, tables, manifest_extra=''):
    z=zipfile.ZipFile(path,'w',zipfile.ZIP_DEFLATED)
    z.writestr(zipfile.ZipInfo('mimetype'),'application/vnd.oasis.opendocument.spreadsheet')
    z.writestr('META-INF/manifest.xml','<?xml version="1.0"?><manifest:manifest xmlns:manifest="urn:oasis:names:tc:opendocument:xmlns:manifest:1.0"><manifest:file-entry manifest:full-path="/" manifest:media-type="application/vnd.oasis.opendocument.spreadsheet"/><manifest:file-entry manifest:full-path="content.xml" manifest:media-type="text/xml">'+manifest_extra+'</manifest:file-entry></manifest:manifest>')
    z.writestr('content.xml','<?xml version="1.0"?><office:document-content xmlns:office="urn:oasis:names:tc:opendocument:xmlns:office:1.0" xmlns:table="urn:oasis:names:tc:opendocument:xmlns:table:1.0" xmlns:text="urn:oasis:names:tc:opendocument:xmlns:text:1.0"><office:body><office:spreadsheet>'+tables+'</office:spreadsheet></office:body></office:document-content>')
    z.close()
def c(v): return f'<table:table-cell office:value-type="float" office:value="{v}"/>'
def e(n=1): return f'<table:table-cell table:number-columns-repeated="{n}"/>' if n>1 else '<table:table-cell/>'
def row(cells, rep=1): return f'<table:table-row'+(f' table:number-rows-repeated="{rep}"' if rep>1 else '')+'>'+cells+'</table:table-row>'
t='<table:table table:name="T">'+row(e(5),2)+row(e(1)+c(1)+c(2))+row(e(3))+row(e(2)+c(3))+row(e(1), 1000)+'</table:table>'
mk('ods1.ods', t)
t='<table:table table:name="T">'+row(c(1)+c(2))+row(e(3))+row(c(3)+'<table:table-cell office:value-type="string"><text:p>a<text:s/> <text:s text:c="2"/>b<text:tab/>c<text:line-break/>d</text:p><text:p>p2</text:p></table:table-cell>')+'</table:table>'
mk('ods2.ods', t)
