import zipfile, sys
NS='http://schemas.openxmlformats.org/spreadsheetml/2006/main'
RNS='http://schemas.openxmlformats.org/officeDocument/2006/relationships'
def mk(path, p, sheet, sst=None, styles=None, wbpr='', extra=None, rels_target='worksheets/sheet1.xml'):
    # p = prefix ('' or 'x')
    def t(n): return (p+':'+n) if p else n
    xmlns = f'xmlns:{p}="{NS}"' if p else f'xmlns="{NS}"'
    z=zipfile.ZipFile(path,'w',zipfile.ZIP_DEFLATED)
    z.writestr('[Content_Types].xml','<Types xmlns="http://schemas.openxmlformats.org/package/2006/content-types"/>')
    z.writestr('xl/workbook.xml', f'<?xml version="1.0"?><{t("workbook")} {xmlns} xmlns:r="{RNS}">{wbpr.replace("T:", p+":" if p else "")}<{t("sheets")}><{t("sheet")} name="S1" sheetId="1" r:id="rId1"/></{t("sheets")}></{t("workbook")}>')
    z.writestr('xl/_rels/workbook.xml.rels', f'<Relationships xmlns="http://schemas.openxmlformats.org/package/2006/relationships"><Relationship Id="rId1" Type="{RNS}/worksheet" Target="{rels_target}"/></Relationships>')
    z.writestr('xl/worksheets/sheet1.xml', f'<?xml version="1.0"?><{t("worksheet")} {xmlns}>'+sheet.replace('T:', p+':' if p else '')+f'</{t("worksheet")}>')
    if sst is not None:
        z.writestr('xl/sharedStrings.xml', f'<?xml version="1.0"?><{t("sst")} {xmlns}>'+sst.replace('T:', p+':' if p else '')+f'</{t("sst")}>')
    if styles is not None:
        z.writestr('xl/styles.xml', f'<?xml version="1.0"?><{t("styleSheet")} {xmlns}>'+styles.replace('T:', p+':' if p else '')+f'</{t("styleSheet")}>')
    for k,v in (extra or {}).items(): z.writestr(k,v)
    z.close()
sheet='<T:sheetData><T:row r="2"><T:c r="B2" t="s"><T:v>1</T:v></T:c><T:c r="C2" t="s"><T:v>2</T:v></T:c><T:c r="D2" t="inlineStr"><T:is><T:r><T:t>ri</T:t></T:r><T:r><T:t>ch</T:t></T:r></T:is></T:c><T:c r="E2" s="1"><T:v>44197</T:v></T:c></T:row><T:row r="3"><T:c r="B3" t="s"><T:v>0</T:v></T:c><T:c r="C3" t="s"><T:v>3</T:v></T:c></T:row></T:sheetData>'
sst='<T:si><T:t>zero</T:t></T:si><T:si><T:r><T:t>o</T:t></T:r><T:r><T:t>ne</T:t></T:r></T:si><T:si/><T:si><T:t>three</T:t></T:si>'
styles='<T:cellXfs><T:xf numFmtId="0"/><T:xf numFmtId="14"/></T:cellXfs>'
for p in ['', 'x']:
    mk(f'ns_{p or "none"}.xlsx', p, sheet, sst, styles, wbpr='<T:workbookPr date1904="1"/>')
sheet2='<T:dimension ref="Z9:AA10"/><T:sheetData><T:row r="2"><T:c r="B2" t="s"><T:v>1</T:v></T:c><T:c t="str"><T:f>A1</T:f><T:v>fs</T:v></T:c><T:c r="E2" s="1"><T:v>44197</T:v></T:c><T:c t="b"><T:v>1</T:v></T:c><T:c t="e"><T:v>#N/A</T:v></T:c><T:c t="d"><T:v>2020-01-01T00:00:00Z</T:v></T:c><T:c t="n"><T:v>1.5</T:v></T:c></T:row><T:row><T:c><T:v>7</T:v></T:c><T:c r="K3"><T:v>8</T:v></T:c></T:row><T:row r="6"><T:c r="A6"><T:v>9</T:v></T:c></T:row></T:sheetData><T:mergeCells count="1"><T:mergeCell ref="B2:C3"/></T:mergeCells>'
sst2='<T:si><T:t>zero</T:t></T:si><T:si><T:t xml:space="preserve"> o&amp;ne </T:t></T:si>'
for p in ['', 'x']:
    mk(f'ns2_{p or "none"}.xlsx', p, sheet2, sst2, styles, wbpr='<T:workbookPr date1904="1"/><T:definedNames><T:definedName name="nm">S1!$A$1</T:definedName></T:definedNames>')
